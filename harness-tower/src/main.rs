//! C20 harness: the real `sentinel_tower::SentinelService` around a scripted inner service, futures polled by hand.
//! usage: harness-tower exec C20 < ops > trace     (same line protocol as /verif/harness)
#[path = "../../harness/src/common.rs"]
mod common;
use common::*;
use sentinel_core::base::{ConcurrencyStat};
use sentinel_core::utils::verif_clock;
use sentinel_core::{flow, isolation, stat};
use sentinel_tower::{BoxError, SentinelService, ServiceRole};
use std::collections::{HashMap, VecDeque};
use std::future::Future;
use std::io::{BufRead, Write};
use std::pin::Pin;
use std::sync::atomic::{AtomicUsize, Ordering};
use std::sync::{Arc, Mutex};
use std::task::{Context, Poll, RawWaker, RawWakerVTable, Waker};
use tower::Service;

pub struct Req {
    res: String,
}

#[derive(Clone, Copy, PartialEq)]
enum Outcome {
    ReadyOk,
    ReadyErr,
    PendingOk,
    PendingErr,
}

/// Follows the Tower readiness protocol like `ConcurrencyLimit` / `Buffer`: `poll_ready` reserves, `call` consumes the
/// reservation, a clone starts without one. A call on an instance that was not driven to readiness is counted.
struct Inner {
    reserved: bool,
    calls: Arc<AtomicUsize>,
    violations: Arc<AtomicUsize>,
    script: Arc<Mutex<VecDeque<Outcome>>>,
}

impl Clone for Inner {
    fn clone(&self) -> Self {
        Inner { reserved: false, calls: self.calls.clone(), violations: self.violations.clone(), script: self.script.clone() }
    }
}

struct ScriptFut {
    o: Outcome,
    polled: bool,
}

impl Future for ScriptFut {
    type Output = Result<String, BoxError>;
    fn poll(mut self: Pin<&mut Self>, cx: &mut Context<'_>) -> Poll<Self::Output> {
        let pending_kind = self.o == Outcome::PendingOk || self.o == Outcome::PendingErr;
        if pending_kind && !self.polled {
            self.polled = true;
            cx.waker().wake_by_ref();
            return Poll::Pending;
        }
        match self.o {
            Outcome::ReadyOk | Outcome::PendingOk => Poll::Ready(Ok("inner-ok".to_string())),
            _ => Poll::Ready(Err("inner-err".into())),
        }
    }
}

impl Service<Req> for Inner {
    type Response = String;
    type Error = BoxError;
    type Future = Pin<Box<dyn Future<Output = Result<String, BoxError>> + Send>>;
    fn poll_ready(&mut self, _cx: &mut Context<'_>) -> Poll<Result<(), Self::Error>> {
        self.reserved = true;
        Poll::Ready(Ok(()))
    }
    fn call(&mut self, _req: Req) -> Self::Future {
        if !self.reserved {
            self.violations.fetch_add(1, Ordering::SeqCst);
        }
        self.reserved = false;
        self.calls.fetch_add(1, Ordering::SeqCst);
        let o = self.script.lock().unwrap().pop_front().expect("harness: no scripted outcome");
        Box::pin(ScriptFut { o, polled: false })
    }
}

fn extractor(r: &Req) -> String {
    r.res.clone()
}

fn fallback(_r: &Req, _e: sentinel_core::Error) -> Result<String, BoxError> {
    Ok("fallback".to_string())
}

fn noop_waker() -> Waker {
    fn clone(_: *const ()) -> RawWaker {
        RawWaker::new(std::ptr::null(), &VTABLE)
    }
    fn noop(_: *const ()) {}
    static VTABLE: RawWakerVTable = RawWakerVTable::new(clone, noop, noop, noop);
    unsafe { Waker::from_raw(RawWaker::new(std::ptr::null(), &VTABLE)) }
}

type Fut = Pin<Box<dyn Future<Output = Result<String, BoxError>> + Send>>;

struct Exec {
    case_no: u64,
    svc: Option<SentinelService<Inner, Req>>,
    inner: Inner,
    futs: HashMap<u64, (Fut, String)>,
}

impl Exec {
    fn new(case_no: u64) -> Self {
        flow::clear_rules();
        isolation::clear_rules();
        verif_clock::enable(T0_NS + case_no * 3_600_000_000_000);
        Exec {
            case_no,
            svc: None,
            inner: Inner {
                reserved: false,
                calls: Arc::new(AtomicUsize::new(0)),
                violations: Arc::new(AtomicUsize::new(0)),
                script: Arc::new(Mutex::new(VecDeque::new())),
            },
            futs: HashMap::new(),
        }
    }
    fn res(&self, r: &str) -> String {
        format!("{}#{}", r, self.case_no)
    }
    fn conc(&self, res: &str) -> String {
        match stat::get_resource_node(&res.to_string()) {
            Some(n) => format!("{}", n.current_concurrency()),
            None => "0".to_string(),
        }
    }
    fn poll_once(&mut self, id: u64) -> String {
        let waker = noop_waker();
        let mut cx = Context::from_waker(&waker);
        let (fut, res) = self.futs.get_mut(&id).expect("harness: no such future");
        let res = res.clone();
        let reply = match fut.as_mut().poll(&mut cx) {
            Poll::Pending => "pending".to_string(),
            Poll::Ready(Ok(s)) => {
                if s == "fallback" {
                    "fallback".to_string()
                } else {
                    "ok".to_string()
                }
            }
            Poll::Ready(Err(e)) => {
                if e.to_string().contains("inner-err") {
                    "innererr".to_string()
                } else {
                    "blockederr".to_string()
                }
            }
        };
        if reply != "pending" {
            self.futs.remove(&id);
        }
        format!(
            "reply={} inner={} conc={} notready={}",
            reply,
            self.inner.calls.load(Ordering::SeqCst),
            self.conc(&res),
            self.inner.violations.load(Ordering::SeqCst)
        )
    }
    fn step(&mut self, op: &Op) -> String {
        match op.name.as_str() {
            "clock" => format!("t={}", verif_clock::now_ns().unwrap()),
            "adv" => {
                verif_clock::advance_ns(op.u_or("ns", 0) + op.u_or("ms", 0) * 1_000_000);
                "ok".into()
            }
            "iso.load" => {
                let res = self.res(&op.s("res"));
                let r = Arc::new(isolation::Rule { id: "iso".into(), resource: res.clone(), threshold: op.u("thr") as u32, ..Default::default() });
                format!("{}", isolation::load_rules_of_resource(&res, vec![r]).map(|b| b.to_string()).unwrap_or("err".into()))
            }
            "flow.load" => {
                let res = self.res(&op.s("res"));
                // maxq=<ms>: a throttling (queueing) rule - an admitted request may have been made to wait (seed C20-f)
                let mut rule = flow::Rule { id: "flow".into(), resource: res.clone(), threshold: op.f("thr"), stat_interval_ms: 1000, ..Default::default() };
                if op.get("maxq").is_some() {
                    rule.control_strategy = flow::ControlStrategy::Throttling;
                    rule.max_queueing_time_ms = op.u("maxq") as u32;
                }
                let r = Arc::new(rule);
                format!("{}", flow::load_rules_of_resource(&res, vec![r]).map(|b| b.to_string()).unwrap_or("err".into()))
            }
            "svc" => {
                let role = if op.s("role") == "client" { ServiceRole::Client } else { ServiceRole::Server };
                let mut s = SentinelService::new(self.inner.clone(), role).with_extractor(extractor);
                if op.get("fallback") == Some("1") {
                    s = s.with_fallback(fallback);
                }
                self.svc = Some(s);
                "ok".into()
            }
            "call" => {
                let id = op.u("id");
                let res = self.res(&op.s("res"));
                let o = match op.s("o").as_str() {
                    "rok" => Outcome::ReadyOk,
                    "rerr" => Outcome::ReadyErr,
                    "pok" => Outcome::PendingOk,
                    _ => Outcome::PendingErr,
                };
                self.inner.script.lock().unwrap().clear();
                self.inner.script.lock().unwrap().push_back(o);
                // the caller honours the Tower contract: poll_ready, then call
                {
                    let waker = noop_waker();
                    let mut cx = Context::from_waker(&waker);
                    let _ = self.svc.as_mut().expect("harness: svc first").poll_ready(&mut cx);
                }
                let fut = self.svc.as_mut().expect("harness: svc first").call(Req { res: res.clone() });
                self.futs.insert(id, (fut, res));
                self.poll_once(id)
            }
            "finish" => {
                let id = op.u("id");
                if !self.futs.contains_key(&id) {
                    return "none".into();
                }
                let mut last = String::new();
                for _ in 0..4 {
                    last = self.poll_once(id);
                    if !last.starts_with("reply=pending") {
                        break;
                    }
                }
                last
            }
            "drop" => {
                let id = op.u("id");
                match self.futs.remove(&id) {
                    Some((f, res)) => {
                        drop(f);
                        format!("dropped conc={}", self.conc(&res))
                    }
                    None => "none".into(),
                }
            }
            "conc" => {
                let res = self.res(&op.s("res"));
                format!("conc={}", self.conc(&res))
            }
            _ => panic!("harness: unknown op {}", op.name),
        }
    }
}

fn main() {
    let args: Vec<String> = std::env::args().collect();
    if args.len() < 3 || args[1] != "exec" {
        eprintln!("usage: harness-tower exec C20 < ops > trace");
        std::process::exit(2);
    }
    let stdin = std::io::stdin();
    let stdout = std::io::stdout();
    let mut out = std::io::BufWriter::new(stdout.lock());
    std::panic::set_hook(Box::new(|_| {}));
    let mut exec: Option<Exec> = None;
    let mut case_no: u64 = 0;
    for line in stdin.lock().lines() {
        let line = line.unwrap();
        let line = match line.find(" -> ") {
            Some(i) => line[..i].to_string(),
            None => line,
        };
        let t = line.trim();
        if t.is_empty() || t.starts_with('#') {
            continue;
        }
        if t.starts_with("case ") || t == "case" {
            case_no += 1;
            writeln!(out, "{}", t).unwrap();
            exec = Some(Exec::new(case_no));
            continue;
        }
        if exec.is_none() {
            case_no += 1;
            exec = Some(Exec::new(case_no));
        }
        let op = Op::parse(t);
        let e = exec.as_mut().unwrap();
        let obs = match std::panic::catch_unwind(std::panic::AssertUnwindSafe(|| e.step(&op))) {
            Ok(o) => o,
            Err(p) => format!("panic {}", panic_msg(&p).replace('\n', " ")),
        };
        writeln!(out, "{} -> {}", t, obs).unwrap();
    }
    out.flush().unwrap();
}
