#!/bin/bash
# usage: try_safe.sh <patch.diff> <Cxx> [<Cyy> ...]   applies a behaviour-preserving patch to /repo, runs the quick checks (must all stay green), reverts.
P=$1; shift
cd /repo && git apply $P || { echo "patch does not apply"; exit 2; }
cd /verif
for c in "$@"; do
  o=$(./check $c quick 2>&1 | tail -5)
  if echo "$o" | grep -q "^VIOLATION"; then echo "$c: FALSE-ALARM"; echo "$o"; else echo "$c: green  $(echo "$o" | grep quick: | sed 's/.*cases/cases/')"; fi
done
git -C /repo checkout -- .
python3 gen/C15_pre_lean.py >/dev/null 2>&1
