#!/usr/bin/env python3
"""install_safe.py <Cxx> <variant> "<checks run and their result>"
copies a behaviour-preserving refactoring from /tmp/seeded-out into /verif/seeded/<Cxx>-<variant>/ with a meta.json"""
import sys, os, json, shutil
pid, var, notes = sys.argv[1:4]
src = f"/tmp/seeded-out/{pid}/{var}"
dst = f"/verif/seeded/{pid}-{var}"
shutil.rmtree(dst, ignore_errors=True)
os.makedirs(dst)
shutil.copy(f"{src}/patch.diff", dst)
shutil.copytree(f"{src}/demo", f"{dst}/demo")
m = json.load(open(f"{src}/meta.json"))
meta = {"property": pid, "kind": "behaviour-preserving refactoring (the property still holds; the checks must stay green)",
        "summary": m.get("summary"), "needs": m.get("needs"), "author_ran": m.get("ran"),
        "detected_by_check": "n/a (harmless)", "checks_stay_green": notes}
json.dump(meta, open(f"{dst}/meta.json", "w"), indent=1)
print("installed", dst)
