#!/usr/bin/env python3
"""Regenerates /verif/MANIFEST.json from the table below (single source of truth for claims)."""
import json, os
V = os.path.dirname(os.path.dirname(os.path.abspath(__file__)))
ALL = ["C%02d" % i for i in range(1, 21)]

NOTE_COMMON = ("Trusted: Lean 4.33 kernel; axioms propext/Classical.choice/Quot.sound only (audited with #print axioms each run; "
               "no native_decide, no sorry); the Lean compiler for the executable model; the hand-written model is tied to the code by "
               "differential execution (sampling, not proof); harness, generators and the cfg(sentinel_verif) hooks; std, lru, serde are not modelled.")

CLAIMS = {
 "C10": dict(
    category="proof",
    text=("run_refines_ref: for every family (flow, breaker, hotspot, isolation, system) and every sequence of load-all / load-for-resource / append / clear / clear-resource calls of any "
          "length, over any pool of valid, invalid and duplicate-but-differently-identified rules, the rules the manager reports/enforces equal the reference map (valid rules of the most "
          "recent replacement plus later appends) as a set under rule equality; rel_step is the one-step preservation, including the 'unchanged' shortcuts (set comparison; the system "
          "manager's order-sensitive Vec comparison). Clauses: append_keeps_existing, append_adds, invalid_append_ignored, load_enforces_only_valid, load_res_frame, reload_reports_unchanged. "
          "Model (Sentinel/Manager.lean) tied to the five rule_manager.rs files by differential execution of random operation sequences with reads after every call (for breakers also the rules "
          "bound to the breakers actually held) and admission probes for flow and isolation; the reference map is evaluated on the implementation's own reports and return values."),
    design_ref="DESIGN.md §6 C10",
    technique="Lean 4 refinement proof (manager state vs reference map, induction over operation sequences) + differential correspondence + reference-map Spec oracle on implementation traces",
    note=NOTE_COMMON + " Rule identity: hash collisions between different ids are assumed away (a rule given under two ids may be kept once or twice, as the property allows). Validity of a parameter set is a key convention here; "
         "the validity checks are C12. Found and fixed with this check: D3 (append dropped active controllers/breakers, three families) and D4 (append of an invalid rule on a fresh resource panicked and poisoned the map) — fix: commits c3fcc96, 6426e15, 49e63f6; witnesses in corpus/C10."),
 "C11": dict(
    category="proof",
    text=("loadFlow_same_rules / loadHs_same_rules / loadBr_same_rules: for every state and every rule list that is, parameter for parameter (ids and order aside), the multiset of "
          "rules bound to a resource's current controllers, the controllers after the reload are a permutation of the controllers before — the same objects with their windows, throttling "
          "schedule, warm-up tokens, hotspot buckets/in-flight counters, breaker state, retry deadline and counters (generic: rebuild_equal_perm, by induction over the rule list). "
          "rebuild_head_reused: an unchanged rule keeps the first equal controller; rebuild_head_changed: a rule equal to no current one gets a controller built from the new rule at once "
          "(fresh, or on the statistics of a stat-reusable old one); rebuild_length; loadFlow_frame (other resources and families untouched). Model tied to build_resource_* / load_rules* of "
          "flow, hotspot and circuitbreaker rule managers by differential execution; the transparency Spec runs a shadow world that never reloads and demands the same verdicts/waits/"
          "breaker transitions from the implementation after reloads of equal rule sets, and the new parameters' behaviour after changed ones."),
    design_ref="DESIGN.md §6 C11",
    technique="Lean 4 proof (controller reuse as a permutation invariant) + differential correspondence + shadow-world transparency Spec on implementation traces",
    note=NOTE_COMMON + " Rule sets are HashSets hashed with the id: the order in which rules are processed is taken from the implementation's observations, and a rule given under two ids may be held once or twice."),
 "C12": dict(
    category="proof",
    text=("Proved in Lean: the five validity checks stated outright (flow_valid_iff, br_valid_iff, hs_valid_iff, iso_valid_iff, sys_valid_iff: accepted iff each clause holds; NaN is accepted), and "
          "for every operation between 'accepted' and 'enforced' that can panic or fail in Rust (modelled as Except): br_counter_constructible (every accepted breaker rule has a constructible "
          "counter window), flow_stat_total (generate_stat_for yields a statistic for every interval: when the global window cannot be reused the private array and its reader are "
          "constructible, flowSampleCount_divides) with flow_stat_is_world_stat / flow_stat_matches_world (it is the statistic the entry-level model of C01 works with), throttling_new_total (the two try_into().unwrap() for all u32 ms values), cold_eff_ge_two and warmup_tokens_total (warm-up token arithmetic for any saturated casts), "
          "arg_index_total (args[idx] never out of bounds for any index and list; argAt_eq_model ties it to the hotspot model), assoc_node_total, conc_counter_total, and the poisoning layer "
          "(no_panic_no_poison, later_calls_work by induction over any call sequence, panic_poisons). Tie: is_valid() of all five families is compared with the model on the exhaustive enum cross "
          "product x boundary grids; the no-panic/no-hang/still-healthy Spec is evaluated on the real code in one child process per case (catch_unwind, 10 s limit, health probe of all five managers). "
          "Floating-point steps inside the checkers have no panic site (casts saturate) and are covered by the grid only."),
    design_ref="DESIGN.md §6 C12",
    technique="Lean 4 proof (validity decision logic; totality of the Except-modelled panic sites; poisoning induction) + exhaustive-enum differential validation + no-panic Spec in child processes",
    note=NOTE_COMMON + " Built with overflow checks on (dev profile). Characterised, not asserted: a breaker window of u32::MAX one-millisecond buckets is accepted and aborts the process "
         "when allocated (memory; far outside the property's interval range; 600000 one-millisecond buckets are exercised and work). Found and fixed with this check: D5 (Associated flow rule panicked at check, c7e8a84), D12 (hotspot in-flight counter wrapped, 8944323), "
         "D13 (warm-up token arithmetic overflowed under both flow locks for u32::MAX cold factor / saturating thresholds, 74e7dc6); D4 (append of an invalid rule poisoned RULE_MAP) was fixed under C10."),
 "C17": dict(
    category="proof",
    text=("check_ok_iff / checkReuse_ok_iff: the clauses of ConfigEntity::check in numbers; check_ok_node_total: for every accepted configuration ResourceNode::new (two unwraps) does not panic and "
          "yields exactly the configured ring (sample_count_total buckets covering interval_ms_total, node_ring_covers_total) and default reader; unservable_rejected: a configuration whose default "
          "metric window cannot be served by the global window is rejected and leaves the configuration in effect unchanged; node_panics_on_bad_global (why it must be); "
          "config_same_for_all_threads / store_read_thread_independent for the process-wide store; thread_local_store_witness: the per-thread store the code had is a counterexample. Tie: one "
          "child process per configuration from the 6x6x5x7 grid (every accepted combination, rejected ones sampled in quick / all in thorough), by entity and by YAML, init on the main or "
          "another thread; accessors on both threads; nodes created on both threads; window behaviour under the virtual clock, including qps_previous of the default reader, compared with the C02 ring model of the configured geometry."),
    design_ref="DESIGN.md §6 C17",
    technique="Lean 4 proof (decision logic of the check, totality of node construction, store model) + differential correspondence per child process incl. a second thread",
    note=NOTE_COMMON + " serde_yaml is trusted for the YAML text. Found and fixed with this check: D9 (configuration was thread_local; fix: commit 2d249fe)."),
 "C18": dict(
    category="proof",
    text=("Part A (derive layer, schema-driven codec over JSON value trees; the five schemas are data: field names, order, types, writable enum variants, defaults): decode_encode (every "
          "well-typed serialisable field value reads back), rule_roundtrip / all_families_roundtrip (every such rule record parses back to itself, all fields), missing_fields_default (any set of "
          "fields removed => exactly those fields at their defaults), fromDoc_perm (field order irrelevant), fromDoc_ignores_unknown, duplicate_field_error, wrong_type_error, fromDocs_all (one "
          "malformed element fails the list), nan_does_not_round_trip / custom_variant_rejected / wrong_types_rejected (why the hypotheses are needed). Part B (MetricItem Display / from_string "
          "on characters): parseNatB_printNat (decimal print/parse for any bound), splitBar_joinBar, line_roundtrip (every in-range item's line parses back to the item with only the separator "
          "replaced in the name), sanitize_id, short_lines_rejected. Tie: serde_json::to_value / to_string / from_str::<Vec<Rule>> on generated rules and mutated documents, compared tree for "
          "tree with the model, incl. the emitted field order; MetricItem lines compared byte for byte; raw and torn lines parsed by both."),
    design_ref="DESIGN.md §6 C18",
    technique="Lean 4 proof (codec round-trip, defaulting, order-independence by induction over schemas; decimal and split/join round trips) + differential correspondence on value trees and line bytes",
    note=NOTE_COMMON + " The JSON text layer (serde_json tokens, escapes, number formatting/parsing) is trusted; truncated / bit-flipped text goes to the real parser only and must not panic (a test). "
         "rule_json_array_parser is called as serde_json::from_str::<Vec<Rule>> because the datasource features do not build offline."),
 "C20": dict(
    category="proof",
    text=("Model: the deal_with_sentinel! macro (build entry; admitted: call inner once, await, exit on Ok and on Err; rejected: fallback or error) over the sequential World model; inner outcome "
          "scripts {ready Ok, ready Err, pending-then-Ok, pending-then-Err}. Theorems: inner_called_once_iff_admitted, rejected_gets_fallback_or_error, admitted_reply, released_on_ready_outcome "
          "(in-flight count after = before, response or error), released_on_pending_outcome (exactly one admission held while in flight, given back by the completing poll, response or error); "
          "dropped_future_keeps_admission documents the separately reported case. Tie: the real sentinel_tower::SentinelService around a scripted inner tower::Service, futures polled by hand, "
          "server and client role, with/without fallback, isolation / rejecting-flow / throttling-flow rules (an admitted request may have been queued first) so that a leaked admission becomes a visible rejection; reply, inner call count and in-flight count compared after "
          "every operation; the Spec (from the implementation's own replies) demands count = number of admitted unfinished requests."),
    design_ref="DESIGN.md §6 C20",
    technique="Lean 4 proof (middleware step functions over the World model, using C04's accounting theorems) + differential correspondence on the real Tower service",
    note=NOTE_COMMON + " Own harness crate /verif/harness-tower (path dependencies on /repo/middleware/tower and /repo/sentinel-core). The tonic interceptor is not exercised (tonic 0.8 is not in the "
         "offline registry). Found and fixed with this check: D11 (exit skipped when the inner service errs; fix: commit a01c729)."),
 "C19": dict(
    category="proof",
    text=("Model: the writer as a function to the list of file actions it issues (create / append / remove, in program order; day and size roll-over, numbering of the next file, "
          "retention), the directory as explicit byte files, the 16-byte big-endian index, the line readers (UTF-8, line splitting, MetricItem::from_string from C18) and the searcher with "
          "its position cache. Proved in Lean: written_items_are_found - for EVERY write history (any timestamps incl. repeated, older and day-changing seconds, empty batches; any size "
          "limit and max file count; items with any u64 counters and any names without line breaks) the directory the writer leaves is well-formed and a time-range search by a fresh searcher "
          "returns, for every window and resource, exactly the accepted items that retention has not removed, in write order (held = a suffix of the accepted items). It rests on "
          "new_writer_well_formed / write_keeps_well_formed (invariant WInv: the directory is, byte for byte, the abstract log; induction over the history: run_inv), rollover_spec + "
          "retention_keeps_newest (a roll-over removes only the oldest files beyond the limit and the new name sorts last), search_range_finds_all (byte-level search = filter, any number "
          "of files, a second continuing in the next file), index_search_first_entry (also with a torn last entry), index_entry_roundtrip, utf8_roundtrip (every character), "
          "written_line_reads_back (with C18 line_roundtrip). written_items_are_found_by_lines: the same for the line-limited search (n >= 1): a prefix of the held items from the begin "
          "second on, at least n when there are that many, whole seconds, nothing beyond the second in which the limit was reached (search_lines_ok). search_after_crash: after any history, "
          "let the writer die at ANY byte of the action stream of the next write (inside a roll-over's removals/creations, inside the 16 bytes of an index entry, inside a line): the "
          "time-range search on what is on disk does not fail and returns exactly the held items of the window - what was held before plus the items of the interrupted call whose lines are "
          "complete, minus whole files removed by retention - followed by at most one more item, the torn line misread (crash_in_write: every such prefix is a well-formed crash-shaped "
          "directory; search_range_crash: the search on any such directory). long_lived_searcher: for any interleaving of writes with searches of both kinds through ONE searcher (its cached "
          "position updated by every search) each search returns exactly what a fresh searcher returns on the directory of that moment (CacheInv is established by every search - "
          "cached_search_eq_fresh - and kept by every write). search_lines_crash / search_lines_after_crash: the line-limited search on every such crash state answers with a list that "
          "meets the line-limited Spec on the held items, followed by at most one torn item (linesLoop_torn, linesOneFile_torn, linesRest_torn). search_after_crash_in_new: whatever prefix "
          "of the two creations of DefaultMetricLogWriter::new on an empty directory has happened, both searches return the empty list and do not fail. PARTIAL only in: n = 0 and resource "
          "names containing a line break are characterised, not asserted. Tie: the real DefaultMetricLogWriter / DefaultMetricSearcher (feature metric_log) run under strace; the observed system-call stream (creates, appended bytes, removals "
          "per operation) must equal the model's action list; searches on the live directory (long-lived and fresh searchers) and on crash states materialised from prefixes of the observed "
          "stream (event boundaries, every byte of index entries, bytes of lines incl. inside a multi-byte character) must equal the model's answers; the Spec is evaluated on the "
          "implementation's answers: range search = held items of the window; line-limited search = the first lines (at least n, whole seconds); retention keeps the newest max-file-count "
          "files; after a crash every item with a complete line and index entry comes back in order, at most the torn line extra, never an error or panic."),
    design_ref="DESIGN.md §6 C19",
    technique="Lean 4 refinement proof (byte-level directory vs abstract groups; writer invariant by induction over write histories; search = filter; every prefix of a write's action stream is a crash-shaped well-formed directory) + differential correspondence on the observed system-call stream incl. crash prefixes + Spec oracle on implementation answers",
    note=NOTE_COMMON + " Own harness crate /verif/harness-mlog (sentinel-core with feature metric_log). strace and gen/C19.py (cutting the log, canonical file names L<day>.<no>, materialising "
         "prefixes) are trusted; file names are modelled as (day, running number), the date text is compared through Python's datetime; without strace the stream is the model's and only the "
         "directory listing after each write is compared (tag nostream in the evidence). Resource names without line breaks (a name containing a line break splits its line: characterised, outside "
         "the quantifier); searches by resource use the stored name ('|' replaced, C18). Found and fixed: D10 (five reader/searcher/writer defects: 2f799c9 01ad495 96e47ad 11e672b 4500944, by "
         "reading, before this check existed; witness histories in corpus/C19/d10_history.ops) and D15 (a line torn inside a multi-byte character made every search fail; fix: commit cdbba64, "
         "found by this check)."),
 "C14": dict(
    category="proof",
    text=("Theorems over every interleaving of any number of threads (Interleaving ps h: any history keeping each thread's program order; interleaving_perm): conc_eq_open (in-flight counter = "
          "sum over threads of entries passed - exited), totals_eq_sums_one_bucket (no roll-over: every total = sum over all threads), totals_le_recorded_across_rollover (resets anywhere: a "
          "total never exceeds what was recorded), one_node (get-or-insert in one critical section: all acquisitions return the same node), two_nodes_witness (the look-up / overwriting-insert "
          "code the repository had is a counterexample). The models are atomic-step models (atomic fetch_add/fetch_sub, one critical section for get-or-insert); the tie runs 2-3 real threads "
          "on the real code under the deterministic scheduler of the sync hook (scheduling points at every lock operation and wrapped atomic), with generated and single-preemption-exhaustive "
          "schedules, and checks node identity per entry, final in-flight count and totals against the schedule-independent predictions; the response-time total must lie between the sums of "
          "lower and upper bounds of the entries' own round trips (virtual clock read around each build and exit); some cases carry a throttling or isolation rule on the shared resource."),
    design_ref="DESIGN.md §6 C14",
    technique="Lean 4 proof over all interleavings of an atomic-step model + scheduled executions of the real code (schedule = replay) checked against the model's schedule-independent predictions",
    note=NOTE_COMMON + " Partial in one respect: only instrumented operations are scheduling points; weak-memory behaviour and uninstrumented atomics are outside the model. Schedule exploration on the "
         "implementation is search, not proof. Found and fixed with this check: D6 (two nodes for one resource; fix: commit 577ba25)."),
 "C15": dict(
    category="proof",
    text=("General theorems (any number of threads, any programs, every schedule): rank_no_deadlock (a ranking every program respects excludes deadlock in every reachable configuration; "
          "invariant init_LInv / step_LInv / no_deadlock), ok_append / ok_flatten (sequences of ranked operations are ranked), acquire_needs_free. Instance, regenerated from executions of the "
          "current source on every run (translator gen/C15_pre_lean.py -> SentinelProofs/Generated/LockTraces.lean): traces_ranked (by decide: every recorded manager function of all five "
          "families, entry and exit path, breaker transitions with a listener calling back into read-only manager functions, respects one ranking and never re-acquires a held lock) and "
          "managers_deadlock_free (any threads running any sequences of these operations never deadlock). Termination: step_work (every step consumes one action), progress (while a call has "
          "not returned some thread can move), all_done_locks_free (when every call has returned no lock is held, so every manager still answers), terminates / managers_terminate (every "
          "execution can be continued to the state in which all calls have returned and all locks are free, within the total program length). Panic/poison freedom under concurrency is not a theorem here: it is searched for by "
          "running 2-3 real threads under the deterministic scheduler (generated schedules; operations with inverted lock orders found by the translator are run against each other with a "
          "preemption at every point) with panic capture and a health probe of all managers afterwards."),
    design_ref="DESIGN.md §6 C15",
    technique="Lean 4 proof (lock ranking => no deadlock, induction over reachable configurations) + kernel-checked instance generated from the code's executions + scheduled executions of real threads",
    note=NOTE_COMMON + " RwLock acquisitions are ranked like exclusive ones. try_lock acquisitions and the state mutex of a breaker inside its own Drop (unreachable by other threads) are left out of "
         "the ranking; both are counted in the evidence. The instance covers the code paths the recording executed. Found and fixed with this check: D8 (breakers dropped under the manager locks "
         "with listener call-backs; fix: commit a631a53). D7 (append lock-order inversion) was fixed under C10."),
 "C16": dict(
    category="proof",
    text=("Model: the breaker state behind one mutex; every from_* is an atomic compare-and-set whose notification is emitted inside the same critical section (Cas / casRun over any history of "
          "attempts by any number of threads). Theorems: listener_log_valid_path (the notifications form a path of the state machine under every interleaving), final_state_last, "
          "one_probe_per_half_open (after a transition into Half-Open the next transition leaves Half-Open: two probes are never admitted in one phase), competing_attempts_one_winner (of any "
          "number of identical attempts exactly the first succeeds), pass_only_closed_or_probe (a request passes only if it read Closed, or read Open at/after the retry deadline and won the "
          "Open->Half-Open transition). Request-level model RSt.step (a request's try_pass together with the rollback hook of its own entry; completions): request_transitions (a request that is "
          "not the probe never moves the breaker; a roll-back out of Half-Open belongs to the thread that opened this very phase in the same request), phase_admits_no_second_probe (from Half-Open, "
          "every history of requests by any threads is refused and changes nothing), run_log_is_path. Split-step model SSt.step (the retry-deadline test and the locked compare-and-set of from_open_to_half_open as two separately scheduled steps, with the re-test under the state lock that the D16 repair added): probe_not_before_deadline (for every interleaving of any threads, a request becomes the probe only at or after the deadline in force at the moment it takes the state lock), stale_check_witness (without the re-test the schedule test/probe-fails-and-reopens/lock admits a probe before the new deadline - the defect D16). Tie: 2-3 real threads around each transition on the real breakers under the deterministic scheduler; the Spec replays the schedule log: the listener "
          "log must be a path from the state left by the setup, every admitted request must have entered the state mutex while it said Closed or have emitted Open->Half-Open itself "
          "(notifications are logged inside the mutex, so the holder is the emitter), a request that is not the probe must not move the breaker out of Half-Open, the final state must be the "
          "last notification's target, and a request may become the probe only at or after the retry deadline current at its lock acquisition (a roll-back does not renew it; for a phase opened by the sequential setup the deadline is the opening completion's time plus the retry timeout, and scenario (c) stands one millisecond short of it and exactly on it). Schedules: generated ones plus single- and two-preemption grids around the opening, the probe race and two racing completions."),
    design_ref="DESIGN.md §6 C16",
    technique="Lean 4 proof over all histories of an atomic-step model + scheduled executions of the real breakers checked by a log-replay Spec",
    note=NOTE_COMMON + " Partial as C14: scheduling points are the instrumented lock and atomic operations; the schedule exploration on the implementation is search. Found and fixed with this check: D16 (stale retry-deadline test before the state lock let a request become the probe of a re-opened breaker at once; fix: commit cd7daf3; witness corpus/C16/d16_stale_retry_check.ops)."),
 "C08": dict(
    category="translation_validation",
    text=("PARTIAL. Proved in Lean: structural theorems about the executable warm-up calculator for every state/threshold/clock (sync_stored_le_max, sync_once_per_second, sync_idempotent, "
          "no_refill_when_saturated, drain_by_previous_qps, refill_when_cold_or_low, idle_cools, allowed_full_below_warning, warmup_step_decision) and exact-arithmetic theorems about the formulas "
          "the f64 code evaluates (allowedQ_bounds: allowance in [q/c, q]; allowedQ_cold / allowedQ_warm; allowedQ_antitone; max_token_le_two_periods: 2p idle seconds refill the whole bucket), "
          "and the closed loop in an idealised form (closed_loop_ideal_reaches_warning_partial, closed_loop_ideal_within_two_periods_partial: in exact arithmetic, with the previous second's "
          "admissions equal to the allowance, saturating demand drains the bucket to the warning line - from where the allowance is q - within 2p seconds, for every q > 0, c > 1, p >= 1; closed_loop_ideal_allowance_monotone_partial: and the allowance never decreases on the way). "
          "NOT proved: that the f64 evaluation stays within rounding of the exact formula, and the closed-loop trajectory of the code itself (floors, rounding, measured rate). These are decided on every run by validation: the soft-float model "
          "reproduces every decision of flow/traffic_shaping/warmup.rs bit-exactly over saturating / at-allowance / below-q/c / on-off demand profiles (single-token requests on 1..20 ms grids), and the "
          "Spec oracle on the implementation's traces checks: never more than q per statistic interval, rejections only above the cold rate q/c, cold start at about q/c, per-second admissions "
          "non-decreasing under saturating demand, q reached within 2p+2 s, cold again after an idle period >= 2p s."),
    design_ref="DESIGN.md §6 C08",
    technique="Lean 4 theorems for the calculator and the exact formulas + translation validation of the closed loop (bit-exact soft-float model vs implementation, Spec oracle on traces)",
    note=NOTE_COMMON + " The closed loop feeds the measured previous-second QPS back into the calculator; with request batches coarser than q/c the rule never warms up (characterised, outside the quantifier: single-token requests)."),
 "C03": dict(
    category="proof",
    text=("breaker_refines_spec / fresh_breaker_refines_spec: REFINEMENT — for every rule with a positive statistic interval (any strategy, thresholds, min request amount, bucket count, retry "
          "timeout) and every sequence, of any length, of requests, completions (fast/slow, ok/error, non-decreasing times) and probe rollbacks, the breaker model (ring of counters with stamps, "
          "reset_metric, retry deadline) and the Spec machine (Sentinel/BreakerSpec.lean: state, deadline, the list of completions; window counts computed from that list) give the same answer to every "
          "request and emit the same notifications; relation BRel = same rule/state/deadline + ring invariant w.r.t. the Spec's completion list, preserved by enter_/rollback_/complete_refines "
          "(ring_inv_write, totals_eq_window, ring_inv_reset: reset_metric corresponds to dropping the completions of the current window; counts_forget_old: older ones can never be counted again). "
          "The Spec machine of the theorem is the oracle the driver evaluates on the implementation's traces. "
          "State-machine clauses for every strategy, rule and clock value: open_rejects_until_retry, open_lets_one_probe_through, half_open_rejects (exactly one probe per Half-Open phase), "
          "admitted_only_if, probe_outcome_decides (re-open with a new deadline / close + reset), closing_clears_stats, blocked_probe_reopens / rollback_noop, "
          "opens_only_when_threshold_met + thresholdMet_spelled (min request amount AND ratio/count threshold, evaluated on the window totals including this completion), "
          "open_completion_only_counts, tryPass_/rollback_/onComplete_announces (every state change announced exactly once with the correct previous state, nothing announced without a change), "
          "brSlot_blocked_iff (several breakers). Window: totals_eq_window (right after recording a completion, the totals compared with the thresholds are exactly the completions "
          "of the last n buckets, by the generic ring refinement ring_window_sum + validAt_iff_inWin_after_write). Tied to circuitbreaker/breaker/*.rs, slot.rs, stat_slot.rs, api/base.rs, entry.rs "
          "through EntryBuilder with a recording StateChangeListener; Spec on traces: an independent Closed/Open/Half-Open machine over the exact windowed completion history must reproduce "
          "admissions, block type, every notification and the states read after every event."),
    design_ref="DESIGN.md §6 C03",
    technique="Lean 4 refinement proof (breaker model vs Spec state machine over exact windowed counts, induction over operation sequences; transition lemmas, notification well-formedness, ring refinement for the counters) + differential correspondence + independent state-machine Spec oracle on implementation traces",
    note=NOTE_COMMON + " Sequential semantics (concurrency is C16). Ratios are the code's f64 division reproduced by the soft-float and compared exactly; snapshots carried by notifications are compared too."),
 "C06": dict(
    category="proof",
    text=("Per-value token bucket (Bucket.step = RejectChecker::do_check on one value's two cells): token_bound (for every arrival sequence of any length, tokens admitted from the "
          "value's first request up to t never exceed q+b+q*(t-first)/d), reject_only_if_insufficient, first_request_admitted, zero_threshold_rejects, bucket_run_inv. LRU layer: "
          "Lru.peek_addIfAbsent / peek_get / peek_store (a key with room behaves as in a finite map, nothing else changes), checkReject_refines_bucket (the controller's verdict and "
          "the new cell contents for a value are exactly Bucket.step on that value's cells: decision locality) and checkReject_frame (other values' cells untouched): no cross-talk "
          "while distinct values stay within capacity; per-value override via thrFor. EVERY HISTORY: run_refines_buckets (for every request sequence of any length whose values belong to a "
          "set of distinct values no larger than the capacity, the controller's verdicts are exactly those of independent per-value buckets; invariant CtrlInv - keys distinct, inside the "
          "universe, both counters in sync - kept by every check: checkReject_inv, checkReject_step, checkReject_sync, Lru.room_of_universe, Lru.keys_addIfAbsent/keys_get/keys_store: nothing "
          "is ever evicted) and controller_token_bound (through the controller, for every value, the admitted tokens never exceed q_v+b+q_v*(t-f)/d whatever the other values do); check_is_checkReject (the hotspot slot's dispatch runs exactly this step). Tied to hotspot/traffic_shaping/reject.rs, mod.rs, cache.rs, slot.rs through EntryBuilder; "
          "Spec on traces: one isolated reference bucket per (rule, value) must reproduce the implementation's decisions, plus the explicit token bound."),
    design_ref="DESIGN.md §6 C06",
    technique="Lean 4 invariant + refinement proofs (per-value bucket, LRU-as-map) + differential correspondence + isolated-reference Spec oracle on implementation traces",
    note=NOTE_COMMON + " Sequential semantics (every compare-exchange succeeds first time). lru crate modelled as a recency list; what happens once the distinct values exceed the capacity (eviction) is outside the property and covered by correspondence only (small-capacity stream)."),
 "C07": dict(
    category="proof",
    text=("Flow throttling: throttleCheck_cases (the five outcomes), flow_block_iff (rejected iff threshold<=0, batch>threshold or wait>max), flow_wait_le_max, flow_spacing / "
          "flow_spacing_run (for every arrival history the scheduled times of admitted requests are at least the later request's cost apart), flow_block_keeps_schedule, "
          "flow_caller_held + flowSlot_clock_mono (the slot returns with the clock at arrival+wait: the caller is really held). Hotspot throttling per value: hs_throttle_wait / "
          "_pass / _blocked / _first, checkThrottle_cell (controller = per-value schedule on that value's cell, other values untouched), throttle_run_refines_schedules (every request "
          "sequence over at most `capacity` distinct values: verdicts incl. wait amounts are those of independent per-value schedules; TimeInv, nothing evicted; check_is_checkThrottle), hs_caller_held with the ms->ns conversion. "
          "Tied to flow/traffic_shaping/throttling.rs, flow/slot.rs, hotspot/traffic_shaping/throttling.rs, hotspot/slot.rs, utils/time.rs under a virtual clock whose sleep hook "
          "advances time; Spec on traces: per-rule schedule references (spacing, bounded queueing, rejection exactly otherwise, elapsed virtual time == scheduled wait)."),
    design_ref="DESIGN.md §6 C07",
    technique="Lean 4 proofs (case characterisation + induction over arrival histories) + differential correspondence under a virtual clock + Spec oracle on implementation traces",
    note=NOTE_COMMON + " Sequential callers only (CAS retry paths not claimed). The throttling interval is a float expression reproduced with the integer soft-float, validated through the waits. "
         "Found and fixed with this check: D2 (hotspot wait in ms slept as ns) — fix: commit 03be35a; witness in corpus/C07."),
 "C09": dict(
    category="proof",
    text=("system_decision: for every rule list and every observation the system slot blocks iff the entry is inbound and some rule trips; trips_iff_spec spells the code's "
          "per-rule check metric by metric and strategy by strategy exactly as the property words it (QPS / concurrency / avg RT at-or-above; load / CPU strictly above and, under BBR, "
          "only with more than one request in flight exceeding max_complete*min_rt/1000); system_outbound_untouched, outbound_never_system_blocked, system_block_carries (tripping rule + "
          "observed value as snapshot), system_trip_blocks (world level), sysObs_from_history (the observed QPS / min RT are the C02 window values of the inbound history). "
          "Tied to system/slot.rs, system/rule.rs, rule_manager.rs, system_metric.rs, node_storage.rs through EntryBuilder on the real chain with real inbound traffic and injected "
          "load/CPU readings; the decision Spec is evaluated on the implementation's own pass/exit history."),
    design_ref="DESIGN.md §6 C09",
    technique="Lean 4 proofs of the decision logic + differential correspondence (real inbound histories, injected readings) + Spec oracle on implementation traces",
    note=NOTE_COMMON + " The BBR capacity estimate is a float mul/div chain reproduced with the integer soft-float; it is validated through the decisions it produces in the correspondence run. "
         "Rule iteration order (HashMap/HashSet) is adopted from the implementation; theorems hold for every order."),
 "C01": dict(
    category="proof",
    text=("flow_admit_iff / flow_admit_iff_run: for every rule list (any number, any thresholds incl. fractional and 0, any stat_interval_ms: default, "
          "reused global window, private window), every operation history of any length with non-decreasing times (enters with any batch incl. 0, "
          "completions in any order), the flow slot admits exactly when admitted-in-window + n <= threshold for every rule, where the window count is "
          "computed from the admitted history (via the C02 ring refinement for the node's global array and every private array); "
          "flow_no_false_reject, flow_block_names_rule (named rule really does not fit, snapshot = its window count), flow_window_cap "
          "(no bucket-aligned window ever holds more than the threshold, for every history in which admissions obeyed the rule; run_admOk shows runs produce such histories); "
          "flowStatFor_ok (every stat_interval_ms yields well-formed statistics). Model (Sentinel/World.lean) tied to flow/slot.rs, traffic_shaping/default.rs, "
          "rule_manager.rs::generate_stat_for, standalone_stat_slot.rs, stat_slot.rs through EntryBuilder on the real global slot chain under a virtual clock; "
          "the admission Spec is evaluated on the implementation's own decisions; after every load the kind of statistic each controller got (the resource node's windows or an own array: "
          "StandaloneStat::reuse_global) is compared with the model's (flowStatFor; C12 flow_stat_is_world_stat)."),
    design_ref="DESIGN.md §6 C01",
    technique="Lean 4 invariant proof over operation histories (on top of the ring refinement) + differential correspondence through EntryBuilder + Spec oracle on implementation traces",
    note=NOTE_COMMON + " Modelling assumptions: counts < 2^53 (u64->f64 exact), default configuration (20x500 ms global, 2x500 ms metric), RelationStrategy::Current only, "
         "rules loaded before traffic (a private window sees admissions since its rule was loaded). Controller order (HashSet iteration) is adopted from the implementation; theorems hold for every order."),
 "C04": dict(
    category="proof",
    text=("build_accounts_once: World.build records exactly one of pass/block with the batch count on the resource's node and mirrors it on the inbound node iff inbound "
          "(outbound_not_mirrored), build_frame: other resources untouched, exit_records_completion, exit_error_does_not_change_accounting (an exit with a traced error records the same completion, round-trip and concurrency as one without), blocked_leaves_no_trace; run_acctOk / node_reads_eq / "
          "concurrency_eq_open_passed: after any sequence of pass/block/completion recordings of any length with non-decreasing times, every statistic the node reports over its "
          "window equals the sum over the entries' history and the in-flight count equals the number of passed, un-exited entries. Tied to stat_slot.rs, resource_node.rs, "
          "node_storage.rs, api/base.rs, entry.rs by differential execution through the real global chain (node and inbound node read after every op); the accounting Spec is "
          "evaluated on the implementation's answers."),
    design_ref="DESIGN.md §6 C04",
    technique="Lean 4 proofs (World-level frame theorems + node invariant by induction over histories) + differential correspondence + Spec oracle on implementation traces",
    note=NOTE_COMMON + " Precondition as in the property: each passed entry exited exactly once. The global inbound node is process-wide: cases are separated by one virtual hour."),
 "C05": dict(
    category="proof",
    text=("Hotspot-concurrency half: hs_conc_admit_iff / hs_conc_cap on the per-value cell (any build/exit sequence, T>=1), checkConc_cell (the rule's check IS the per-value check on "
          "that value's counter cell, override replaces the threshold for that value only, other values' cells untouched while the value has room in the LRU counter), override_local, "
          "extract_key_priority / extract_negative_index / extract_missing. EVERY HISTORY: concAdjust_cell (the statistic slot's up/down on a value's cell), concOp_cell, "
          "conc_run_refines_cells (for every sequence of requests and exits of any length over at most `capacity` distinct values the controller admits exactly what independent per-value "
          "in-flight cells admit and holds exactly their counts; nothing is evicted: ConcInv, Lru.room_of_universe) and conc_cap_every_value (no value's in-flight count ever exceeds its "
          "own threshold); exit_adjusts_hotspot / build_pass_adjusts_hotspot (World.exit and an admitted World.build apply exactly concAdjust to every controller of the resource: the "
          "step concOp of those theorems is what the slot chain does). Spec on traces: one isolated reference per (rule, value). Characterised, not asserted: the code counts entries "
          "(batch plays no role) and admits the first request for a never-seen value even with threshold 0. "
          "Isolation half: isolation_admit_iff (admitted iff in-flight + n <= every threshold, any rule list, any batch), isolation_block_names_rule (named rule really exceeded, snapshot = in-flight), "
          "isolation_cap (in-flight never exceeds any threshold over any build/exit sequence with batch >= 1), freed_capacity_usable, iso_conc_eq_open, block type = Isolation. "
          "Tied to isolation/slot.rs + node concurrency via EntryBuilder on the global chain; Spec evaluated on implementation traces. "),
    design_ref="DESIGN.md §6 C05",
    technique="Lean 4 proofs (decision lemma + invariant over build/exit sequences) + differential correspondence + Spec oracle on implementation traces",
    note=NOTE_COMMON + " Found and fixed with this check: D1 (isolation rejections reported as SystemFlow) — fix: commit ee5bd62; witness kept in corpus/C05."),
 "C02": dict(
    category="proof",
    text=("Ring refinement proved for every geometry (0<n, 0<L), every history of events with non-decreasing timestamps of any length "
          "(idle gaps, exact bucket/interval multiples) and every read time >= last write: RingInv is established by new and preserved by "
          "every write (ring_inv_write, run_inv); sliding_sum_eq / sliding_min_rt_eq: the window sum / min-rt read through any reader "
          "accepted by the reuse check equals the value computed directly from the recorded events whose bucket lies in the window; "
          "qps/avg_rt are the code's float expressions of those sums; qps_previous under the residency condition; leap_new_ok_iff, "
          "checkReuse_iff, checkReuse_tiles: unservable geometries are refused, accepted ones satisfy the read theorem's hypotheses; "
          "history_sum_eq composes them end to end; max_of_single_bucket_eq / max_concurrency_eq (largest per-bucket total / largest recorded "
          "concurrency among the window's buckets); count_with_time_resident / _lower / _upper / _eq for the raw is_deprecated filter (nothing older than one interval is "
          "ever reported, every event of the n newest buckets always is, and the count is exact except for a read exactly on a bucket start at which something was just written). "
          "Model (Sentinel/LeapArray.lean) tied to leap_array.rs / bucket_leap_array.rs / "
          "sliding_window_metric.rs / metric_bucket.rs by differential execution; the event-list Spec is also evaluated on the implementation's answers."),
    design_ref="DESIGN.md §5.2, §6 C02",
    technique="Lean 4 refinement proof (ring invariant, induction over histories) + differential correspondence + Spec oracle on implementation traces",
    note=NOTE_COMMON + " Guards: timestamps >= one interval (no u64 wrap in end-interval+bucket_len; stamp 0 = never used); bucket length >= 1. "
         "f64 results are compared bit-exactly through an integer soft-float (F64.roundDiv) that is validated against Rust on every run, not proved equal to IEEE-754. "
         "The generic read lemma (ring_pred_sum, slot_is_bucket, event_bucket_resident) is in Lemmas/RingMore.lean."),
 "C13": dict(
    category="proof",
    text=("Theorems over every chain (any number of slots, arbitrary/equal order values, any pass/blocked/wait assignment): sorted-permutation "
          "insertion, call order prepare→check→stat, blocked iff some check blocked, delivered error comes from a blocking slot, exactly one "
          "pass-or-blocked notification per stat slot, completion exactly once iff passed; stale_result_discarded (Chain.entryOn: whatever verdict the context carries when the check phase "
          "starts - left by an earlier entry on the same context or written by a preparation slot - is discarded). The model (Sentinel/SlotChain.lean) is tied to "
          "slot_chain.rs / context.rs / EntryBuilder::build / exit by running recording slots on the real chain (also SlotChain::entry / exit called directly on one context several times, "
          "check results scripted per call, preparation slots that dirty the context) and comparing the complete call log; the "
          "Spec predicates are also evaluated directly on the implementation's log."),
    design_ref="DESIGN.md §6 C13",
    technique="Lean 4 theorems on a hand-written model + differential correspondence (recording slots) + Spec oracle on implementation traces",
    note=NOTE_COMMON + " Order among equal order values is adopted from the implementation (sort_unstable); theorems hold for every order."),
}

PENDING_REASON = "check not built yet (work in progress in this session; planned design in DESIGN.md §6) — not claimed until its theorems and correspondence run exist"

def main():
    hooks_commits = [l.strip() for l in open(os.path.join(V, "tools", "hook_commits.txt")) if l.strip()]
    m = {"version": 1, "setup_cmd": "./setup.sh",
         "hooks": {"guard": "--cfg sentinel_verif",
                   "enable": "rustflags --cfg sentinel_verif set in /verif/harness/.cargo/config.toml; the harness crate path-depends on /repo/sentinel-core",
                   "baseline_off_cmd": "cd /repo && cargo test --workspace --no-fail-fast --offline",
                   "source_commits": hooks_commits, "add_only": True},
         "engines": [
            {"name": "lean-model+proofs", "path": "lean/", "serves_properties": sorted(CLAIMS),
             "kind_free_text": "Lean 4 models (Sentinel/*), theorems (SentinelProofs/Props/*), compiled driver sentinel-model"},
            {"name": "rust-harness", "path": "harness/", "serves_properties": sorted(CLAIMS),
             "kind_free_text": "executes operation lines on the real sentinel-core built from /repo with --cfg sentinel_verif"}],
         "checks": [], "notes": "see DESIGN.md; ./check <id> quick|thorough; ./check <id> --replay <file>", "not_applicable": []}
    for p in ALL:
        if p in CLAIMS:
            c = CLAIMS[p]
            m["checks"].append({"property_id": p, "quick_cmd": f"./check {p} quick", "thorough_cmd": f"./check {p} thorough",
                                "evidence_file": f"/verif/evidence/{p}.json", "replay_cmd_template": f"./check {p} --replay {{path}}",
                                "engine": "lean-model+proofs", "level_claimed": {"category": c["category"], "text": c["text"], "design_ref": c["design_ref"]},
                                "level_note": c["note"], "technique": c["technique"]})
        else:
            m["not_applicable"].append({"property_id": p, "reason": PENDING_REASON})
    json.dump(m, open(os.path.join(V, "MANIFEST.json"), "w"), indent=1)
    print("claimed:", sorted(CLAIMS))

main()
