#!/usr/bin/env python3
"""install_seed.py <Cxx> <variant> <caught: yes|no|partial> "<which check output / notes>"
copies a confirmed seeded change from /tmp/seeded-out into /verif/seeded/<Cxx>-<variant>/ with a meta.json"""
import sys, os, json, shutil
pid, var, caught, notes = sys.argv[1:5]
src = f"/tmp/seeded-out/{pid}/{var}"
dst = f"/verif/seeded/{pid}-{var}"
shutil.rmtree(dst, ignore_errors=True)
os.makedirs(dst)
shutil.copy(f"{src}/patch.diff", dst)
shutil.copytree(f"{src}/demo", f"{dst}/demo")
m = json.load(open(f"{src}/meta.json"))
confirm = open(f"{src}/confirm.log").read() if os.path.exists(f"{src}/confirm.log") else ""
line = [l for l in open("/tmp/seeded-out/confirm_all.out").read().splitlines() if l.startswith(f"{pid}/{var}:")] if os.path.exists("/tmp/seeded-out/confirm_all.out") else []
meta = {"property": pid, "summary": m.get("summary"), "needs": m.get("needs"),
        "author_ran": m.get("ran"),
        "confirmed_by_me": (line[-1] if line else "see confirm.log") + "  (scratch worktree /tmp/wtc: suite with change; demo with change must fail (exit 101); demo without must pass (exit 0))",
        "detected_by_check": caught, "detection_notes": notes}
json.dump(meta, open(f"{dst}/meta.json", "w"), indent=1)
print("installed", dst)
