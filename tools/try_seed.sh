#!/bin/bash
# usage: try_seed.sh <patch.diff> <Cxx> [<Cyy> ...]   applies the patch to /repo, runs the quick checks, reverts.
P=$1; shift
cd /repo && git apply $P || { echo "patch does not apply"; exit 2; }
cd /verif
for c in "$@"; do ./check $c quick 2>&1 | tail -4; done
git -C /repo checkout -- .
git -C /repo status --short | head -3
