#!/bin/bash
# usage: seed_go.sh <Cxx> <variant> <demo .rs file name (without .rs)> [extra cargo args]   confirm in /tmp/wtc, then try the property's quick check
ID=$1; VAR=$2; T=$3; shift 3
D=/tmp/seeded-out/$ID/$VAR
PKG=sentinel-core; TD=sentinel-core/tests
if [ "$ID" = C20 ]; then PKG=sentinel-tower; TD=middleware/tower/tests; fi
/verif/tools/confirm_seed.sh $ID $VAR "mkdir -p \$R/$TD && cp $D/demo/$T.rs \$R/$TD/$T.rs" "set -o pipefail; cd \$R && CARGO_NET_OFFLINE=true cargo test -p $PKG --test $T --offline $* 2>&1 | tail -15" | tee -a /tmp/seeded-out/confirm_all.out
if [ -z "$NOTRY" ]; then /verif/tools/try_seed.sh $D/patch.diff $ID 2>&1 | tee /tmp/seeded-out/$ID/$VAR/try.out; fi
