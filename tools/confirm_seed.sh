#!/bin/bash
# usage: confirm_seed.sh <Cxx> <variant> '<setup snippet, run in $R>' '<demo command, run in $R>'
# Confirms in a scratch worktree (/tmp/wtc) that: suite passes with the change, demo fails with it, demo passes without.
# Writes /tmp/seeded-out/<Cxx>/<variant>/confirm.log and prints a one-line verdict.
set -u
ID=$1; VAR=$2; SETUP=$3; RUN=$4
SRC=/tmp/seeded-out/$ID/$VAR
R=/tmp/wtc
export CARGO_NET_OFFLINE=true
LOG=$SRC/confirm.log
: > $LOG
if [ ! -d $R ]; then git -C /repo worktree add -q --detach $R HEAD >>$LOG 2>&1; fi
cd $R && git checkout -q --detach $(git -C /repo rev-parse HEAD) >>$LOG 2>&1 && git checkout -- . && git clean -fdq -e target
git apply $SRC/patch.diff >>$LOG 2>&1 || { echo "$ID/$VAR: PATCH-DOES-NOT-APPLY"; exit 1; }
echo "== suite with change" >>$LOG
cargo test --workspace --no-fail-fast --offline >>$LOG.suite 2>&1
SUITE=$(grep -E "^test result" $LOG.suite | awk '{p+=$4; f+=$6} END{print p" passed "f" failed"}')
if ! echo "$SUITE" | grep -q " 0 failed"; then
  # timing-sensitive tests (throttling::parallel_queueing) can fail under load: retry once
  echo "first attempt: $SUITE; failed tests: $(grep -E '^test .* FAILED' $LOG.suite | tr '\n' ' ')" >>$LOG
  cargo test --workspace --no-fail-fast --offline >$LOG.suite 2>&1
  SUITE="$(grep -E "^test result" $LOG.suite | awk '{p+=$4; f+=$6} END{print p" passed "f" failed"}') (second attempt; first attempt had a failure of a timing test under load)"
fi
echo "$SUITE" >>$LOG
echo "== demo with change" >>$LOG
( export R; eval "$SETUP" ) >>$LOG 2>&1
( export R; eval "$RUN" ) >>$LOG 2>&1; WITH=$?
echo "exit=$WITH" >>$LOG
git apply -R $SRC/patch.diff >>$LOG 2>&1
echo "== demo without change" >>$LOG
( export R; eval "$RUN" ) >>$LOG 2>&1; WITHOUT=$?
echo "exit=$WITHOUT" >>$LOG
git checkout -- . ; git clean -fdq -e target
rm -f $LOG.suite.keep; mv $LOG.suite $LOG.suite.keep
echo "$ID/$VAR: suite[$SUITE] demo-with-change-exit=$WITH demo-without-exit=$WITHOUT"
