#!/usr/bin/env python3
"""Rewrites the table of seeded changes in DESIGN.md (between the SEEDTABLE markers) from seeded/*/meta.json."""
import json, os, re
V = os.path.dirname(os.path.dirname(os.path.abspath(__file__)))
rows = []
for d in sorted(os.listdir(os.path.join(V, "seeded"))):
    mp = os.path.join(V, "seeded", d, "meta.json")
    if not os.path.exists(mp):
        continue
    m = json.load(open(mp))
    summ = re.sub(r"\s+", " ", m.get("summary") or "")
    # first sentence-ish, shortened
    short = summ[:260] + ("..." if len(summ) > 260 else "")
    needs = re.sub(r"\s+", " ", m.get("needs") or "")[:200]
    notes = re.sub(r"\s+", " ", m.get("detection_notes") or m.get("checks_stay_green") or "")[:330]
    rows.append("| %s | %s | %s | %s | %s |" % (d, short.replace("|", "/"), needs.replace("|", "/"), m.get("detected_by_check"), notes.replace("|", "/")))
table = "| seed | change | needs | caught | by / notes |\n|---|---|---|---|---|\n" + "\n".join(rows)
p = os.path.join(V, "DESIGN.md")
s = open(p).read()
b, e = "<!-- SEEDTABLE:BEGIN -->", "<!-- SEEDTABLE:END -->"
s = s[:s.index(b) + len(b)] + "\n" + table + "\n" + s[s.index(e):]
open(p, "w").write(s)
print(len(rows), "seeds")
