import sys, os, random, importlib.util, subprocess
V='/verif'
props=sys.argv[1:]
for prop in props:
    spec=importlib.util.spec_from_file_location('g_'+prop, f'{V}/gen/{prop}.py'); g=importlib.util.module_from_spec(spec); spec.loader.exec_module(g)
    cases=[]
    cd=f'{V}/corpus/{prop}'
    if os.path.isdir(cd):
        for fn in sorted(os.listdir(cd)):
            if fn.endswith('.ops'):
                cur=None
                for line in open(os.path.join(cd,fn)):
                    line=line.rstrip('\n')
                    if not line.strip() or line.startswith('#'): continue
                    if line.startswith('case '): cur=[]; cases.append(cur)
                    elif cur is not None: cur.append(line.split(' -> ')[0])
    rng=random.Random(1*1000003)
    cases += g.gen(rng,'quick')
    path=f'/tmp/covops/{prop}.ops'
    with open(path,'w') as f:
        for i,c in enumerate(cases):
            f.write(f'case g{i}\n'+'\n'.join(c)+'\n')
    env=dict(os.environ, LLVM_PROFILE_FILE=f'/tmp/covprof/{prop}-%p-%8m.profraw', VERIF_WORK='/tmp/covwork')
    os.makedirs('/tmp/covwork',exist_ok=True)
    r=subprocess.run(f"/tmp/covh/target/debug/harness exec {prop} < {path} > /tmp/covops/{prop}.trace", shell=True, env=env)
    print(prop, len(cases), 'rc', r.returncode, flush=True)
