//! C19 harness: drives the real metric log writer / searcher of sentinel-core (feature `metric_log`, built from /repo's
//! working tree with `--cfg sentinel_verif`) and prints each operation line followed by ` -> <observation>`.
//!
//! usage: harness-mlog exec C19 < cases.ops > trace.ops
//!
//! Every operation starts with a marker system call (`unlink("/verif-mark/<case>/<op index>")`, which fails with ENOENT)
//! so that an strace log of this process can be cut into per-operation pieces by gen/C19.py.
use sentinel_core::base::MetricItem;
use sentinel_core::config::{self, ConfigEntity};
use sentinel_core::log::metric::{DefaultMetricLogWriter, DefaultMetricSearcher, MetricLogWriter, MetricSearcher};
use std::collections::HashMap;
use std::io::{BufRead, Write};

fn hex(b: &[u8]) -> String {
    if b.is_empty() {
        return "-".into();
    }
    b.iter().map(|x| format!("{:02x}", x)).collect()
}

fn unhex(s: &str) -> Vec<u8> {
    if s == "-" {
        return vec![];
    }
    (0..s.len() / 2).map(|i| u8::from_str_radix(&s[2 * i..2 * i + 2], 16).unwrap()).collect()
}

struct Op {
    name: String,
    kv: Vec<(String, String)>,
}

impl Op {
    fn parse(line: &str) -> Op {
        let mut it = line.split_whitespace();
        let name = it.next().unwrap_or("").to_string();
        let mut kv = Vec::new();
        for tok in it {
            if let Some(i) = tok.find('=') {
                kv.push((tok[..i].to_string(), tok[i + 1..].to_string()));
            }
        }
        Op { name, kv }
    }
    fn get(&self, k: &str) -> Option<&str> {
        self.kv.iter().find(|(a, _)| a == k).map(|(_, v)| v.as_str())
    }
    fn s(&self, k: &str) -> String {
        self.get(k).unwrap_or_else(|| panic!("harness: missing key {}", k)).to_string()
    }
    fn u(&self, k: &str) -> u64 {
        self.s(k).parse().unwrap_or_else(|_| panic!("harness: bad number for {}", k))
    }
}

fn render_items(v: &[MetricItem]) -> String {
    if v.is_empty() {
        return "ok".into();
    }
    let parts: Vec<String> = v
        .iter()
        .map(|it| {
            let (res, rtype, ts, pass, block, complete, error, rt, occ, conc) = it.verif_fields();
            format!("{},{},{},{},{},{},{},{},{},{}", ts, hex(res.as_bytes()), rtype, pass, block, complete, error, rt, occ, conc)
        })
        .collect();
    format!("ok {}", parts.join(";"))
}

fn parse_items(s: &str) -> Vec<MetricItem> {
    // item = reshex,rtype,pass,block,complete,error,rt,occ,conc   (the timestamp is set by the writer)
    if s == "-" || s.is_empty() {
        return vec![];
    }
    s.split(';')
        .map(|p| {
            let f: Vec<&str> = p.split(',').collect();
            let n = |i: usize| -> u64 { f[i].parse().unwrap() };
            MetricItem::verif_new(
                String::from_utf8(unhex(f[0])).expect("harness: resource must be UTF-8"),
                n(1) as u8,
                0,
                n(2),
                n(3),
                n(4),
                n(5),
                n(6),
                n(7),
                n(8) as u32,
            )
        })
        .collect()
}

struct Exec {
    case_id: String,
    dir: String,
    base: String,
    writer: Option<DefaultMetricLogWriter>,
    searchers: HashMap<String, DefaultMetricSearcher>,
}

impl Exec {
    fn new(case_id: &str, case_no: u64) -> Exec {
        let work = std::env::var("VERIF_WORK").unwrap_or_else(|_| "/verif/.work".into());
        let dir = format!("{}/mlog/{}-{}/", work, std::process::id(), case_no);
        let _ = std::fs::remove_dir_all(&dir);
        Exec { case_id: case_id.to_string(), dir, base: "app-metrics.log".into(), writer: None, searchers: HashMap::new() }
    }

    fn ls(&self) -> String {
        let mut v: Vec<String> = match std::fs::read_dir(&self.dir) {
            Ok(rd) => rd
                .filter_map(|e| e.ok())
                .map(|e| format!("{}:{}", e.file_name().to_string_lossy(), e.metadata().map(|m| m.len()).unwrap_or(0)))
                .collect(),
            Err(_) => vec![],
        };
        v.sort();
        if v.is_empty() {
            "-".into()
        } else {
            v.join(" ")
        }
    }

    fn step(&mut self, op: &Op) -> String {
        match op.name.as_str() {
            "mlog.new" => {
                let now_ms = op.u("now");
                sentinel_core::utils::verif_clock::enable(now_ms * 1_000_000);
                let use_pid = op.get("pid") == Some("1");
                let mut e = ConfigEntity::new();
                e.config.app.app_name = "app".into();
                e.config.log.metric.dir = self.dir.clone();
                e.config.log.metric.use_pid = use_pid;
                config::reset_global_config(e);
                self.base = if use_pid { format!("app-metrics.log.pid{}", std::process::id()) } else { "app-metrics.log".into() };
                match DefaultMetricLogWriter::new(op.u("size"), op.u("files") as usize) {
                    Ok(w) => {
                        self.writer = Some(w);
                        format!("ok dir={} | {}", self.dir, self.ls())
                    }
                    Err(e) => format!("err {}", e.to_string().replace('\n', " ")),
                }
            }
            "mlog.write" => {
                let ts = op.u("ts");
                let mut items = parse_items(&op.s("items"));
                let w = match self.writer.as_mut() {
                    Some(w) => w,
                    None => return "err no-writer".into(),
                };
                match w.write(ts, &mut items) {
                    Ok(()) => format!("ok | {}", self.ls()),
                    Err(e) => format!("err {} | {}", e.to_string().replace('\n', " "), self.ls()),
                }
            }
            "mlog.snew" => {
                let dir = op.get("dir").map(|d| d.to_string()).unwrap_or_else(|| self.dir.clone());
                let base = op.get("base").map(|d| d.to_string()).unwrap_or_else(|| self.base.clone());
                match DefaultMetricSearcher::new(dir, base) {
                    Ok(s) => {
                        self.searchers.insert(op.s("s"), s);
                        "ok".into()
                    }
                    Err(e) => format!("err {}", e),
                }
            }
            "mlog.range" => {
                let s = match self.searchers.get(&op.s("s")) {
                    Some(s) => s,
                    None => return "err no-searcher".into(),
                };
                let res = String::from_utf8(unhex(&op.s("res"))).unwrap();
                match s.find_by_time_and_resource(op.u("b"), op.u("e"), &res) {
                    Ok(v) => render_items(&v),
                    Err(e) => format!("err {}", e.to_string().replace('\n', " ")),
                }
            }
            "mlog.lines" => {
                let s = match self.searchers.get(&op.s("s")) {
                    Some(s) => s,
                    None => return "err no-searcher".into(),
                };
                match s.find_from_time_with_max_lines(op.u("b"), op.u("n") as usize) {
                    Ok(v) => render_items(&v),
                    Err(e) => format!("err {}", e.to_string().replace('\n', " ")),
                }
            }
            other if other.starts_with("plan.") => "ok".into(),
            other => format!("bad-op {}", other),
        }
    }

    fn finish(&mut self) {
        self.writer = None;
        self.searchers.clear();
        if std::env::var("VERIF_KEEP_DIRS").is_err() {
            let _ = std::fs::remove_dir_all(&self.dir);
        }
    }
}

fn panic_msg(p: &Box<dyn std::any::Any + Send>) -> String {
    if let Some(s) = p.downcast_ref::<&str>() {
        s.to_string()
    } else if let Some(s) = p.downcast_ref::<String>() {
        s.clone()
    } else {
        "?".into()
    }
}

fn main() {
    let args: Vec<String> = std::env::args().collect();
    if args.len() < 3 || args[1] != "exec" {
        eprintln!("usage: harness-mlog exec C19 < ops > trace");
        std::process::exit(2);
    }
    let stdin = std::io::stdin();
    let stdout = std::io::stdout();
    let mut out = std::io::BufWriter::new(stdout.lock());
    std::panic::set_hook(Box::new(|_| {}));
    let mut exec: Option<Exec> = None;
    let mut case_no: u64 = 0;
    let mut op_no: u64 = 0;
    for line in stdin.lock().lines() {
        let line = line.unwrap();
        let line = match line.find(" -> ") {
            Some(i) => line[..i].to_string(),
            None => line,
        };
        let t = line.trim();
        if t.is_empty() || t.starts_with('#') {
            continue;
        }
        if t.starts_with("case ") {
            if let Some(mut e) = exec.take() {
                let _ = std::fs::remove_file(format!("/verif-mark/{}/end", e.case_id));
                e.finish();
            }
            case_no += 1;
            op_no = 0;
            writeln!(out, "{}", t).unwrap();
            exec = Some(Exec::new(&t[5..], case_no));
            continue;
        }
        if exec.is_none() {
            case_no += 1;
            exec = Some(Exec::new("0", case_no));
        }
        let op = Op::parse(t);
        let e = exec.as_mut().unwrap();
        // marker for the system call log
        let _ = std::fs::remove_file(format!("/verif-mark/{}/{}", e.case_id, op_no));
        let obs = match std::panic::catch_unwind(std::panic::AssertUnwindSafe(|| e.step(&op))) {
            Ok(o) => o,
            Err(p) => format!("panic {}", panic_msg(&p).replace('\n', " ")),
        };
        writeln!(out, "{} -> {}", t, obs).unwrap();
        op_no += 1;
    }
    if let Some(mut e) = exec.take() {
        let _ = std::fs::remove_file(format!("/verif-mark/{}/end", e.case_id));
        e.finish();
    }
    out.flush().unwrap();
}
