"""C12 generator: the full cross product of the enum-valued rule fields of the five families, each combined with draws from
boundary grids of the numeric fields, every loading entry point, entries with no/short/long argument lists, a health probe."""
import itertools

LEVEL = "proof"
MODEL = "lean/Sentinel/Validity.lean (VFlow/VBr/VHs/VIso/VSys .check) against SentinelRule::is_valid of the five families"
RULE = ("one child process per case. Every combination of enum-valued fields is enumerated: flow calculate{Direct,WarmUp,MemoryAdaptive,Custom} x control{Reject,Throttling,Custom} x "
        "relation{Current, Associated to a seen resource, Associated to a never-seen resource, Associated with empty ref}; breaker strategy{SlowRequestRatio,ErrorRatio,ErrorCount,Custom}; "
        "hotspot metric{Concurrency,QPS} x control{Reject,Throttling,Custom} x param_index -3..3 x key{none,present,blank}; isolation; system metric{Load,AvgRT,Concurrency,InboundQPS,CpuUsage} x "
        "strategy{NoAdaptive,BBR}; each with k draws (quick 2, thorough 8) of the numeric fields from boundary grids (thresholds 0, fractions, 1, 1e6, negative, NaN, inf; intervals 0, 1, "
        "non-dividing, 600000, u32::MAX; zero durations; empty and blank names; memory marks around the machine's total memory), loaded through load_rules / load_rules_of_resource / append_rule "
        "(also with an empty resource name), followed by 2-8 entries (batch 0/1/5/1e6; args none/empty/short/long; attachments; inbound/outbound; clock advances; exits with and without error) "
        "and a health probe of all five managers (get_rules, load a valid rule for an unrelated resource, entry, exit, clear). Extra streams: hotspot rules with LRU capacity 1..3 under 15-30 "
        "entries over 5 parameter values; exhaustively every argument sequence of length cap+3 over cap+1 values inside one window for cap 1, 2 (a sample for 3). Sequence stream: per family and refusal clause, a loading call with the refused rule followed by another entry point with an accepted rule (all "
        "pairs of entry points, both orders), then entries repeating one argument with clock advances. In-flight stream: accepted rules of every family replaced or cleared through every entry point while entries admitted under them (for breakers: the Half-Open probe) are in flight, exits afterwards. Non-trivial: every case (a rule is defined, validated by both sides, loaded and exercised); distinct = distinct op text.")
NONTRIVIAL_TAGS = ["probe"]
ASSUMPTIONS = ["a panic is observed by catch_unwind in a child process, a hang by a 10 s wall-clock limit per case under the virtual clock",
               "the harness is built with overflow checks on (the dev profile the repository's own tests use)"]
TRUSTED = []
KEEP_PREFIX = 1

U32 = 4294967295
THR_F = ["0", "1/2", "1", "3/2", "5", "10", "100", "101", "1000000", "1/1000000", "-1", "-1/2", "nan", "inf", "-inf", "7/3"]
THR_SANE = ["0", "1/2", "1", "5", "10", "1000000", "1/1000", "7/3"]
IVL = [0, 1, 7, 500, 1000, 1500, 3000, 10000, 20000, 600000, 700000]
MEM = ["0", "1", "5", "100", "T-1", "T", "T+1"]


def pick(rng, lst, sane=None, p_sane=0.6):
    if sane is not None and rng.random() < p_sane:
        return rng.choice(sane)
    return rng.choice(lst)


def name(rng, base):
    x = rng.random()
    if x < 0.08:
        return "-"          # empty
    if x < 0.12:
        return "_"          # blank
    return base


def entries(rng, res, n, args_pool=("x", "y", "z"), long_args=True):
    ops = []
    open_ = 0
    for _ in range(n):
        x = rng.random()
        if x < 0.15:
            ops.append("adv ms=%d" % rng.choice([0, 1, 250, 500, 1000, 1500, 10000]))
            continue
        if x < 0.35 and open_:
            ops.append("exit err=%d" % (1 if rng.random() < 0.3 else 0))
            open_ -= 1
            continue
        b = rng.choice([0, 1, 1, 1, 5, 1000000])
        parts = ["build res=%s batch=%d" % (res, b)]
        if rng.random() < 0.5:
            parts.append("dir=out")
        y = rng.random()
        if y < 0.2:
            pass                                   # no args at all
        elif y < 0.3:
            parts.append("args=")                  # empty list
        elif y < 0.6:
            parts.append("args=%s" % rng.choice(args_pool))
        elif y < 0.8:
            parts.append("args=%s" % ",".join(rng.choice(args_pool) for _ in range(2)))
        elif long_args:
            parts.append("args=%s" % ",".join(rng.choice(args_pool) for _ in range(rng.choice([3, 4, 8]))))
        z = rng.random()
        if z < 0.25:
            parts.append("atts=k:%s" % rng.choice(args_pool))
        elif z < 0.32:
            parts.append("atts=")
        elif z < 0.4:
            parts.append("atts=other:v")
        ops.append(" ".join(parts))
        open_ += 1
    while open_ and rng.random() < 0.8:
        ops.append("exit")
        open_ -= 1
    return ops


def via_ops(rng, fam, rid, res, via=None):
    vias = ["all", "append"] if fam == "sys" else ["all", "res", "append"]
    via = via or rng.choice(vias)
    if via == "res":
        return ["load fam=%s via=res res=%s ids=%s" % (fam, res, rid)]
    return ["load fam=%s via=%s ids=%s" % (fam, via, rid)]


def flow_case(rng, calc, ctl, rel):
    res = name(rng, "a")
    ops = ["sys.total"]
    ref = "-"
    if rel == "a-seen":
        ref = "b"
        ops += ["build res=b", "exit"]
    elif rel == "a-unseen":
        ref = "never"
    elif rel == "a-empty":
        ref = "-"
    r = "rule fam=flow id=r1 res=%s ref=%s calc=%s ctl=%s rel=%s thr=%s" % (res, ref, calc, ctl, "c" if rel == "c" else "a", pick(rng, THR_F, THR_SANE))
    r += " ivl=%d maxq=%d" % (pick(rng, IVL + [U32], [0, 500, 1000, 3000]), rng.choice([0, 1, 10, 1000, 600000, U32]))
    if calc == "w" or rng.random() < 0.2:
        r += " period=%d cold=%d" % (rng.choice([0, 1, 2, 10, 3600, U32]), rng.choice([0, 1, 2, 3, 10, U32]))
    if calc == "m" or rng.random() < 0.1:
        good = rng.random() < 0.5
        if good:
            r += " lmu=%d hmu=%d lwm=%s hwm=%s" % (rng.choice([10, 100, 1000000]), rng.choice([1, 5]), rng.choice(["1", "5", "100"]), rng.choice(["1000", "T-1", "T"]))
        else:
            r += " lmu=%d hmu=%d lwm=%s hwm=%s" % (rng.choice([0, 1, 5, 100]), rng.choice([0, 1, 5, 100]), rng.choice(MEM), rng.choice(MEM))
    ops.append(r)
    ops += via_ops(rng, "flow", "r1", res)
    if calc == "m":
        ops.append("sys.mem usage=%s" % rng.choice(["0", "3", "50", "500", "T"]))
    target = "a" if res == "-" else res
    ops += entries(rng, target, rng.randint(2, 8))
    if rng.random() < 0.3:      # a second loading call of another kind on top
        ops += via_ops(rng, "flow", "r1", res)
        ops += entries(rng, target, 2)
    ops.append("probe")
    return ops


def br_case(rng, strat):
    res = name(rng, "a")
    ops = ["sys.total"]
    ivl = pick(rng, [0, 1, 7, 1000, 600000, U32], [1000, 1000, 10000])
    buckets = rng.choice([0, 1, 2, 3, 7, 10, 1000, 2000, U32])
    if rng.random() < 0.4:
        # a bucket count that divides the interval, of any size up to the interval itself: every such window is constructible
        # (br_counter_constructible); seed C15-f capped the count after the divisibility test
        ivl = rng.choice([1500, 2500, 4500, 7000, 10010, 65536, 1001, 9999, 600000])
        divs = [d for d in range(1, ivl + 1) if ivl % d == 0]
        big = [d for d in divs if d > 1000]
        buckets = rng.choice(big) if big and rng.random() < 0.6 else rng.choice(divs[len(divs) // 2:] + [ivl])
    if ivl == U32 and buckets == U32:
        # a window of 2^32-1 one-millisecond buckets is accepted and would need some hundred GB: the allocation aborts the process.
        # Outside the property's quantifier (intervals 1..600000 ms); characterised in DESIGN section 10, not asserted
        buckets = rng.choice([0, 1, 3, 7, 1000])
    r = "rule fam=br id=r1 res=%s strat=%s retry=%d minreq=%d ivl=%d buckets=%d maxrt=%d thr=%s" % (
        res, strat, rng.choice([0, 1, 1000, 1000, U32]), rng.choice([0, 1, 5, 1000000]), ivl,
        buckets, rng.choice([0, 1, 50, U32]), pick(rng, THR_F, ["0", "1/2", "1", "5", "7/3"]))
    ops.append(r)
    ops += via_ops(rng, "br", "r1", res)
    target = "a" if res == "-" else res
    ops += entries(rng, target, rng.randint(3, 10))
    ops.append("adv ms=%d" % rng.choice([0, 500, 1000, 2000]))
    ops += entries(rng, target, rng.randint(1, 4))
    ops.append("probe")
    return ops


def hs_rule(rng, rid, res, metric, ctl, idx, key, cap=None):
    spec = ""
    if rng.random() < 0.3:
        spec = " spec=%s" % ",".join("%s:%d" % (a, rng.choice([0, 1, 3])) for a in rng.sample(["x", "y", "z"], rng.randint(1, 2)))
    return "rule fam=hs id=%s res=%s metric=%s ctl=%s idx=%d key=%s thr=%d maxq=%d burst=%d dur=%d cap=%d%s" % (
        rid, res, metric, ctl, idx, key, rng.choice([0, 1, 2, 5, 1000000]), rng.choice([0, 10, 1000, 600000]), rng.choice([0, 0, 3, 1000000]),
        rng.choice([0, 1, 1, 10, 600]), cap if cap is not None else rng.choice([0, 0, 1, 2, 100]), spec)


def hs_case(rng, metric, ctl, idx, key):
    res = name(rng, "a")
    ops = ["sys.total", hs_rule(rng, "r1", res, metric, ctl, idx, key)]
    ops += via_ops(rng, "hs", "r1", res)
    target = "a" if res == "-" else res
    ops += entries(rng, target, rng.randint(3, 10))
    ops.append("probe")
    return ops


def hs_lru_case(rng):
    """small LRU capacities, many values: eviction while entries are in flight, rule loaded while entries are in flight"""
    ops = ["sys.total"]
    metric = rng.choice(["c", "q", "q"])
    ctl = rng.choice(["r", "r", "t"])
    late = rng.random() < 0.3
    if late:
        ops += entries(rng, "a", rng.randint(1, 3), args_pool=("x", "y"))
        ops = [o for o in ops if not o.startswith("exit")]
    ops.append(hs_rule(rng, "r1", "a", metric, ctl, 0, "-", cap=rng.choice([1, 2, 3])))
    ops += via_ops(rng, "hs", "r1", "a")
    ops += entries(rng, "a", rng.randint(15, 30), args_pool=("v1", "v2", "v3", "v4", "v5"), long_args=False)
    ops += ["exit"] * 4
    ops += entries(rng, "a", 4, args_pool=("v1", "v2"), long_args=False)
    ops.append("probe")
    return ops


def hs_lru_exhaustive_cases(rng, tier):
    """every argument sequence of length cap+3 over cap+1 values (cap = 1, 2; a sample for cap = 3) inside one statistic
    window, each on its own resource and rule: fill the caches, touch an older key, insert a new one, bring an evicted one back ...
    The two LRU caches of a QPS rule must evict the same victims whatever the order (seed C12-b: they drifted apart and the
    check loop never returned). One child process per capacity and control behaviour; a hang ends the case."""
    cases = []
    for cap in (1, 2, 3):
        vals = ["v%d" % i for i in range(cap + 1)]
        seqs = list(itertools.product(vals, repeat=cap + 3))
        if cap == 3:
            seqs = rng.sample(seqs, 300 if tier == "quick" else 2000)
        for ctl in ("r", "t"):
            ops = ["sys.total"]
            ids = []
            for k in range(len(seqs)):
                ops.append("rule fam=hs id=e%d res=l%d metric=q ctl=%s idx=0 key=- thr=3 maxq=0 burst=1 dur=10 cap=%d" % (k, k, ctl, cap))
                ids.append("e%d" % k)
            ops.append("load fam=hs via=all ids=%s" % ",".join(ids))
            for k, seq in enumerate(seqs):
                for v in seq:
                    ops.append("build res=l%d batch=1 args=%s" % (k, v))
                    ops.append("exit")
            ops.append("probe")
            cases.append(ops)
    return cases


def iso_case(rng):
    res = name(rng, "a")
    ops = ["sys.total", "rule fam=iso id=r1 res=%s thr=%d" % (res, rng.choice([0, 0, 1, 2, 5, U32]))]
    ops += via_ops(rng, "iso", "r1", res)
    target = "a" if res == "-" else res
    ops += entries(rng, target, rng.randint(2, 8))
    ops.append("probe")
    return ops


def sys_case(rng, metric, strat):
    ops = ["sys.total", "rule fam=sys id=r1 metric=%s strat=%s thr=%s" % (metric, strat, rng.choice(THR_F))]
    ops += via_ops(rng, "sys", "r1", "-")
    ops += entries(rng, "a", rng.randint(2, 8))
    ops.append("probe")
    return ops


def multi_case(rng):
    """several rules of one family in one loading call, valid and invalid mixed"""
    ops = ["sys.total"]
    fam = rng.choice(["flow", "br", "hs", "iso"])
    ids = []
    for i in range(rng.randint(2, 4)):
        rid = "m%d" % i
        ids.append(rid)
        if fam == "flow":
            ops.append("rule fam=flow id=%s res=a calc=%s ctl=%s rel=c thr=%s ivl=%d period=%d cold=%d maxq=%d" % (
                rid, rng.choice("dw"), rng.choice("rt"), rng.choice(THR_F), rng.choice(IVL), rng.choice([0, 2]), rng.choice([0, 1, 3]), rng.choice([0, 100])))
        elif fam == "br":
            ops.append("rule fam=br id=%s res=a strat=%s retry=%d minreq=1 ivl=%d buckets=%d maxrt=50 thr=%s" % (
                rid, rng.choice("src"), rng.choice([0, 1000]), rng.choice([0, 1000, 3000]), rng.choice([0, 2, 7]), rng.choice(["0", "1/2", "3/2", "3", "-1"])))
        elif fam == "hs":
            ops.append(hs_rule(rng, rid, "a", rng.choice("cq"), rng.choice("rt"), rng.choice([-1, 0, 1]), rng.choice(["-", "k"])))
        else:
            ops.append("rule fam=iso id=%s res=a thr=%d" % (rid, rng.choice([0, 1, 3])))
    via = rng.choice(["all", "res", "append"])
    ops.append("load fam=%s via=%s res=a ids=%s" % (fam, via, ",".join(ids)) if via == "res" else "load fam=%s via=%s ids=%s" % (fam, via, ",".join(ids)))
    ops += entries(rng, "a", rng.randint(3, 8))
    ops.append("probe")
    return ops


# one canonical rule per validity clause (and one accepted rule) per family: every loading entry point sees every kind of refusal
CLAUSE_RULES = {
    "flow": [("ok", "res=a calc=d ctl=r rel=c thr=5 ivl=1000"), ("okw", "res=a calc=w ctl=t rel=c thr=5 ivl=1000 period=3 cold=3 maxq=100"),
             ("resource", "res=- calc=d ctl=r rel=c thr=5 ivl=1000"), ("threshold", "res=a calc=d ctl=r rel=c thr=-1 ivl=1000"),
             ("ref", "res=a ref=- calc=d ctl=r rel=a thr=5 ivl=1000"), ("period", "res=a calc=w ctl=r rel=c thr=5 ivl=1000 period=0 cold=3"),
             ("cold", "res=a calc=w ctl=r rel=c thr=5 ivl=1000 period=3 cold=1"), ("memzero", "res=a calc=m ctl=r rel=c thr=5 lmu=10 hmu=0 lwm=1 hwm=5"),
             ("memusage", "res=a calc=m ctl=r rel=c thr=5 lmu=5 hmu=5 lwm=1 hwm=5"), ("memtotal", "res=a calc=m ctl=r rel=c thr=5 lmu=10 hmu=1 lwm=1 hwm=T+1"),
             ("memmark", "res=a calc=m ctl=r rel=c thr=5 lmu=10 hmu=1 lwm=5 hwm=5")],
    "br": [("ok", "res=a strat=c retry=1000 minreq=1 ivl=1000 buckets=2 thr=3"), ("resource", "res=- strat=c retry=1000 minreq=1 ivl=1000 thr=3"),
           ("interval", "res=a strat=c retry=1000 minreq=1 ivl=0 thr=3"), ("retry", "res=a strat=r retry=0 minreq=1 ivl=1000 thr=1/2"),
           ("threshold", "res=a strat=s retry=1000 minreq=1 ivl=1000 maxrt=5 thr=-1/2"), ("ratio", "res=a strat=r retry=1000 minreq=1 ivl=1000 thr=3/2")],
    "hs": [("ok", "res=a metric=q ctl=r idx=0 key=- thr=2 dur=1 cap=0"), ("okc", "res=a metric=c ctl=r idx=-1 key=- thr=2 cap=0"),
           ("resource", "res=- metric=q ctl=r idx=0 key=- thr=2 dur=1"), ("duration", "res=a metric=q ctl=t idx=0 key=- thr=2 dur=0 maxq=10"),
           ("exclusive", "res=a metric=c ctl=r idx=1 key=k thr=2")],
    "iso": [("ok", "res=a thr=2"), ("resource", "res=- thr=2"), ("threshold", "res=a thr=0")],
    "sys": [("ok", "metric=conc strat=no thr=1000"), ("threshold", "metric=qps strat=no thr=-1"), ("cpu", "metric=cpu strat=bbr thr=101"), ("load", "metric=load strat=no thr=3/2")],
}


def clause_cases(rng):
    cases = []
    for fam, rules in CLAUSE_RULES.items():
        vias = ["all", "append"] if fam == "sys" else ["all", "res", "append"]
        for (cl, text) in rules:
            for via in vias:
                for mixed in (False, True):
                    ops = ["sys.total", "rule fam=%s id=x1 %s" % (fam, text)]
                    ids = ["x1"]
                    if mixed:
                        ops.append("rule fam=%s id=x2 %s" % (fam, rules[0][1].replace("thr=5", "thr=7").replace("thr=3", "thr=4").replace("thr=2", "thr=3").replace("thr=1000", "thr=2000")))
                        ids = ["x2", "x1"] if rng.random() < 0.5 else ["x1", "x2"]
                    if via == "res":
                        ops.append("load fam=%s via=res res=a ids=%s" % (fam, ",".join(ids)))
                    else:
                        ops.append("load fam=%s via=%s ids=%s" % (fam, via, ",".join(ids)))
                    ops += entries(rng, "a", rng.randint(2, 5))
                    # the same call again (the "unchanged" shortcuts) and a clearing load
                    ops.append(ops[2 + (1 if mixed else 0)])
                    ops += entries(rng, "a", 2)
                    ops.append("probe")
                    cases.append(ops)
    return cases


def sequence_cases(rng):
    """two loading calls in a row for one resource: a set containing a refused rule, then an accepted rule through another entry
    point (and the other way round). What the first call refused must stay refused: it must not be enforced - and must not
    panic - after the second call. The entries repeat one argument with clock advances in between (token refills, throttling slots)."""
    cases = []
    extra_hs = [("duration-reject", "res=a metric=q ctl=r idx=0 key=- thr=2 dur=0 cap=0"), ("duration-burst", "res=a metric=q ctl=r idx=0 key=- thr=0 dur=0 burst=3 cap=0")]
    for fam, rules in CLAUSE_RULES.items():
        bad = [r for r in rules if not r[0].startswith("ok")] + (extra_hs if fam == "hs" else [])
        ok = rules[0][1]
        vias = ["all", "append"] if fam == "sys" else ["all", "res", "append"]
        for (cl, text) in bad:
            for v1, v2, order in itertools.product(vias, vias, (0, 1)):
                    if v1 == v2 == "all":
                        continue
                    ops = ["sys.total", "rule fam=%s id=x1 %s" % (fam, text),
                           "rule fam=%s id=x2 %s" % (fam, ok.replace("thr=5", "thr=7").replace("thr=3", "thr=4").replace("thr=2", "thr=3").replace("thr=1000", "thr=2000"))]
                    def load(via, ids):
                        return ("load fam=%s via=res res=a ids=%s" % (fam, ids)) if via == "res" else ("load fam=%s via=%s ids=%s" % (fam, via, ids))
                    first, second = ("x1", "x2") if order == 0 else ("x2", "x1")
                    ops.append(load(v1, first))
                    ops.append(load(v2, second if v2 == "append" else first + "," + second))
                    for i in range(rng.randint(3, 6)):
                        ops.append("build res=a batch=%d args=x%s" % (rng.choice([1, 1, 2]), rng.choice(["", ",y", ""])))
                        ops.append("adv ms=%d" % rng.choice([1, 2, 500, 1000, 1500]))
                        if rng.random() < 0.5:
                            ops.append("exit err=%d" % (1 if rng.random() < 0.3 else 0))
                    ops += ["exit"] * 3
                    ops.append("probe")
                    cases.append(ops)
    return cases


def inflight_cases(rng):
    """accepted rules replaced or cleared while entries admitted under them are still in flight (for breakers: while the probe of a
    Half-Open phase is in flight), through every entry point; the entries are exited afterwards (seed C12-d)"""
    cases = []
    variants = {
        "flow": [("res=a calc=d ctl=r rel=c thr=5 ivl=1000", "res=a calc=d ctl=r rel=c thr=7 ivl=1000"),
                 ("res=a calc=d ctl=t rel=c thr=5 ivl=1000 maxq=2000", "res=a calc=d ctl=t rel=c thr=5 ivl=1000 maxq=100"),
                 ("res=a calc=w ctl=r rel=c thr=50 ivl=1000 period=3 cold=3", "res=a calc=w ctl=r rel=c thr=60 ivl=1000 period=3 cold=3")],
        "br": [("res=a strat=c retry=1000 minreq=1 ivl=1000 buckets=2 thr=1", "res=a strat=c retry=1000 minreq=1 ivl=1000 buckets=2 thr=2"),
               ("res=a strat=r retry=500 minreq=1 ivl=1000 thr=1/2", "res=a strat=r retry=700 minreq=1 ivl=1000 thr=1/2"),
               ("res=a strat=s retry=500 minreq=1 ivl=2000 buckets=2 maxrt=5 thr=1/2", "res=a strat=s retry=500 minreq=1 ivl=1000 maxrt=5 thr=1/2")],
        "hs": [("res=a metric=q ctl=r idx=0 key=- thr=2 dur=1 cap=0", "res=a metric=q ctl=r idx=0 key=- thr=3 dur=1 cap=0"),
               ("res=a metric=c ctl=r idx=0 key=- thr=2 cap=0", "res=a metric=c ctl=r idx=0 key=- thr=3 cap=2"),
               ("res=a metric=q ctl=t idx=0 key=- thr=2 dur=1 maxq=2000 cap=0", "res=a metric=q ctl=t idx=0 key=- thr=4 dur=1 maxq=2000 cap=0")],
        "iso": [("res=a thr=2", "res=a thr=3")],
        "sys": [("metric=conc strat=no thr=1000", "metric=conc strat=no thr=2000")],
    }
    for fam, pairs in variants.items():
        seconds = [("all", ""), ("all", "x2")] + ([] if fam == "sys" else [("res", ""), ("res", "x2")]) + [("append", "x2")]
        for (a, b) in pairs:
            for (via2, ids2) in seconds:
                ops = ["sys.total", "rule fam=%s id=x1 %s" % (fam, a), "rule fam=%s id=x2 %s" % (fam, b)]
                ops.append("load fam=%s via=%s ids=x1" % (fam, rng.choice(["all", "append"])))
                n = 1
                if fam == "br":
                    # trip the breaker, let the retry timeout pass: the next entry is the probe, and stays in flight
                    for _ in range(2):
                        ops += ["build res=a", "adv ms=20", "exit err=1"]
                    ops += ["adv ms=1001", "build res=a"]
                else:
                    n = rng.randint(1, 3)
                    for _ in range(n):
                        ops.append("build res=a batch=1 args=x")
                ops.append(("load fam=%s via=res res=a ids=%s" % (fam, ids2)) if via2 == "res" else ("load fam=%s via=%s ids=%s" % (fam, via2, ids2)))
                if rng.random() < 0.5:
                    ops.append("adv ms=%d" % rng.choice([1, 500, 1100]))
                for _ in range(n):
                    ops.append("exit err=%d" % rng.choice([0, 0, 1]))
                ops += ["build res=a batch=1 args=x", "exit", "probe"]
                cases.append(ops)
    return cases


def gen(rng, tier):
    k = 2 if tier == "quick" else 20
    seq = sequence_cases(rng)
    if tier == "quick":
        seq = [c for c in seq if rng.random() < 0.45]       # every refusal clause still meets several entry-point pairs
    cases = clause_cases(rng) + seq + inflight_cases(rng) + hs_lru_exhaustive_cases(rng, tier)
    for _ in range(k):
        for calc, ctl, rel in itertools.product("dwmc", "rtc", ["c", "a-seen", "a-unseen", "a-empty"]):
            cases.append(flow_case(rng, calc, ctl, rel))
        for strat in "srcx":
            for _ in range(3):
                cases.append(br_case(rng, strat))
        for metric, ctl in itertools.product("cq", "rtc"):
            for idx in range(-3, 4):
                cases.append(hs_case(rng, metric, ctl, idx, rng.choice(["-", "k", "_"])))
        for _ in range(4):
            cases.append(iso_case(rng))
        for metric, strat in itertools.product(["load", "rt", "conc", "qps", "cpu"], ["no", "bbr"]):
            cases.append(sys_case(rng, metric, strat))
        for _ in range(12):
            cases.append(hs_lru_case(rng))
        for _ in range(10):
            cases.append(multi_case(rng))
    return cases
