"""C18 generator: rules of the five families through the JSON round trip; documents with dropped / reordered / duplicated /
wrongly typed fields; mutated text; metric items and raw metric lines."""
LEVEL = "proof"
MODEL = "lean/Sentinel/Codec.lean (schemas, encode/decode, toDoc/fromDoc) and lean/Sentinel/MetricLine.lean (toLine/fromLine)"
RULE = ("per case 6-14 operations. rt: a rule of a family with every enum variant (incl. the skipped Custom ones), boundary numbers (0, u32::MAX, u64::MAX, isize extremes), thresholds with "
        "many digits (1/3, 1/7, 1e-6, 1e6), NaN/inf, unicode / blank / separator-containing names, override maps: serde_json::to_value and to_string, then from_str::<Vec<Rule>>, compared field "
        "for field. parse: a valid document of the family mutated by dropping any subset of fields, shuffling, duplicating a key, unknown keys, wrong JSON types, out-of-range numbers, floats for "
        "integers and integers for floats, enums as strings / single-key maps / unknown variants, 1-3 documents per list. mut: the serialised text truncated at a byte / with a bit flipped (must "
        "be Ok or Err, never a panic; a test). item: metric items with arbitrary counters, names with separators and leading/trailing (unicode) blanks: Display then from_string. line: raw lines "
        "with 0-12 fields, '+' signs, leading zeros, overflowing values, non-ASCII digits, and every kind of torn prefix. Non-trivial: every case; distinct = distinct op text.")
NONTRIVIAL_TAGS = []
ASSUMPTIONS = ["the JSON text layer (serde_json tokens, escapes, number formatting and parsing) is trusted; documents are parsed by the real "
               "datasource::rule_json_array_parser (harness-ds links sentinel-core with the ds_consul feature, which builds offline)"]
TRUSTED = ["serde / serde_json"]
KEEP_PREFIX = 0

U32 = 4294967295
U64 = 18446744073709551615
I64 = 9223372036854775807
# 64-bit counts that no f64 holds exactly: a parser that goes through a float rounds them (seed C18-f)
BIG = [2 ** 53 + 1, I64, U64 - 1, U64]


def hx(s):
    b = s.encode("utf-8")
    return b.hex() if b else "-"


NAMES = ["a", "res", "/foo/*", "a|b", "|", "a b", " lead", "trail ", "　wide　", "中文", "é", "q\"uote", "back\\slash", "", " ", "tab\there", "a|b|c"]
THR = ["0", "1/3", "1/7", "1/2", "5", "123456789/1000", "1/1000000", "1000000", "1/40000", "3/10", "nan", "inf", "-1/3", "-inf", "2/3"]


def long_name(rng):
    """a long name of multi-byte characters behind 0-3 ASCII characters: every byte offset of a long document falls inside some
    character for some alignment (error paths that quote or cut the rejected text; seed C18-d)"""
    return "abc"[:rng.randint(0, 3)] + rng.choice(["中", "é", "\U0001F600", "文"]) * rng.randint(60, 140)


def rule_line(rng, op="rt", long=False):
    fam = rng.choice(["flow", "flow", "br", "br", "hs", "hs", "iso", "sys"])
    name = long_name(rng) if long else rng.choice(NAMES)
    idn = rng.choice(["r1", "x", "中", "a|b", ""])
    head = "%s fam=%s idhex=%s reshex=%s" % (op, fam, hx(idn), hx(name))
    if fam == "flow":
        return head + " ref=%s calc=%s ctl=%s rel=%s thr=%s period=%d cold=%d maxq=%d ivl=%d lmu=%d hmu=%d lwm=%d hwm=%d" % (
            rng.choice(["-", "b", "c"]), rng.choice("dwmdwmc"), rng.choice("rtrtc"), rng.choice("ca"), rng.choice(THR),
            rng.choice([0, 3, U32]), rng.choice([0, 2, U32]), rng.choice([0, 10, U32]), rng.choice([0, 1000, U32]),
            rng.choice([0, 7] + BIG), rng.choice([0, 7] + BIG), rng.choice([0, 1024] + BIG), rng.choice([0, 2048] + BIG))
    if fam == "br":
        return head + " strat=%s retry=%d minreq=%d ivl=%d buckets=%d maxrt=%d thr=%s" % (
            rng.choice("srcsrcx"), rng.choice([0, 1000, U32]), rng.choice([0, 5] + BIG), rng.choice([0, 1000, U32]), rng.choice([0, 2, U32]),
            rng.choice([0, 50] + BIG), rng.choice(THR))
    if fam == "hs":
        spec = ""
        if rng.random() < 0.6:
            spec = " spec=%s" % ",".join("%s:%d" % (k, rng.choice([0, 1, 7] + BIG)) for k in rng.sample(["x", "y", "z", "w"], rng.randint(1, 3)))
        return head + " metric=%s ctl=%s idx=%d key=%s thr=%d maxq=%d burst=%d dur=%d cap=%d%s" % (
            rng.choice("cq"), rng.choice("rtrtc"), rng.choice([0, 1, -1, -3, I64, -I64 - 1]), rng.choice(["-", "k"]), rng.choice([0, 5] + BIG),
            rng.choice([0, 10] + BIG), rng.choice([0, 2] + BIG), rng.choice([0, 1] + BIG), rng.choice([0, 100] + BIG), spec)
    if fam == "iso":
        return head + " thr=%d" % rng.choice([0, 1, 5, U32])
    return head + " metric=%s strat=%s thr=%s" % (rng.choice(["load", "rt", "conc", "qps", "cpu"]), rng.choice(["no", "bbr"]), rng.choice(THR))


SCHEMAS = {
    "flow": [("id", "s"), ("resource", "s"), ("ref_resource", "s"), ("calculate_strategy", ["Direct", "WarmUp", "MemoryAdaptive"]), ("control_strategy", ["Reject", "Throttling"]),
             ("relation_strategy", ["Current", "Associated"]), ("threshold", "f"), ("warm_up_period_sec", "u32"), ("warm_up_cold_factor", "u32"), ("max_queueing_time_ms", "u32"),
             ("stat_interval_ms", "u32"), ("low_mem_usage_threshold", "u64"), ("high_mem_usage_threshold", "u64"), ("mem_low_water_mark", "u64"), ("mem_high_water_mark", "u64")],
    "br": [("id", "s"), ("resource", "s"), ("strategy", ["SlowRequestRatio", "ErrorRatio", "ErrorCount"]), ("retry_timeout_ms", "u32"), ("min_request_amount", "u64"),
           ("stat_interval_ms", "u32"), ("stat_sliding_window_bucket_count", "u32"), ("max_allowed_rt_ms", "u64"), ("threshold", "f")],
    "hs": [("id", "s"), ("resource", "s"), ("metric_type", ["Concurrency", "QPS"]), ("control_strategy", ["Reject", "Throttling"]), ("param_index", "i"), ("param_key", "s"),
           ("threshold", "u64"), ("max_queueing_time_ms", "u64"), ("burst_count", "u64"), ("duration_in_sec", "u64"), ("params_max_capacity", "u64"), ("specific_items", "m")],
    "iso": [("id", "s"), ("resource", "s"), ("metric_type", ["Concurrency"]), ("threshold", "u32")],
    "sys": [("id", "s"), ("metric_type", ["Load", "AvgRT", "Concurrency", "InboundQPS", "CpuUsage"]), ("threshold", "f"), ("strategy", ["NoAdaptive", "BBR"])],
}


def good_value(rng, kind):
    if kind == "s":
        return "s:" + hx(rng.choice(NAMES))
    if kind == "f":
        x = rng.random()
        if x < 0.3:
            return "n:%d" % rng.choice([0, 5, 1000000, 2 ** 53 + 1, U64])
        if x < 0.4:
            return "i:-%d" % rng.choice([1, 7])
        return "f:" + rng.choice(["0", "1/3", "1/2", "5/1", "-1/7", "123456789/1000"])
    if kind == "u32":
        return "n:%d" % rng.choice([0, 1, 1000, U32])
    if kind == "u64":
        return "n:%d" % rng.choice([0, 1, 1000, U32 + 1, U64])
    if kind == "i":
        return rng.choice(["n:0", "n:3", "i:-3", "n:%d" % I64, "i:-%d" % (I64 + 1)])
    if kind == "m":
        ks = rng.sample(["x", "y", "中", ""], rng.randint(0, 3))
        return "m:" + ",".join("%s=n:%d" % (hx(k), rng.choice([0, 1, U64])) for k in ks)
    v = rng.choice(kind)
    if rng.random() < 0.15:
        return "m:%s=z" % hx(v)          # externally tagged form {"Variant": null}
    return "s:" + hx(v)


def bad_value(rng, kind):
    pool = ["z", "b:1", "a", "s:" + hx("5"), "f:1/2", "i:-1", "n:%d" % (U64 + 1), "m:", "m:%s=n:1" % hx("k"), "m:%s=s:%s" % (hx("k"), hx("v")), "n:%d" % (U32 + 1), "f:5/1",
            "s:" + hx("Custom"), "s:" + hx("direct"), "m:%s=n:1" % hx("Direct"), "m:%s=z,%s=z" % (hx("Direct"), hx("WarmUp")), "n:%d" % (I64 + 1), "i:-%d" % (I64 + 2)]
    return rng.choice(pool)


def doc(rng, fam):
    sch = SCHEMAS[fam]
    ents = []
    for (k, kind) in sch:
        if rng.random() < 0.3:
            continue                      # dropped field → default
        ents.append((k, good_value(rng, kind)))
    x = rng.random()
    if x < 0.25 and ents:                 # one wrongly typed / out-of-range value
        j = rng.randrange(len(ents))
        kind = dict(sch)[ents[j][0]]
        ents[j] = (ents[j][0], bad_value(rng, kind))
    elif x < 0.35 and ents:               # duplicated key
        j = rng.randrange(len(ents))
        ents.insert(rng.randrange(len(ents) + 1), (ents[j][0], good_value(rng, dict(sch)[ents[j][0]])))
    if rng.random() < 0.3:                # unknown keys
        ents.insert(rng.randrange(len(ents) + 1), (rng.choice(["extra", "Id", "thresholds", "resource_name"]), rng.choice(["n:1", "z", "a", "s:" + hx("x"), "m:"])))
    if rng.random() < 0.6:
        rng.shuffle(ents)
    return ";".join("%s~%s" % e for e in ents) or "-"


ITEM_NAMES = NAMES + ["a||b", "|lead", "trail|", " | ", " nbsp", "x ", "\nline"]


def item_line(rng):
    cs = [0, 1, 9, 10, 25, 99, 100, 12345, U32, U32 + 1, U64]
    return "item res=%s rtype=%d ts=%d pass=%d block=%d complete=%d error=%d rt=%d occ=%d conc=%d" % (
        hx(rng.choice(ITEM_NAMES)), rng.choice([0, 1, 2, 3, 4, 5, 6, 6, 7, 255]), rng.choice([0, 999, 1000, 1564382218000, 1564382218123, 1700003599999, 86399999, 86400000, 4102444800000, 18446744073709]),
        rng.choice(cs), rng.choice(cs), rng.choice(cs), rng.choice(cs), rng.choice(cs), rng.choice(cs), rng.choice([0, 1, 2, 77, U32]))


def raw_line(rng):
    fields = [str(rng.choice([0, 1564382218000, U64])), "14:36:58", rng.choice(["/foo/*", "a b", " x ", "", "名"])]
    nums = ["0", "4", "007", "+5", "+", "-3", "", " 4", "4 ", "٣", "1e3", "4.0", str(U64), str(U64 + 1), "18446744073709551616000", "x"]
    n = rng.choice([0, 3, 5, 5, 5, 6, 7, 8, 9, 10])
    for i in range(n):
        if rng.random() < 0.75:
            fields.append(str(rng.choice([0, 1, 25, 300, U32, U64])))
        else:
            fields.append(rng.choice(nums))
    if len(fields) >= 10 and rng.random() < 0.5:
        fields[9] = rng.choice(["2", str(U32), str(U32 + 1), "+7"])
    if len(fields) >= 11 and rng.random() < 0.7:
        fields[10] = rng.choice(["0", "1", "6", "7", "255", "256", "+3", "03"])
    line = "|".join(fields)
    x = rng.random()
    if x < 0.25:
        line = line[:rng.randrange(len(line) + 1)]           # torn tail
    elif x < 0.3:
        line = ""
    return "line raw=%s" % hx(line)


def gen(rng, tier):
    cases = []
    n = 150 if tier == "quick" else 3000
    for _ in range(n):
        ops = []
        for _ in range(rng.randint(6, 14)):
            x = rng.random()
            if x < 0.3:
                ops.append(rule_line(rng))
            elif x < 0.6:
                fam = rng.choice(list(SCHEMAS))
                ops.append("parse fam=%s docs=%s" % (fam, "|".join(doc(rng, fam) for _ in range(rng.choice([1, 1, 1, 2, 3])))))
            elif x < 0.66:
                ops.append(rule_line(rng, "mut") + (" cut=%d" % rng.randrange(400) if rng.random() < 0.6 else " flip=%d" % rng.randrange(3000)))
            elif x < 0.7:
                # long documents with multi-byte names: cut anywhere (mostly beyond the first few hundred bytes), or a flipped bit
                ops.append(rule_line(rng, "mut", long=True) + (" cut=%d" % rng.choice([rng.randrange(200, 900), rng.randrange(2000)]) if rng.random() < 0.7 else " flip=%d" % rng.randrange(6000)))
                if rng.random() < 0.5:
                    ops.append(rule_line(rng, "rt", long=True))
            elif x < 0.85:
                ops.append(item_line(rng))
            else:
                ops.append(raw_line(rng))
        cases.append(ops)
    return cases
