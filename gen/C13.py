"""C13 generator: slot chains with arbitrary (incl. equal) order values, every kind of check result."""
import itertools

LEVEL = "proof"
MODEL = "lean/Sentinel/SlotChain.lean (Chain.entry / Chain.exit / Chain.build)"
RULE = ("chains of 0..4 slots per kind, order values from a small set with repeats, check results from "
        "{pass, blocked(type i), wait}; build then exit (twice sometimes); a quarter of the cases use one context for several entries "
        "(SlotChain::entry / exit called directly, check results scripted per call) and preparation slots that write a blocked verdict into the context. quick: random; thorough: additionally "
        "every assignment of results to <=4 check slots over 3 order patterns. A case is non-trivial when it has "
        "at least one check slot and one stat slot; distinct = distinct op text.")
NONTRIVIAL_TAGS = ["blocked", "passed"]
ASSUMPTIONS = ["recording slots are the only slots on the custom chain; exit is called at most once per passed entry (a second exit is a harness no-op)"]
TRUSTED = []

RES = ["P", "B0", "B1", "B2", "W5"]


def case(pre, chk, stat):
    ops = ["chain pre=%s chk=%s stat=%s" % (",".join(map(str, pre)), ",".join("%d:%s" % c for c in chk), ",".join(map(str, stat))),
           "build", "exit"]
    return ops


def gen(rng, tier):
    out = []
    n = 400 if tier == "quick" else 4000
    for _ in range(n):
        orders = rng.choice([[1, 2, 3, 4, 5], [1, 1, 2, 2, 3], [7, 7, 7], [0, 1000, 4294967295, 5]])
        pre = [rng.choice(orders) for _ in range(rng.randint(0, 4))]
        chk = [(rng.choice(orders), rng.choice(RES if rng.random() < 0.6 else ["P", "W9"])) for _ in range(rng.randint(0, 4))]
        stat = [rng.choice(orders) for _ in range(rng.randint(0, 4))]
        c = case(pre, chk, stat)
        if rng.random() < 0.2:
            c.append("exit")
        out.append(c)
    # a context used for several entries (SlotChain::entry / exit called directly) and preparation slots that write a verdict
    # into the context: every entry is decided by its own check slots only (seed C13-d)
    for _ in range(n // 3):
        orders = rng.choice([[1, 2, 3, 4, 5], [1, 1, 2, 2, 3], [7, 7, 7]])
        pre = ["%d%s" % (rng.choice(orders), ":D%d" % rng.randint(0, 2) if rng.random() < 0.35 else "") for _ in range(rng.randint(0, 3))]
        k = rng.randint(1, 3)
        chk = ["%d:%s" % (rng.choice(orders), "/".join(rng.choice(RES if rng.random() < 0.5 else ["P", "P", "W9"]) for _ in range(k))) for _ in range(rng.randint(0, 3))]
        stat = [rng.choice(orders) for _ in range(rng.randint(1, 3))]
        c = ["chain pre=%s chk=%s stat=%s" % (",".join(pre), ",".join(chk), ",".join(map(str, stat)))]
        if rng.random() < 0.6:
            for _ in range(k + rng.randint(0, 1)):
                c.append("rentry")
                if rng.random() < 0.85:
                    c.append("rexit")
        else:
            for _ in range(k):
                c += ["build", "exit"]
        out.append(c)
    if tier == "thorough":
        for k in range(0, 5):
            for ords in ([3, 1, 2, 1][:k], [5, 5, 5, 5][:k], [4, 3, 2, 1][:k]):
                for rs in itertools.product(RES, repeat=k):
                    out.append(case([2, 1], list(zip(ords, rs)), [3, 3, 1]))
    return out
