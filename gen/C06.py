"""C06 generator: hotspot QPS reject rules (token bucket per parameter value)."""
LEVEL = "proof"
MODEL = "lean/Sentinel/Hotspot.lean (Lru, HsCtrl.checkReject, extractArgs) + World.hsSlot"
RULE = ("one hotspot QPS/reject rule (sometimes two) per resource: q 0..6, burst 0..4, duration 1..3 s, per-value overrides, batch 1..4, 1-4 distinct values "
        "given positionally (index 0, 1, -1) or by key, gaps from {0,1,d*1000-1,d*1000,d*1000+1,several durations,uniform}. Non-trivial: at least one "
        "hotspot rejection and one refill; distinct = distinct op text.")
NONTRIVIAL_TAGS = ["hotspot-block"]
ASSUMPTIONS = ["entries are requested sequentially (every compare-exchange succeeds)", "distinct values stay within the rule's capacity (cross-talk Spec); a separate small-capacity stream exercises eviction for correspondence only"]
TRUSTED = ["lru crate semantics as modelled by Lru (recency list); checked by correspondence on the small-capacity stream"]
KEEP_PREFIX = 1
VALS = ["a", "b", "c", "d"]


def hs_rule(rid, metric, strat, idx, key, thr, maxq, burst, dur, cap, spec):
    return "%s;%s;%s;%d;%s;%d;%d;%d;%d;%d;%s" % (rid, metric, strat, idx, key, thr, maxq, burst, dur, cap, "|".join("%s=%d" % kv for kv in spec))


def gen_case(rng):
    ops = ["clock"]
    d = rng.choice([1, 1, 2, 3])
    keyed = rng.random() < 0.3
    idx = rng.choice([0, 0, 1, -1])
    nvals = rng.randint(1, 4)
    vals = VALS[:nvals]
    cap = 0 if rng.random() < 0.85 else rng.choice([1, 2, 3])
    spec = []
    if rng.random() < 0.4:
        for v in rng.sample(vals, rng.randint(1, len(vals))):
            spec.append((v, rng.choice([0, 1, 2, 7])))
    rules = [hs_rule("h", "q", "r", 0 if keyed else idx, "k" if keyed else "", rng.randint(0, 6), 0, rng.randint(0, 4), d, cap, spec)]
    if rng.random() < 0.15:
        rules.append(hs_rule("g", "q", "r", 0, "", rng.randint(1, 6), 0, rng.randint(0, 2), rng.choice([1, 2]), 0, []))
    ops.append("hs.load res=r rules=" + ",".join(rules))
    eid = 0
    for _ in range(rng.randint(6, 45)):
        g = rng.choice(["0", "0", "0", "1", "d-1", "d", "d+1", "2d", "rand", "rand"])
        dt = {"0": 0, "1": 1, "d-1": d * 1000 - 1, "d": d * 1000, "d+1": d * 1000 + 1, "2d": 2 * d * 1000 + 7, "rand": rng.randint(0, 2 * d * 1000)}[g]
        if dt:
            ops.append("adv ms=%d" % dt)
        eid += 1
        v = rng.choice(vals)
        other = rng.choice(VALS)
        if keyed:
            extra = "atts=k:%s" % v if rng.random() < 0.9 else "atts=z:%s" % v
            if rng.random() < 0.3:
                extra += " args=%s" % other
        else:
            if idx == 0:
                a = [v, other]
            elif idx == 1:
                a = [other, v]
            else:
                a = [other, other, v]
            if rng.random() < 0.08:
                a = a[:1] if idx != 0 else []
            extra = "args=%s" % ",".join(a)
        ops.append("build e=%d res=r batch=%d dir=out %s" % (eid, rng.choice([1, 1, 1, 2, 3, 4]), extra))
        if rng.random() < 0.3:
            ops.append("exit e=%d" % eid)
    return ops


def gen(rng, tier):
    n = 500 if tier == "quick" else 25000
    return [gen_case(rng) for _ in range(n)]
