"""C06 generator: hotspot QPS reject rules (token bucket per parameter value)."""
import importlib.util as _ilu, os as _os
_ms = _ilu.spec_from_file_location("worldmix", _os.path.join(_os.path.dirname(__file__), "worldmix.py")); MIX = _ilu.module_from_spec(_ms); _ms.loader.exec_module(MIX)
LEVEL = "proof"
MODEL = "lean/Sentinel/Hotspot.lean (Lru, HsCtrl.checkReject, extractArgs) + World.hsSlot"
RULE = ("one hotspot QPS/reject rule (sometimes two) per resource: q 0..6, burst 0..4, duration 1..3 s, per-value overrides, batch 1..4, 1-4 distinct values "
        "given positionally (index 0, 1, -1) or by key, gaps from {0,1,d*1000-1,d*1000,d*1000+1,several durations,uniform}. Non-trivial: at least one "
        "hotspot rejection and one refill; distinct = distinct op text.")
NONTRIVIAL_TAGS = ["hotspot-block"]
ASSUMPTIONS = ["entries are requested sequentially (every compare-exchange succeeds)", "distinct values stay within the rule's capacity (cross-talk Spec); a separate small-capacity stream exercises eviction for correspondence only"]
TRUSTED = ["lru crate semantics as modelled by Lru (recency list); checked by correspondence on the small-capacity stream"]
KEEP_PREFIX = 1
VALS = ["a", "b", "c", "d"]


def hs_rule(rid, metric, strat, idx, key, thr, maxq, burst, dur, cap, spec):
    return "%s;%s;%s;%d;%s;%d;%d;%d;%d;%d;%s" % (rid, metric, strat, idx, key, thr, maxq, burst, dur, cap, "|".join("%s=%d" % kv for kv in spec))


def gen_case(rng):
    ops = ["clock"]
    d = rng.choice([1, 1, 2, 3])
    keyed = rng.random() < 0.3
    idx = rng.choice([0, 0, 1, -1])
    nvals = rng.randint(1, 4)
    vals = VALS[:nvals]
    cap = 0 if rng.random() < 0.85 else rng.choice([1, 2, 3])
    spec = []
    if rng.random() < 0.4:
        for v in rng.sample(vals, rng.randint(1, len(vals))):
            spec.append((v, rng.choice([0, 1, 2, 7])))
    rules = [hs_rule("h", "q", "r", 0 if keyed else idx, "k" if keyed else "", rng.randint(0, 6), 0, rng.randint(0, 4), d, cap, spec)]
    if rng.random() < 0.15:
        rules.append(hs_rule("g", "q", "r", 0, "", rng.randint(1, 6), 0, rng.randint(0, 2), rng.choice([1, 2]), 0, []))
    ops.append("hs.load res=r rules=" + ",".join(rules))
    eid = 0
    for _ in range(rng.randint(6, 45)):
        g = rng.choice(["0", "0", "0", "1", "d-1", "d", "d+1", "2d", "rand", "rand"])
        dt = {"0": 0, "1": 1, "d-1": d * 1000 - 1, "d": d * 1000, "d+1": d * 1000 + 1, "2d": 2 * d * 1000 + 7, "rand": rng.randint(0, 2 * d * 1000)}[g]
        if dt:
            ops.append("adv ms=%d" % dt)
        eid += 1
        v = rng.choice(vals)
        other = rng.choice(VALS)
        if keyed:
            extra = "atts=k:%s" % v if rng.random() < 0.9 else "atts=z:%s" % v
            if rng.random() < 0.3:
                extra += " args=%s" % other
        else:
            if idx == 0:
                a = [v, other]
            elif idx == 1:
                a = [other, v]
            else:
                a = [other, other, v]
            if rng.random() < 0.08:
                a = a[:1] if idx != 0 else []
            extra = "args=%s" % ",".join(a)
        ops.append("build e=%d res=r batch=%d dir=out %s" % (eid, rng.choice([1, 1, 1, 2, 3, 4]), extra))
        if rng.random() < 0.3:
            ops.append("exit e=%d%s" % (eid, " err=1" if rng.random() < 0.25 else ""))   # a traced error must not change admission/accounting
    return ops


def gen_reload_case(rng):
    """two (or three) rules of one resource that can take over each other's statistics (same strategy, capacity, duration, metric),
    reloaded once or twice with every rule changed; the rules then see the same strings, or one value each under capacity 1
    (seed C06-d: controllers sharing one bucket table after a reload)"""
    ops = ["clock"]
    d = rng.choice([1, 2, 3])
    cap = rng.choice([0, 0, 1, 2])
    nr = rng.choice([2, 2, 3])
    kinds = [("h", 0, ""), ("g", 0, "k"), ("f", 1, "")][:nr]
    thr = [rng.randint(1, 4) for _ in kinds]
    burst = [rng.randint(0, 1) for _ in kinds]
    gen_no = [0]

    over = [dict() for _ in kinds]            # per-value overrides of each rule

    def load():
        gen_no[0] += 1
        rules = [hs_rule("%s%d" % (rid, gen_no[0]), "q", "r", idx, key, thr[j], 0, burst[j], d, cap, sorted(over[j].items())) for j, (rid, idx, key) in enumerate(kinds)]
        if rng.random() < 0.5:
            rules.reverse()
        ops.append("hs.load res=r rules=" + ",".join(rules))

    load()
    eid = 0
    reloads = sorted(rng.sample(range(2, 14), rng.choice([1, 1, 2])))
    same_string = rng.random() < 0.5
    for k in range(rng.randint(12, 30)):
        if k in reloads:
            only_overrides = rng.random() < 0.35      # a reload in which nothing but per-value overrides changes (seed C06-e)
            for j in range(len(kinds)):
                if only_overrides:
                    v = rng.choice(["a", "b"])
                    if v in over[j] and rng.random() < 0.4:
                        del over[j][v]
                    else:
                        over[j][v] = over[j].get(v, 0) + rng.choice([1, 2, 5])
                elif rng.random() < 0.85:
                    thr[j] += rng.choice([1, 2])
                else:
                    burst[j] += 1
            load()
        g = rng.choice(["0", "0", "0", "1", "d-1", "d+1", "rand"])
        dt = {"0": 0, "1": 1, "d-1": d * 1000 - 1, "d+1": d * 1000 + 1, "rand": rng.randint(0, d * 1000)}[g]
        if dt:
            ops.append("adv ms=%d" % dt)
        eid += 1
        if same_string:
            v = rng.choice(["a", "a", "b"])
            a0, a1, kv = v, v, v
        else:
            a0, a1, kv = "a", "c", "b"            # one distinct value per rule
        which = rng.choice(["all", "all", "pos", "key"])
        extra = "args=%s,%s" % (a0, a1) if which in ("all", "pos") else "args="
        if which in ("all", "key"):
            extra += " atts=k:%s" % kv
        ops.append("build e=%d res=r batch=%d dir=out %s" % (eid, rng.choice([1, 1, 1, 2]), extra))
        if rng.random() < 0.3:
            ops.append("exit e=%d%s" % (eid, " err=1" if rng.random() < 0.25 else ""))   # a traced error must not change admission/accounting
    return ops


def lru_exhaustive_cases(rng, tier):
    """small capacities, exhaustively: every argument sequence of length cap+3 over cap+1 values inside one window (cap 1, 2; a
    sample for cap 3), each on its own resource: the model's two LRU tables and the implementation's must evict the same victims
    and give the same decisions (the eviction paths are outside the property's capacity hypothesis: correspondence only)"""
    import itertools
    cases = []
    for cap in (1, 2, 3):
        vals = ["v%d" % i for i in range(cap + 1)]
        seqs = list(itertools.product(vals, repeat=cap + 3))
        if cap == 3:
            seqs = rng.sample(seqs, 150 if tier == "quick" else 1500)
        ops = ["clock"]
        for k in range(len(seqs)):
            ops.append("hs.load res=l%d rules=%s" % (k, hs_rule("h", "q", "r", 0, "", 2, 0, 1, 10, cap, [])))
        eid = 0
        for k, seq in enumerate(seqs):
            for v in seq:
                eid += 1
                ops.append("build e=%d res=l%d batch=1 dir=out args=%s" % (eid, k, v))
                ops.append("exit e=%d" % eid)
        cases.append(ops)
    return cases


def many_values_case(rng):
    """more distinct parameter values than the library's default table size (20000) under a rule whose configured capacity is
    larger still: no value's bucket may be evicted - the first value, drained at the start, is still drained at the end (seed C06-f)"""
    n = 20000 + rng.randint(2, 30)
    ops = ["clock", "hs.load res=r rules=%s" % hs_rule("h", "q", "r", 0, "", 1, 0, 0, 120, n + rng.randint(1, 40), [])]
    eid = 0
    for v in ["hot", "hot"] + ["v%d" % i for i in range(n)] + ["hot", "v0", "v1"]:
        eid += 1
        ops.append("build e=%d res=r batch=1 dir=out args=%s" % (eid, v))
    return ops


def gen_own(rng, tier):
    n = 500 if tier == "quick" else 25000
    return [gen_case(rng) if i % 6 else gen_reload_case(rng) for i in range(n)]


def gen(rng, tier):
    """the property's own streams, with every 8th case taken from the shared mixed-world stream (gen/worldmix.py)"""
    cases = gen_own(rng, tier)
    return [many_values_case(rng)] + lru_exhaustive_cases(rng, tier) + [c if i % 8 != 7 else MIX.gen_mix(rng) for i, c in enumerate(cases)]
