"""C14 generator: 2-3 real threads, each 1-2 build/exit pairs on one resource, under generated schedules."""
import os, sys
sys.path.insert(0, os.path.dirname(__file__))
from conc_common import sched, fmt

LEVEL = "proof"
MODEL = "lean/Sentinel/ConcModels.lean (concOf, recorded, counterOf, getOrInsert) — schedule-independent predictions; Spec on the scheduled execution"
RULE = ("one child process per case; 2-3 threads, each 1-2 build/exit pairs (batch 1-3, inbound/outbound, some entries left open) on a fresh resource or one whose node exists, with the clock fixed "
        "or with a clock step (up to two buckets) inside a thread's program; run on the real code under the deterministic scheduler of the sync hook (scheduling points: every lock "
        "acquisition/release and every atomic operation on the instrumented counters) with generated schedules: sequential, 1-4 preemptions at random points, round robin of period 1-6, "
        "biased random, uniform random; thorough adds every single-preemption schedule of the 2-thread / 1-pair scenario. Observed: the node each entry was accounted on, and after the run "
        "the node's in-flight count and totals. Non-trivial: a run in which a thread had to wait for a lock, or with 3 threads; distinct = distinct op text.")
NONTRIVIAL_TAGS = ["lock-contention", "threads:3"]
ASSUMPTIONS = ["interleavings are explored at the granularity of the instrumented operations (locks and the wrapped atomics); weak-memory effects are outside the model"]
TRUSTED = ["sentinel_core::verif_sync (lock/atomic wrappers and scheduler, hook)"]
KEEP_PREFIX = 1


def prog(rng, t, res, with_adv):
    ops = []
    open_ = 0
    for _ in range(rng.randint(1, 2)):
        ops.append("t%d build res=%s dir=%s batch=%d" % (t, res, rng.choice(["in", "out"]), rng.choice([1, 1, 2, 3])))
        open_ += 1
        if with_adv and rng.random() < 0.4:
            ops.append("t%d adv ms=%d" % (t, rng.choice([1, 250, 500, 600, 1000])))
        if rng.random() < 0.85:
            ops.append("t%d exit" % t)
            open_ -= 1
    return ops


def case(rng, n=None, choices=None, with_adv=None, fresh=None):
    n = n or rng.choice([2, 2, 3])
    with_adv = rng.random() < 0.3 if with_adv is None else with_adv
    fresh = rng.random() < 0.6 if fresh is None else fresh
    ops = ["clock"]
    if not fresh:
        ops.append("touch res=a")
    x = rng.random()
    if x < 0.12:
        # queued (Wait) verdicts and rejections on the shared node (seed C14-e): a throttling / isolation rule on the resource
        ops.append("m fam=flow op=loadall rules=x1@a@h4")
    elif x < 0.2:
        ops.append("m fam=iso op=loadall rules=x1@a@c1")
    for t in range(n):
        ops += prog(rng, t, "a", with_adv)
    ops.append(fmt(choices if choices is not None else sched(rng, n)))
    ops.append("node res=a")
    return ops


def gen(rng, tier):
    cases = [case(rng) for _ in range(400 if tier == "quick" else 6000)]
    # every single preemption of the smallest scenario (two threads, one pair each, fresh resource)
    base = ["clock", "t0 build res=a dir=in batch=1", "t0 exit", "t1 build res=a dir=in batch=1", "t1 exit"]
    step = 3 if tier == "quick" else 1
    for pos in range(0, 130, step):
        c = [0] * (pos + 1)
        c[pos] = 1
        cases.append(base + [fmt(c), "node res=a"])
    return cases
