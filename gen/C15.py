"""C15 generator: 2-3 real threads running rule-management calls and entries concurrently under generated schedules."""
import os, sys
sys.path.insert(0, os.path.dirname(__file__))
from conc_common import sched, fmt

LEVEL = "proof"
MODEL = "lean/Sentinel/Conc.lean (Cfg.step, Ok/okB) instantiated by the generated lean/SentinelProofs/Generated/LockTraces.lean; Spec on scheduled executions of the real code"
RULE = ("translator step before the Lean build: every manager function of every family (load-all changed / unchanged, load-for-resource changed / unchanged / empty / only-invalid, append new / "
        "invalid / existing, clear, clear-resource, get, get-for-resource) and the entry / exit paths (pass, block, error completions that trip a breaker, probe after the retry time, probe "
        "failure, recovery; a listener that calls get_rules / get_breakers_of_resource / get_rules_of_resource from every notification incl. the drop notification) are executed in recording "
        "mode; their acquire/release sequences become the generated Lean instance. Exploration: one child process per case, 2-3 threads x 1-3 operations drawn from the same operations within "
        "one family or across families plus entries on an affected resource, generated schedules (sequential, few preemptions, round robin, random); thorough adds all single-preemption "
        "schedules for selected pairs. The scheduler reports 'all unfinished threads blocked'; afterwards a health probe of all five managers. Non-trivial: a run in which a thread had to wait "
        "for a lock; distinct = distinct op text.")
NONTRIVIAL_TAGS = ["lock-contention"]
ASSUMPTIONS = ["RwLock acquisitions are ranked like exclusive ones (a reader may in fact share the lock: the ranking criterion does not depend on the mode)",
               "the kernel-checked instance covers the code paths the recording executed (listed in .work/C15_traces.json and in the generated file)"]
TRUSTED = ["sentinel_core::verif_sync (lock wrappers and scheduler, hook)", "gen/C15_pre_lean.py (trace extraction)"]
KEEP_PREFIX = 1

POOL = {"flow": ["t3", "t5", "w9", "xneg"], "iso": ["c1", "c2", "xzero"], "hs": ["q2", "q4", "c3", "xdur"], "br": ["e2", "r5", "s5", "e2w", "xivl"], "sys": ["q5", "c3", "l5", "xneg"]}


def mgr_op(rng, fam, nid):
    keys = POOL[fam]
    def rule(res=None):
        nid[0] += 1
        return "%s%d@%s@%s" % ("abcdefgh"[nid[0] % 8], nid[0], res or rng.choice(["r1", "r2"]), rng.choice(keys))
    x = rng.random()
    if x < 0.25:
        return "m fam=%s op=loadall rules=%s" % (fam, ",".join(rule() for _ in range(rng.randint(0, 3))))
    if x < 0.45 and fam != "sys":
        r = rng.choice(["r1", "r2"])
        return "m fam=%s op=loadres res=%s rules=%s" % (fam, r, ",".join(rule(r) for _ in range(rng.randint(0, 2))))
    if x < 0.7:
        return "m fam=%s op=append rule=%s" % (fam, rule())
    if x < 0.78:
        return "m fam=%s op=clear" % fam
    if x < 0.86 and fam != "sys":
        return "m fam=%s op=clearres res=%s" % (fam, rng.choice(["r1", "r2"]))
    if x < 0.93 or fam == "sys":
        return "m fam=%s op=get" % fam
    return "m fam=%s op=getres res=%s" % (fam, rng.choice(["r1", "r2"]))


def case(rng, tier):
    nid = [0]
    ops = ["clock"]
    if rng.random() < 0.6:
        ops.append("listener callback=%d" % rng.choice([0, 1, 1]))
    same_family = rng.random() < 0.6
    fams = [rng.choice(list(POOL))] if same_family else list(POOL)
    if "br" not in fams and rng.random() < 0.3:
        fams.append("br")
    for f in set(fams) | ({"br"} if rng.random() < 0.5 else set()):
        if rng.random() < 0.8:
            ops.append("m fam=%s op=loadall rules=%s" % (f, ",".join("s%d@r1@%s" % (i, k) for i, k in enumerate(POOL[f][:2]))))
    n = rng.choice([2, 2, 2, 3])
    for t in range(n):
        k = rng.randint(1, 3)
        open_ = 0
        for _ in range(k):
            x = rng.random()
            if x < 0.65:
                ops.append("t%d %s" % (t, mgr_op(rng, rng.choice(fams), nid)))
            elif x < 0.85 or not open_:
                ops.append("t%d build res=%s dir=%s" % (t, rng.choice(["r1", "r1", "r2"]), rng.choice(["in", "out"])))
                open_ += 1
            else:
                ops.append("t%d exit err=%d" % (t, rng.choice([0, 1, 1])))
                open_ -= 1
        while open_ and rng.random() < 0.7:
            ops.append("t%d exit err=%d" % (t, rng.choice([0, 1])))
            open_ -= 1
    ops.append(fmt(sched(rng, n)))
    ops.append("probe")
    return ops


def directed_from_inversions(tier):
    """the translator step found operations that take two locks in opposite orders: run exactly those against each other,
    with a preemption at every scheduling point of the first thread"""
    import json
    path = os.path.join(os.path.dirname(os.path.dirname(os.path.abspath(__file__))), ".work", "C15_traces.json")
    if not os.path.exists(path):
        return []
    info = json.load(open(path))
    cases = []
    for inv in info.get("inversions", [])[:6]:
        op1, op2 = inv["ops"]
        if "unfinished" in op1 or "unfinished" in op2:
            continue
        for pos in range(0, 120 if tier == "quick" else 400):
            c = [0] * (pos + 1); c[pos] = 1
            cases.append(list(info.get("setup", ["clock"])) + ["t0 " + op1, "t1 " + op2, fmt(c), "probe"])
    return cases


def directed_update_vs_clear(rng, tier):
    """every updating call of every family against every clearing call of the same family on the same resource, with a
    preemption at every scheduling point of the updating thread: an update made of two critical
    sections must not rely, in the second, on what the first put into the maps (seed C15-e: a concurrent clear in the gap made
    the append panic with the map's lock held)"""
    cases = []
    fams = [f for f in POOL if f != "sys"] + ["sys"]
    stride = 1            # these calls have some fifteen scheduling points in all: every one of them is tried
    for fam in fams:
        keys = POOL[fam]
        updates = ["m fam=%s op=append rule=u1@r1@%s" % (fam, keys[0]),
                   "m fam=%s op=loadall rules=u1@r1@%s,u2@r2@%s" % (fam, keys[0], keys[1 % len(keys)])]
        clears = ["m fam=%s op=clear" % fam, "m fam=%s op=loadall rules=" % fam]
        if fam != "sys":
            updates.append("m fam=%s op=loadres res=r1 rules=u1@r1@%s" % (fam, keys[0]))
            clears += ["m fam=%s op=clearres res=r1" % fam, "m fam=%s op=loadres res=r1 rules=" % fam]
        for u in updates:
            for c in clears:
                if tier == "quick" and rng.random() < 0.5:
                    continue
                setup = ["clock"] + (["m fam=%s op=loadall rules=s0@r1@%s" % (fam, keys[-1])] if rng.random() < 0.5 else [])
                for pos in range(0, 24 if tier == "quick" else 40, stride):
                    ch = [0] * (pos + 1); ch[pos] = 1
                    cases.append(setup + ["t0 " + u, "t1 " + c, fmt(ch), "probe"])
    return cases


def gen(rng, tier):
    cases = directed_from_inversions(tier) + directed_update_vs_clear(rng, tier)
    cases += [case(rng, tier) for _ in range(500 if tier == "quick" else 8000)]
    # directed: a breaker reload while a listener calls back, against a concurrent entry
    for cb in (0, 1):
        for pos in range(0, 40 if tier == "quick" else 160, 2 if tier == "quick" else 1):
            c = [0] * (pos + 1); c[pos] = 1
            cases.append(["clock", "listener callback=%d" % cb, "m fam=br op=loadall rules=s0@r1@e2,s1@r1@r5",
                          "t0 m fam=br op=loadall rules=n1@r1@s5", "t1 build res=r1 dir=in", "t1 exit err=1", fmt(c), "probe"])
            # only the threshold changes: the old breaker's statistic is taken over and the old breaker retired
            cases.append(["clock", "listener callback=%d" % cb, "m fam=br op=loadall rules=s0@r1@e2,s1@r1@r5",
                          "t0 m fam=br op=loadall rules=s0@r1@e3,s1@r1@r5", "t1 build res=r1 dir=in", "t1 exit err=1", fmt(c), "probe"])
    return cases
