"""Mixed-world stream shared by the entry-level properties (C01, C03-C09, C11): every rule family on 2-4 resources,
one or two families per resource, system rules sometimes, inbound/outbound, batches, arguments and attachments,
exits in any order with and without a traced error, reloads (equal / changed), node and breaker-state reads.
The world driver evaluates every Spec on every trace, so a change in shared glue (slot chain, stat slots, entry,
context, hotspot/flow slot) that shows only through another family's verdicts is seen by each of these checks."""


def fam_rules(rng, fam, gen_no):
    g = gen_no
    if fam == "flow":
        return "flow", ["a%d:%s:%d" % (g, rng.choice(["1", "2", "3", "5/2"]), rng.choice([0, 1000, 2000, 1500]))]
    if fam == "flow2":
        ivl = rng.choice([0, 1500, 2000])
        return "flow", ["a%d:%s:%d" % (g, rng.choice(["2", "3"]), ivl), "b%d:%s:%d" % (g, rng.choice(["4", "5"]), rng.choice([ivl, 700]))]
    if fam == "flowq":
        return "flow", ["a%d:%s:1000:d:t:0:0:%d" % (g, rng.choice(["2", "5", "10"]), rng.choice([0, 300, 1000, 2000]))]
    if fam == "warm":
        return "flow", ["a%d:%s:0:w:r:%d:%d:0" % (g, rng.choice(["30", "50"]), rng.randint(1, 2), rng.choice([0, 3]))]
    if fam == "iso":
        return "iso", ["i%d:%d" % (g, rng.randint(1, 4))]
    if fam == "hsq":
        idx = rng.choice([0, 0, 1, -1])
        key = "" if idx > 0 else rng.choice(["", "", "k"])        # a positive index together with a key is an invalid rule (C10/C12)
        return "hs", ["h%d;q;r;%d;%s;%d;0;%d;%d;0;%s" % (g, idx, key, rng.randint(0, 3), rng.randint(0, 1), rng.choice([1, 2]), rng.choice(["", "a=1", "b=3"]))]
    if fam == "hst":
        return "hs", ["h%d;q;t;0;;%d;%d;0;1;0;" % (g, rng.randint(1, 5), rng.choice([0, 300, 1000, 2000]))]
    if fam == "hsc":
        return "hs", ["h%d;c;r;0;%s;%d;0;0;0;0;%s" % (g, rng.choice(["", "k"]), rng.randint(1, 3), rng.choice(["", "a=2"]))]
    if fam == "br":
        st = rng.choice(["c", "r", "s"])
        thr = rng.choice(["1", "2"]) if st == "c" else rng.choice(["1/2", "1"])
        return "br", ["b%d;%s;%d;%d;%d;%d;50;%s" % (g, st, rng.choice([300, 500, 1500]), rng.randint(1, 2), rng.choice([1000, 2000]), rng.choice([1, 2]), thr)]
    raise ValueError(fam)


FAMS = ["flow", "flow2", "flowq", "warm", "iso", "hsq", "hst", "hsc", "br"]


def gen_mix(rng):
    ops = ["clock"]
    nres = rng.randint(2, 4)
    res = ["r%d" % i for i in range(nres)]
    now = rng.choice([0, 250, 499, 500, 777])
    if now:
        ops.append("adv ms=%d" % now)
    loaded = {}      # res -> list of (prefix, fam)
    gen_no = [0]

    def load(r, fam):
        gen_no[0] += 1
        pre, rules = fam_rules(rng, fam, gen_no[0])
        ops.append("%s.load res=%s rules=%s" % (pre, r, ",".join(rules)))

    for r in res:
        fams = rng.sample(FAMS, rng.choice([0, 1, 1, 1, 2]))
        # two families of one manager on one resource would replace each other
        seen, keep = set(), []
        for f in fams:
            pre = {"flow": "flow", "flow2": "flow", "flowq": "flow", "warm": "flow", "iso": "iso", "hsq": "hs", "hst": "hs", "hsc": "hs", "br": "br"}[f]
            if pre not in seen:
                seen.add(pre); keep.append(f)
        loaded[r] = keep
        for f in keep:
            load(r, f)
    if rng.random() < 0.2:
        m = rng.choice(["conc", "qps", "avgrt"])
        thr = {"conc": ["1", "2", "3", "5/2"], "qps": ["1", "2", "3", "7/2"], "avgrt": ["1", "50", "200"]}[m]
        ops.append("sys.load rules=s0:%s:%s:%s" % (m, rng.choice(["no", "bbr"]), rng.choice(thr)))
    eid = 0
    open_ = []
    for _ in range(rng.randint(8, 45)):
        d = rng.choice([0, 0, 0, 1, 3, 60, 300, 499, 500, 501, 999, 1000, 1001, rng.randint(0, 2500)])
        if rng.random() < 0.03:
            d = rng.choice([9999, 10001, 60001, 125000])
        if d:
            ops.append("adv ms=%d" % d)
        r = rng.choice(res)
        x = rng.random()
        if x < 0.06 and [f for f in loaded[r] if f != "iso"]:
            load(r, rng.choice([f for f in loaded[r] if f != "iso"]))   # reload of one family (isolation rules are stateless; their reloads are C10's)
        elif x < 0.62 or not open_:
            eid += 1
            extra = ""
            if rng.random() < 0.7:
                extra += " args=%s" % ",".join(rng.choice(["a", "a", "b", "c"]) for _ in range(rng.choice([1, 1, 2, 3])))
            if rng.random() < 0.3:
                extra += " atts=k:%s" % rng.choice(["a", "b"])
            if rng.random() < 0.3:
                extra += " rtype=%s" % rng.choice(["web", "rpc", "api", "db", "cache", "mq", "common"])   # classification only: never a verdict or a count
            ops.append("build e=%d res=%s batch=%d dir=%s%s" % (eid, r, rng.choice([1, 1, 1, 2, 3]), rng.choice(["in", "in", "out"]), extra))
            open_.append((eid, r))
        else:
            e, r = open_.pop(rng.randrange(len(open_)))
            ops.append("exit e=%d%s" % (e, " err=1" if rng.random() < 0.35 else ""))
        if "br" in loaded.get(r, []) and rng.random() < 0.5:
            ops.append("br.state res=%s" % r)
        if rng.random() < 0.4:
            ops.append("node res=%s" % r)
        if rng.random() < 0.15:
            ops.append("node res=__inbound__")
    for r in res:
        ops.append("node res=%s" % r)
    ops.append("node res=__inbound__")
    return ops
