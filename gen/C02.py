"""C02 generator: ring geometries, reader geometries (valid and each refusal reason), timed events of all kinds,
reads at/after the last write. Times sit on bucket edges, interval multiples, and after long idle gaps."""
LEVEL = "proof"
MODEL = "lean/Sentinel/LeapArray.lean (ringWrite, BRing.sumWithTime, qpsWithTime, avgRt, minRt, checkReuse, leapNewOk)"
RULE = ("inner arrays n in 1..20, bucket length from {1,2,3,7,10,100,500,1000}; readers: all divisor-based valid ones plus "
        "invalid ones for each refusal reason; events of all five kinds with counts 0..50 and concurrency updates; time moves from "
        "{0,1,L-1,L,L+1,exact multiple of L, interval-1, interval, interval+1, 3 intervals}; reads of every reader at write times and "
        "later. Non-trivial: a read returned a non-zero sum, or excluded an older event, or a slot rolled over; distinct = distinct op text.")
NONTRIVIAL_TAGS = ["read-nonzero", "read-excludes-old", "rollover"]
ASSUMPTIONS = ["timestamps start at 1.7e12 ms (so `end - interval + bucket_len` cannot wrap and stamp 0 means never used)",
               "bucket length >= 1 (LeapArray::new(n, 0) is accepted by the code and divides by zero later; outside the property's quantifier)"]
TRUSTED = ["soft-float F64.roundDiv (Lean) is compared bit-for-bit with Rust's f64 division on every qps/avg read of this run"]
T0 = 1700000000000
KINDS = ["pass", "block", "complete", "error", "rt"]


def divisors(x):
    return [d for d in range(1, x + 1) if x % d == 0]


def gen_case(rng):
    ops = []
    n = rng.choice([1, 2, 3, 4, 5, 8, 10, 20, rng.randint(1, 20)])
    L = rng.choice([1, 2, 3, 7, 10, 100, 500, 1000])
    iv = n * L
    if rng.random() < 0.12:
        # construction that must be refused
        bad_n = rng.choice([0, n + 1 if iv % (n + 1) else 0, rng.randint(2, 21)])
        ops.append("new n=%d iv=%d" % (bad_n, iv))
    ops.append("new n=%d iv=%d" % (n, iv))
    readers = []
    for j in range(rng.randint(1, 3)):
        # valid reader: W = k*L divides iv ; reader bucket = multiple of L dividing W
        ks = divisors(n)
        k = rng.choice(ks)
        W = k * L
        sc = rng.choice(divisors(k))
        rid = "r%d" % j
        if rng.random() < 0.35:
            kind = rng.randint(0, 8)
            if kind == 0:
                sc2, W2 = 0, W
            elif kind == 1:
                sc2, W2 = sc, 0
            elif kind == 2:
                sc2, W2 = k + 1, W if W % (k + 1) else W + 1
            elif kind == 3:
                W2 = rng.choice([W + L, W * 2 + 1, iv + L, iv * 2]); sc2 = 1
            elif kind == 4:
                sc2, W2 = W if L > 1 else k * 2 + 1, W   # reader bucket shorter than inner bucket
            elif kind >= 7 and [d for d in divisors(iv) if d % L and d > L]:
                # a window that divides the array's interval and is longer than a bucket, but is not made of whole buckets
                W2 = rng.choice([d for d in divisors(iv) if d % L and d > L])
                sc2 = rng.choice([c for c in divisors(W2) if (W2 // L) % c == 0] or [1])
            else:
                # anywhere in the decision table of the reuse check: a window that divides the array's interval (or not), cut
                # into any number of buckets; e.g. 1x1250 over 20x500 divides the interval but is not made of whole buckets (seed C02-e)
                W2 = rng.choice(divisors(iv) + [rng.randint(1, 2 * iv), L + 1, iv // 2 + 1])
                sc2 = rng.choice([1, 1, 2, 3, 4, 5, 8] + divisors(W2)[:6])
            ops.append("reader id=x%d sc=%d iv=%d" % (j, sc2, W2))
        ops.append("reader id=%s sc=%d iv=%d" % (rid, sc, W))
        readers.append((rid, sc, W))
    t = T0 + rng.randint(0, 5 * iv)
    if rng.random() < 0.3:
        t -= t % L
    steps = rng.randint(3, 40)
    for _ in range(steps):
        mv = rng.choice(["0", "0", "1", "L-1", "L", "L+1", "edge", "iv-1", "iv", "iv+1", "3iv", "rand", "rand"])
        if mv == "0": d = 0
        elif mv == "1": d = 1
        elif mv == "L-1": d = max(L - 1, 0)
        elif mv == "L": d = L
        elif mv == "L+1": d = L + 1
        elif mv == "edge": d = (L - t % L) % L
        elif mv == "iv-1": d = iv - 1
        elif mv == "iv": d = iv
        elif mv == "iv+1": d = iv + 1
        elif mv == "3iv": d = 3 * iv + rng.randint(0, L)
        else: d = rng.randint(0, 2 * iv)
        t += d
        r = rng.random()
        if r < 0.55:
            k = rng.choice(KINDS)
            c = rng.choice([0, 1, 1, 2, 3, 5, 17, 50]) if k != "rt" else rng.choice([0, 1, 7, 30, 500, 59999, 60000, 70000])
            ops.append("add t=%d k=%s c=%d" % (t, k, c))
            if k == "rt" and rng.random() < 0.7:
                ops.append("add t=%d k=complete c=%d" % (t, rng.randint(1, 3)))
        elif r < 0.62:
            ops.append("conc t=%d c=%d" % (t, rng.randint(0, 9)))
        elif r < 0.67:
            ops.append("count t=%d" % t)
        else:
            rid, sc, W = rng.choice(readers)
            ops.append("read id=%s t=%d" % (rid, t))
    for rid, sc, W in readers:
        ops.append("read id=%s t=%d" % (rid, t + rng.choice([0, 1, L, W - 1 if W > 1 else 0, W, iv, iv + 1])))
    return ops


def gen(rng, tier):
    n = 600 if tier == "quick" else 30000
    return [gen_case(rng) for _ in range(n)]
