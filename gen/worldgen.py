"""shared helpers for the entry-level generators (C01, C04, C05)"""
THR = ["0", "1", "2", "3", "5", "10", "5/2", "21/8", "1/10", "7/2", "1000000"]
IVL_DEFAULT = [0, 1000]
IVL_REUSE = [500, 1500 * 0 + 2000, 2500, 5000, 10000, 1000 * 5 // 5 * 2]   # reuse the 10 s global array
IVL_PRIVATE = [250, 700, 1500, 3000, 20000, 1, 1001, 1200, 1250, 3001, 3333, 7777, 9999, 999]   # incl. odd ones between 1 s and 10 s (seed C01-f)


def gap(rng, L, W):
    mv = rng.choice(["0", "0", "0", "1", "L-1", "L", "L+1", "W-1", "W", "W+1", "2W", "rand", "rand", "edge"])
    return {"0": 0, "1": 1, "L-1": L - 1, "L": L, "L+1": L + 1, "W-1": W - 1, "W": W, "W+1": W + 1, "2W": 2 * W + 3,
            "rand": rng.randint(0, 2 * W), "edge": -1}[mv]


def adv(ops, now, d, L):
    """advance by d ms; d == -1 means: to the next multiple of L. returns new now (ms offset from case start)"""
    if d == -1:
        d = (L - now % L) % L
    if d > 0:
        ops.append("adv ms=%d" % d)
    return now + d
