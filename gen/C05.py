"""C05 generator (isolation part): thresholds 1..5, several rules, batches 1..4, up to 6 simultaneously open entries."""
import importlib.util as _ilu, os as _os
_ms = _ilu.spec_from_file_location("worldmix", _os.path.join(_os.path.dirname(__file__), "worldmix.py")); MIX = _ilu.module_from_spec(_ms); _ms.loader.exec_module(MIX)
LEVEL = "proof"
MODEL = "lean/Sentinel/World.lean (isoCheck, World.build/exit)"
RULE = ("1-3 isolation rules (threshold 1..5) on one or two resources, batches 1..4 (incl. batch > threshold), build/exit interleavings with up to 6 open "
        "entries, exits immediately followed by a request that must fit again. Non-trivial: at least one isolation rejection and a later admission after an exit; "
        "distinct = distinct op text. Hotspot-concurrency half of the property: see DESIGN (built on the hotspot model).")
NONTRIVIAL_TAGS = ["other-block", "hotspot-block"]
ASSUMPTIONS = ["entries are requested one at a time (sequential)", "batch + in-flight stays far below 2^32"]
TRUSTED = []
KEEP_PREFIX = 1


def gen_case(rng):
    ops = ["clock"]
    res = ["r0"] if rng.random() < 0.6 else ["r0", "r1"]
    for r in res:
        n = rng.choice([1, 1, 2, 3])
        ops.append("iso.load res=%s rules=%s" % (r, ",".join("%s:%d" % (chr(105 + j), t) for j, t in enumerate(rng.sample(range(1, 6), n)))))
    eid = 0
    open_ = []
    for _ in range(rng.randint(6, 40)):
        if rng.random() < 0.3:
            ops.append("adv ms=%d" % rng.choice([1, 100, 500, 1200]))
        x = rng.random()
        if (x < 0.62 and len(open_) < 7) or not open_:
            eid += 1
            ops.append("build e=%d res=%s batch=%d dir=%s" % (eid, rng.choice(res), rng.choice([1, 1, 1, 2, 3, 4]), rng.choice(["in", "out"])))
            open_.append(eid)
        else:
            e = open_.pop(rng.randrange(len(open_)))
            ops.append("exit e=%d%s" % (e, " err=1" if rng.random() < 0.25 else ""))   # a traced error must not change admission/accounting
            if rng.random() < 0.7:
                eid += 1
                ops.append("build e=%d res=%s batch=1 dir=out" % (eid, rng.choice(res)))
                open_.append(eid)
        if rng.random() < 0.3:
            ops.append("node res=%s" % rng.choice(res))
    return ops


VALS = ["a", "b", "c", "d"]


def hs_case(rng):
    """hotspot concurrency: per-value caps, overrides, positional / keyed / negative index / missing parameters"""
    ops = ["clock"]
    nrules = rng.choice([1, 1, 1, 2])
    rules = []
    shapes = []
    for j in range(nrules):
        keyed = rng.random() < 0.3
        idx = rng.choice([0, 1, -1, -2])
        thr = rng.randint(1, 4)
        spec = []
        if rng.random() < 0.5:
            for v in rng.sample(VALS, rng.randint(1, 2)):
                spec.append((v, rng.randint(1, 5)))
        cap = 0   # eviction + exit makes the per-value counter wrap (u64 fetch_sub on a re-created entry): outside 'up to capacity distinct values'; tracked under C12
        rules.append("%s;c;r;%d;%s;%d;0;0;0;%d;%s" % ("hg"[j], 0 if keyed else idx, "k" if keyed else "", thr, cap, "|".join("%s=%d" % kv for kv in spec)))
        shapes.append((keyed, idx))
    if nrules == 2 and rng.random() < 0.5:
        # two rules that differ in ONE field only - the key, the index, or an override - are two rules (seed C05-f: rule equality
        # overlooked the key and the second rule was dropped as a duplicate)
        thr = rng.randint(1, 3)
        which = rng.choice(["key", "idx", "spec"])
        a = {"key": (0, "k", ""), "idx": (0, "", ""), "spec": (0, "", "")}[which]
        b = {"key": (0, "z", ""), "idx": (1, "", ""), "spec": (0, "", "a=%d" % (thr + 2))}[which]
        rules = ["h;c;r;%d;%s;%d;0;0;0;0;%s" % (a[0], a[1], thr, a[2]), "g;c;r;%d;%s;%d;0;0;0;0;%s" % (b[0], b[1], thr, b[2])]
        shapes = [(bool(a[1]), a[0]), (bool(b[1]), b[0])]
    ops.append("hs.load res=r rules=" + ",".join(rules))
    eid = 0
    open_ = []
    for _ in range(rng.randint(6, 45)):
        x = rng.random()
        if (x < 0.62 and len(open_) < 8) or not open_:
            eid += 1
            v = rng.choice(VALS[:rng.randint(1, 4)])
            o = rng.choice(VALS)
            extra = []
            r = rng.random()
            if r < 0.08:
                pass                          # no parameters at all
            else:
                extra.append("args=%s" % ",".join(rng.choice([[v], [v, o], [o, v], [o, o, v], []])))
                if any(k for k, _ in shapes) and rng.random() < 0.85:
                    extra.append("atts=%s:%s" % (rng.choice(["k", "k", "k", "z"]), rng.choice([v, o])))
            ops.append("build e=%d res=r batch=%d dir=out %s" % (eid, rng.choice([1, 1, 1, 2]), " ".join(extra)))
            open_.append(eid)
        else:
            e = open_.pop(rng.randrange(len(open_)))
            ops.append("exit e=%d%s" % (e, " err=1" if rng.random() < 0.25 else ""))   # a traced error must not change admission/accounting
        if rng.random() < 0.15:
            ops.append("adv ms=%d" % rng.choice([1, 500, 1500]))
    return ops


def gen_own(rng, tier):
    n = 300 if tier == "quick" else 15000
    return [gen_case(rng) for _ in range(n)] + [hs_case(rng) for _ in range(n)]


def many_values_case(rng):
    """one case with more simultaneously open parameter values than the library's default cache size (20000), under a rule whose
    configured capacity is larger still: every value keeps its own in-flight count (seed C05-e: the capacity was clamped)"""
    n = 20000 + rng.randint(2, 40)
    thr = rng.choice([1, 2])
    ops = ["clock", "hs.load res=r rules=h;c;r;0;;%d;0;0;0;%d;" % (thr, n + rng.randint(1, 50))]
    eid = 0
    for i in range(n):
        eid += 1
        ops.append("build e=%d res=r batch=1 dir=out args=v%d" % (eid, i))
    for i in list(range(3)) + [rng.randrange(n) for _ in range(3)]:
        for _ in range(thr):
            eid += 1
            ops.append("build e=%d res=r batch=1 dir=out args=v%d" % (eid, i))
    return ops


def gen(rng, tier):
    """the property's own streams, with every 8th case taken from the shared mixed-world stream (gen/worldmix.py)"""
    cases = gen_own(rng, tier)
    return [many_values_case(rng)] + [c if i % 8 != 7 else MIX.gen_mix(rng) for i, c in enumerate(cases)]
