"""C05 generator (isolation part): thresholds 1..5, several rules, batches 1..4, up to 6 simultaneously open entries."""
LEVEL = "proof"
MODEL = "lean/Sentinel/World.lean (isoCheck, World.build/exit)"
RULE = ("1-3 isolation rules (threshold 1..5) on one or two resources, batches 1..4 (incl. batch > threshold), build/exit interleavings with up to 6 open "
        "entries, exits immediately followed by a request that must fit again. Non-trivial: at least one isolation rejection and a later admission after an exit; "
        "distinct = distinct op text. Hotspot-concurrency half of the property: see DESIGN (built on the hotspot model).")
NONTRIVIAL_TAGS = ["other-block"]
ASSUMPTIONS = ["entries are requested one at a time (sequential)", "batch + in-flight stays far below 2^32"]
TRUSTED = []
KEEP_PREFIX = 1


def gen_case(rng):
    ops = ["clock"]
    res = ["r0"] if rng.random() < 0.6 else ["r0", "r1"]
    for r in res:
        n = rng.choice([1, 1, 2, 3])
        ops.append("iso.load res=%s rules=%s" % (r, ",".join("%s:%d" % (chr(105 + j), t) for j, t in enumerate(rng.sample(range(1, 6), n)))))
    eid = 0
    open_ = []
    for _ in range(rng.randint(6, 40)):
        if rng.random() < 0.3:
            ops.append("adv ms=%d" % rng.choice([1, 100, 500, 1200]))
        x = rng.random()
        if (x < 0.62 and len(open_) < 7) or not open_:
            eid += 1
            ops.append("build e=%d res=%s batch=%d dir=%s" % (eid, rng.choice(res), rng.choice([1, 1, 1, 2, 3, 4]), rng.choice(["in", "out"])))
            open_.append(eid)
        else:
            e = open_.pop(rng.randrange(len(open_)))
            ops.append("exit e=%d" % e)
            if rng.random() < 0.7:
                eid += 1
                ops.append("build e=%d res=%s batch=1 dir=out" % (eid, rng.choice(res)))
                open_.append(eid)
        if rng.random() < 0.3:
            ops.append("node res=%s" % rng.choice(res))
    return ops


def gen(rng, tier):
    n = 400 if tier == "quick" else 20000
    return [gen_case(rng) for _ in range(n)]
