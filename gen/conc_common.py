"""schedules for the concurrency generators: lists of choices consumed one per scheduling point
(0 = keep running the current thread, k = switch to the k-th other runnable thread)"""


def sched(rng, n_threads, length=400):
    x = rng.random()
    if x < 0.15:
        return [0] * 4                                           # sequential: t0, then t1, ...
    if x < 0.45:                                                 # a few preemptions at random points
        c = [0] * length
        for _ in range(rng.randint(1, 4)):
            c[rng.randrange(length // 2)] = rng.randint(1, n_threads - 1)
        return c
    if x < 0.7:                                                  # round robin with random period
        p = rng.randint(1, 6)
        return [(1 if (i % p) == p - 1 else 0) for i in range(length)]
    if x < 0.9:                                                  # random with a bias to continue
        b = rng.choice([0.5, 0.7, 0.9])
        return [0 if rng.random() < b else rng.randint(1, n_threads - 1) for _ in range(length)]
    return [rng.randint(0, n_threads - 1) for _ in range(length)]  # uniform


def fmt(choices):
    # trailing zeros are the default
    while choices and choices[-1] == 0:
        choices = choices[:-1]
    return "run choices=" + ",".join(str(c) for c in choices)
