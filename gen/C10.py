"""C10 generator: operation sequences on each of the five rule managers over 2-3 resources and a pool of valid,
invalid and duplicate-but-differently-identified rules; every op is followed by reads."""
LEVEL = "proof"
MODEL = "lean/Sentinel/Manager.lean (Mgr.loadAll / loadRes / append / clear / clearRes / get / getRes) against RefMap"
RULE = ("one family per case (flow, breaker, hotspot, isolation, system); sequences of up to 12 (quick) / 40 (thorough) operations from {load-all, load-for-resource, "
        "append, clear, clear-resource} over 2-3 resources and a pool of ~6 parameter sets per family (valid and invalid), ids regenerated or reused, the same rule sometimes "
        "under two ids; after every operation get_rules, get_rules_of_resource of every resource (for breakers also the bound rules of the breakers actually held) and, for "
        "flow and isolation, an admission probe. Non-trivial: at least one append onto a resource that already has rules, or an unchanged reload, or an invalid rule; "
        "distinct = distinct op text.")
NONTRIVIAL_TAGS = ["append-to-existing", "unchanged-reload", "invalid-rule"]
ASSUMPTIONS = ["return values are compared only for calls without a rule given under two ids (the property's own exclusion)",
               "validity of a parameter set is taken from the key convention (x* = invalid); the validity checks themselves are C12"]
TRUSTED = []
KEEP_PREFIX = 0
POOL = {"flow": ["t3", "t5", "t7", "w9", "xneg", "xwarm"], "iso": ["c1", "c2", "c3", "xzero"], "hs": ["q2", "q4", "c3", "xdur", "xkey"],
        "br": ["e2", "e3", "r5", "s5", "xivl", "xthr"], "sys": ["q5", "q6", "c3", "l5", "xneg", "xload"]}
# parameter sets that differ from a pool member in exactly one field other than the threshold (pacing interval, maximum queueing
# time, warm-up period / cold factor, a per-value override, burst, parameter index, retry timeout, minimum request amount, slow-call
# bound, adaptive strategy): a rule equality (or hash) that overlooks a field makes a replacement look like "unchanged"
VARIANTS = {"flow": ["h4", "h4i", "h4q", "p5", "p5o", "w9p", "w9c"], "hs": ["q2o", "q2b", "q2i", "q2k"], "br": ["r5t", "r5m", "s5m", "e2w"], "sys": ["l5b"], "iso": []}


def gen_case(rng, tier):
    fam = rng.choice(["flow", "flow", "br", "hs", "iso", "sys"])
    pool = POOL[fam] + (VARIANTS[fam] if rng.random() < 0.5 else [])
    res = ["r1", "r2", "r3"][:rng.randint(2, 3)]
    ops = []
    nid = [0]

    def rule(r=None, key=None, reuse=None):
        key = key or rng.choice(pool)
        r = r or rng.choice(res)
        if reuse and rng.random() < 0.5:
            return reuse
        if reuse and rng.random() < 0.3:
            # the id of a rule given earlier, with other parameters: it is another rule (seed C09-e: equality by id)
            rid, rres, rkey = reuse.split("@")
            others = [k for k in pool if k != rkey]
            if others:
                return "%s@%s@%s" % (rid, rres, rng.choice(others))
        nid[0] += 1
        return "%s%d@%s@%s" % ("abcdefgh"[nid[0] % 8], nid[0], r, key)

    seen = []
    n = rng.randint(3, 12 if tier == "quick" else 40)
    for _ in range(n):
        x = rng.random()
        if fam == "sys":
            x = x * 0.8 if x < 0.9 else 0.85   # no per-resource ops
        if x < 0.25:
            k = rng.randint(0, 4)
            rs = [rule(reuse=(rng.choice(seen) if seen else None)) for _ in range(k)]
            if rs and rng.random() < 0.25:            # the same rule under a second id
                i, r, key = rs[0].split("@")
                rs.append(rule(r, key))
            if seen and rng.random() < 0.2:
                rs = list(lastload) if 'lastload' in dir() and lastload else rs   # identical reload
            lastload = rs
            seen += rs
            ops.append("m fam=%s op=loadall rules=%s" % (fam, ",".join(rs)))
        elif x < 0.45 and fam != "sys":
            r = rng.choice(res + [""] if rng.random() < 0.05 else res)
            k = rng.randint(0, 3)
            rs = [rule(r or "r1", reuse=None) for _ in range(k)]
            seen += rs
            ops.append("m fam=%s op=loadres res=%s rules=%s" % (fam, r, ",".join(rs)))
            if rng.random() < 0.3:
                ops.append("m fam=%s op=loadres res=%s rules=%s" % (fam, r, ",".join(rs)))   # identical reload
        elif x < 0.8:
            ru = rule(reuse=(rng.choice(seen) if seen and rng.random() < 0.3 else None))
            seen.append(ru)
            ops.append("m fam=%s op=append rule=%s" % (fam, ru))
        elif x < 0.87:
            ops.append("m fam=%s op=clear" % fam)
        elif fam != "sys":
            ops.append("m fam=%s op=clearres res=%s" % (fam, rng.choice(res)))
        else:
            ops.append("m fam=sys op=clear")
        ops.append("m fam=%s op=get" % fam)
        if fam != "sys":
            for r in res:
                ops.append("m fam=%s op=getres res=%s" % (fam, r))
                if fam == "br":
                    ops.append("m fam=br op=enforced res=%s" % r)
            if fam in ("flow", "iso") and rng.random() < 0.4 and not any("@w9" in o or "@h4" in o for o in ops):
                ops.append("m fam=%s op=probe res=%s" % (fam, rng.choice(res)))
    return ops


REUSABLE = {"flow": ["t3", "t5", "t7"], "hs": ["q2", "q4"], "br": ["e2", "e3"]}
ONEFIELD = {"flow": [["h4", "h4i", "h4q"], ["w9", "w9p", "w9c"], ["t5", "p5", "p5o"]], "hs": [["q2", "q2o", "q2b", "q2i", "q2k"]], "br": [["r5", "r5t", "r5m"], ["s5", "s5m"]],
            "sys": [["l5", "l5b"]]}


def gen_focus(rng, tier):
    """one resource, rules that differ but can take over each other's statistics (same window / strategy): appends and
    per-resource loads in quick succession, so that the 'reuse the statistic of an old controller' path of the builders runs
    on lists that are still in use (seed C10-d)"""
    if rng.random() < 0.5:
        fam = rng.choice(["br", "br", "flow", "hs"])
        keys = REUSABLE[fam]
    else:
        # replacements and appends among rules that differ in one field only
        fam = rng.choice(["flow", "flow", "hs", "br", "sys"])
        keys = rng.choice(ONEFIELD[fam])
    ops = []
    nid = 0
    for _ in range(rng.randint(2, 7)):
        nid += 1
        r = "%s%d@r1@%s" % ("abcdefgh"[nid % 8], nid, rng.choice(keys))
        x = rng.random()
        if fam == "sys":
            x = 0.5 if x < 0.7 else 0.9          # no per-resource calls in the system family
        if x < 0.65:
            ops.append("m fam=%s op=append rule=%s" % (fam, r))
        elif x < 0.85:
            nid += 1
            r2 = "%s%d@r1@%s" % ("abcdefgh"[nid % 8], nid, rng.choice(keys))
            ops.append("m fam=%s op=loadres res=r1 rules=%s" % (fam, ",".join([r, r2][:rng.randint(1, 2)])))
        else:
            ops.append("m fam=%s op=loadall rules=%s" % (fam, r))
        ops.append("m fam=%s op=get" % fam)
        if fam != "sys":
            ops.append("m fam=%s op=getres res=r1" % fam)
        if fam == "br":
            ops.append("m fam=br op=enforced res=r1")
        if fam == "flow" and rng.random() < 0.5 and not any(k[0] in "hw" for k in keys):
            ops.append("m fam=flow op=probe res=r1")
    return ops


def gen(rng, tier):
    n = 400 if tier == "quick" else 20000
    return [gen_case(rng, tier) if i % 5 else gen_focus(rng, tier) for i in range(n)]
