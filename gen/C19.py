"""C19 generator and runner: write histories for the real metric log writer, searches on the live directory (one long-lived
searcher, so that its position cache is exercised, and fresh ones), and searches on crash states.

The runner is specific to this property (`custom_run`, used by ./check instead of the generic pipe):

  stage A  the harness (harness-mlog, real writer/searcher, feature metric_log) executes the case under `strace`; the system
           call log is cut per operation (marker calls) and turned into `stream` lines: create / append / remove of files in
           the case's directory, in program order, file names canonicalised to L<day>.<no> / I<day>.<no>.
  stage B  for the crash points chosen from that observed stream (event boundaries, every byte of some index entries, bytes of
           some lines incl. inside a multi-byte character) the prefix is materialised as a directory and the real searcher
           answers the case's `plan.query` lines on it.
  driver   the Lean model replays everything (model/implementation comparison + Spec on the implementation's answers).

When strace cannot be used the stream is the model's (tag `nostream`), compared with the directory listing after each write.
"""
import os, re, subprocess, datetime, shutil, random

LEVEL = "proof"
MODEL = "lean/Sentinel/MetricLog.lean (Writer.new/write, FS.apply, findEntry, searchRange/searchLines, readRange/readLines)"
RULE = ("per case: one writer (single-file size limit 60..400 bytes or large, max file count 1..4 or 12..14), 3..14 write calls over 1..8 seconds with 1..3 items each "
        "(same second repeated, gaps, day changes, old seconds that the writer ignores, ts=0, empty batches), names incl. non-ASCII and '|', counters up to u64::MAX; "
        "searches by time range (+resource) and by line limit from every second boundary used, on a long-lived searcher and on fresh ones, between the writes and at the end; "
        "then crash points of the observed system-call stream (quick: ~10 per case; thorough: ~40, or all for small cases), each searched with the case's plan.query lines. "
        "Non-trivial: a case with a roll-over, a retention removal, a cache hit or a torn crash state (tags); distinct = distinct op text.")
NONTRIVIAL_TAGS = ["roll-size", "roll-day", "retention", "cache-hit", "crash-torn-idx", "crash-torn-line", "limit-cut"]
ASSUMPTIONS = ["resource names contain no line break (a name with '\\n' splits its line; characterised in DESIGN.md, outside the quantifier)",
               "searches by resource use the stored form of the name ('|' replaced by '_', C18)",
               "one writer per directory; seconds of accepted writes are non-decreasing (the writer ignores older seconds by design)",
               "fewer than 100000 items per search (MAX_ITEM_AMOUNT)"]
TRUSTED = ["strace (system call log of the harness process) and gen/C19.py (cutting it per operation, canonical file names via Python's datetime, materialising crash prefixes)",
           "std::fs / the OS file system; BufReader; the `time` crate's date formatting is compared with Python's through the canonical file names"]
KEEP_PREFIX = 1

U64 = 18446744073709551615
DAY0 = 1700006400  # 2023-11-15T00:00:00Z in seconds

NAMES = ["a", "res", "é", "中文", "a|b", "/foo/*", "x y", "z"]


def hx(s):
    b = s.encode("utf-8")
    return b.hex() if b else "-"


def item(rng):
    big = rng.random() < 0.1
    def c():
        if big and rng.random() < 0.5:
            return rng.choice([U64, U64 - 1, 10 ** 12])
        return rng.choice([0, 1, 2, 7, 10, 123, 99999])
    return "%s,%d,%d,%d,%d,%d,%d,%d,%d" % (hx(rng.choice(NAMES)), rng.randint(0, 7), c(), c(), c(), c(), c(), c(), rng.choice([0, 1, 5, 4294967295]))


def gen_case(rng, tier):
    lines = []
    near_midnight = rng.random() < 0.35
    t0 = (DAY0 - rng.randint(1, 4)) if near_midnight else (DAY0 + rng.randint(10, 80000))
    t0ms = t0 * 1000 + rng.randint(0, 999)
    manyfiles = rng.random() < 0.12
    if manyfiles:
        size, files = rng.choice([1, 40, 60]), rng.choice([12, 13, 14, 30])
    else:
        size = rng.choice([60, 100, 150, 200, 400, 100000])
        files = rng.choice([1, 2, 2, 3, 3, 4])
    lines.append("mlog.new size=%d files=%d now=%d%s" % (size, files, t0ms, " pid=1" if rng.random() < 0.1 else ""))
    lines.append("mlog.snew s=p")
    nw = rng.randint(12, 16) if manyfiles else rng.randint(3, 14 if tier == "quick" else 22)
    sec = t0 + rng.choice([0, 0, 1, 1, 2])
    secs = [t0]
    fresh = 0
    for w in range(nw):
        r = rng.random()
        if r < 0.45:
            pass                      # same second again
        elif r < 0.85:
            sec += 1
        elif r < 0.95:
            sec += rng.randint(2, 5)
        else:
            sec += rng.choice([86400, 86399, 3600, 2 * 86400])
        ts = sec * 1000 + rng.randint(0, 999)
        r = rng.random()
        if r < 0.05 and len(secs) > 1:
            ts = rng.choice(secs[:-1]) * 1000 + 5      # an older second: ignored by the writer
        elif r < 0.07:
            ts = 0
        n = 0 if rng.random() < 0.03 else rng.randint(1, 1 if manyfiles else 3)
        lines.append("mlog.write ts=%d items=%s" % (ts, ";".join(item(rng) for _ in range(n)) if n else "-"))
        if ts // 1000 >= secs[-1]:
            if ts // 1000 > secs[-1] and n:
                secs.append(ts // 1000)
        if rng.random() < 0.35:
            s = "p"
            if rng.random() < 0.4:
                fresh += 1
                s = "f%d" % fresh
                lines.append("mlog.snew s=%s" % s)
            lines.append(query(rng, secs, s))
    for _ in range(rng.randint(2, 4)):
        lines.append(query(rng, secs, "p"))
    fresh += 1
    lines.append("mlog.snew s=f%d" % fresh)
    lines.append(query(rng, secs, "f%d" % fresh))
    lines.append("mlog.range s=f%d b=%d e=%d res=-" % (fresh, secs[0] * 1000, (secs[-1] + 1) * 1000))
    # crash plan
    lines.append("plan.crash n=%d seed=%d" % ((10 if tier == "quick" else 40), rng.randint(0, 10 ** 6)))
    lines.append("plan.query kind=range b=%d e=%d res=-" % (secs[0] * 1000 - 1000, (secs[-1] + 2) * 1000))
    mid = rng.choice(secs)
    lines.append("plan.query kind=range b=%d e=%d res=%s" % (mid * 1000, (secs[-1] + 1) * 1000, rng.choice(["-", hx(rng.choice(NAMES))])))
    lines.append("plan.query kind=lines b=%d n=%d" % (rng.choice(secs) * 1000, rng.choice([1, 2, 3, 1000])))
    return lines


def query(rng, secs, s):
    b = rng.choice(secs) + rng.choice([0, 0, 0, -1, 1])
    if rng.random() < 0.55:
        e = max(b, rng.choice(secs)) + rng.choice([0, 0, 1, 5])
        if rng.random() < 0.1:
            e = b - 1
        res = "-" if rng.random() < 0.6 else hx(rng.choice(NAMES + ["a_b", "nope"]))
        return "mlog.range s=%s b=%d e=%d res=%s" % (s, b * 1000 + rng.randint(0, 999), e * 1000 + rng.randint(0, 999), res)
    return "mlog.lines s=%s b=%d n=%d" % (s, b * 1000 + rng.randint(0, 999), rng.choice([0, 1, 1, 2, 3, 5, 1000]))


def gen(rng, tier):
    n = 160 if tier == "quick" else 3000
    return [gen_case(rng, tier) for _ in range(n)]


# ------------------------------------------------------------------------------------------------ runner

NAME_RE = re.compile(r"^app-metrics\.log(?:\.pid\d+)?\.(\d{4})-(\d\d)-(\d\d)(?:\.(\d+))?(\.idx)?$")


def canon(name):
    m = NAME_RE.match(name)
    if not m:
        return None
    day = (datetime.date(int(m.group(1)), int(m.group(2)), int(m.group(3))) - datetime.date(1970, 1, 1)).days
    return "%s%d.%d" % ("I" if m.group(5) else "L", day, int(m.group(4) or 0))


def canon_listing(text):
    """'name:len name:len' with real names -> canonical, sorted by (day, no, log before idx)"""
    if text.strip() in ("-", ""):
        return "-"
    ents = []
    for tok in text.split():
        name, ln = tok.rsplit(":", 1)
        c = canon(name)
        if c is None:
            ents.append(((10 ** 9, 0, 0), "?%s:%s" % (name, ln)))
            continue
        d, n = c[1:].split(".")
        ents.append(((int(d), int(n), 0 if c[0] == "L" else 1), "%s:%s" % (c, ln)))
    ents.sort()
    return " ".join(e[1] for e in ents)


def unescape(s):
    """strace -xx string body -> bytes"""
    return bytes(int(x, 16) for x in re.findall(r"\\x([0-9a-f]{2})", s))


ST_RE = re.compile(r'^(\d+)\s+(\w+)\((.*)\)\s+=\s+(-?\d+)(.*)$')


def parse_strace(path):
    """-> dict case_id -> dict op_index(int or 'end') -> list of events (kind, realpath, bytes)"""
    out = {}
    fds = {}
    cur = None      # (case, opidx)
    for line in open(path, errors="replace"):
        m = ST_RE.match(line.rstrip("\n"))
        if not m:
            continue
        call, args, ret = m.group(2), m.group(3), int(m.group(4))
        if call == "openat":
            am = re.match(r'^\w+, "([^"]*)", ([A-Z_|0-9x]+)', args)
            if not am or ret < 0:
                continue
            p = unescape(am.group(1)).decode("utf-8", "replace")
            fds[ret] = p
            if "O_CREAT" in am.group(2) and "O_TRUNC" in am.group(2) and cur is not None:
                out[cur[0]][cur[1]].append(("C", p, b""))
        elif call == "close":
            am = re.match(r"^(\d+)", args)
            if am:
                fds.pop(int(am.group(1)), None)
        elif call == "write":
            am = re.match(r'^(\d+), "([^"]*)"(\.\.\.)?, (\d+)', args)
            if not am or ret < 0 or cur is None:
                continue
            fd = int(am.group(1))
            if fd in fds:
                data = unescape(am.group(2))[:ret]
                out[cur[0]][cur[1]].append(("A", fds[fd], data))
        elif call in ("unlink", "unlinkat"):
            am = re.match(r'^(?:(\w+), )?"([^"]*)"', args)
            if not am:
                continue
            p = unescape(am.group(2)).decode("utf-8", "replace")
            mm = re.match(r"^/verif-mark/(.*)/(\d+|end)$", p)
            if mm:
                cid, k = mm.group(1), mm.group(2)
                cur = (cid, k if k == "end" else int(k))
                out.setdefault(cid, {})[cur[1]] = []
                continue
            if ret == 0 and cur is not None:
                dirfd = am.group(1)
                if dirfd and dirfd != "AT_FDCWD" and dirfd.isdigit() and int(dirfd) in fds:
                    p = os.path.join(fds[int(dirfd)], p)
                out[cur[0]][cur[1]].append(("R", p, b""))
    return out


def merge_events(evs):
    out = []
    for k, p, b in evs:
        if k == "A" and out and out[-1][0] == "A" and out[-1][1] == p:
            out[-1] = ("A", p, out[-1][2] + b)
        else:
            out.append((k, p, b))
    return out


def ev_str(evs):
    if not evs:
        return "-"
    parts = []
    for k, p, b in evs:
        c = canon(os.path.basename(p)) or ("?" + os.path.basename(p))
        parts.append("%s %s%s" % (k, c, (" " + (b.hex() or "-")) if k == "A" else ""))
    return ";".join(parts)


def choose_crash_points(rng, events, n):
    """events: merged list over the whole case. -> list of (k, j)"""
    pts = set()
    idx_ev = [i for i, e in enumerate(events) if e[0] == "A" and e[1].endswith(".idx")]
    log_ev = [i for i, e in enumerate(events) if e[0] == "A" and not e[1].endswith(".idx")]
    other = [i for i, e in enumerate(events) if e[0] != "A"]
    total = sum(len(e[2]) if e[0] == "A" else 1 for e in events)
    if total <= n:          # small case: every crash point
        for i, e in enumerate(events):
            pts.add((i, 0))
            if e[0] == "A":
                for j in range(1, len(e[2])):
                    pts.add((i, j))
        pts.add((len(events), 0))
        return sorted(pts)
    budget = n
    if idx_ev:
        i = rng.choice(idx_ev)
        js = list(range(1, len(events[i][2])))
        for j in rng.sample(js, min(len(js), max(3, budget // 3))):
            pts.add((i, j))
    if log_ev:
        for _ in range(max(2, budget // 3)):
            i = rng.choice(log_ev)
            b = events[i][2]
            cand = [1, len(b) - 1, len(b) // 2] + [rng.randint(1, max(1, len(b) - 1)) for _ in range(2)]
            # inside a multi-byte character
            cand += [j for j in range(1, len(b)) if 0x80 <= b[j] < 0xC0][:2]
            # right after a line break
            cand += [j + 1 for j in range(len(b) - 1) if b[j] == 10][:1]
            j = rng.choice([c for c in cand if 0 < c < len(b)] or [0])
            pts.add((i, j))
    for i in rng.sample(other, min(len(other), max(2, budget // 4))):
        pts.add((i, 0))
        pts.add((i + 1, 0))
    pts.add((len(events), 0))
    pts = sorted(pts)
    if len(pts) > n + 4:
        pts = sorted(rng.sample(pts, n + 4))
    return pts


def materialise(events, k, j, dest):
    files = {}
    def app(e, lim=None):
        kind, p, b = e
        name = os.path.basename(p)
        if kind == "C":
            files[name] = bytearray()
        elif kind == "R":
            files.pop(name, None)
        else:
            if name in files:
                files[name] += (b if lim is None else b[:lim])
    for e in events[:k]:
        app(e)
    if k < len(events) and j > 0 and events[k][0] == "A":
        app(events[k], j)
    os.makedirs(dest, exist_ok=True)
    for name, data in files.items():
        with open(os.path.join(dest, name), "wb") as f:
            f.write(data)


STRACE_OK = None


def strace_available():
    global STRACE_OK
    if STRACE_OK is None:
        try:
            p = subprocess.run(["strace", "-o", "/dev/null", "-e", "trace=write", "true"], stdout=subprocess.DEVNULL, stderr=subprocess.DEVNULL, timeout=20)
            STRACE_OK = (p.returncode == 0)
        except Exception:
            STRACE_OK = False
        if os.environ.get("VERIF_NO_STRACE"):
            STRACE_OK = False
    return STRACE_OK


def strip_case(lines):
    """a replayed trace: keep the operations of stage A only"""
    out = []
    for l in lines:
        l = l.split(" -> ")[0]
        if l.startswith("crash "):
            break
        if l.startswith("stream"):
            continue
        out.append(l)
    return out


def run_shard(shard, k, tmp, hbin, driver, env):
    """shard: list of (cid, lines). returns (verdict_text, trace_by_cid)"""
    opsA = os.path.join(tmp, "s%d.A.ops" % k)
    by = {}
    with open(opsA, "w") as f:
        for cid, lines in shard:
            lines = strip_case(lines)
            by[str(cid)] = lines
            f.write("case %s\n" % cid + "\n".join(lines) + "\n")
    traceA = os.path.join(tmp, "s%d.A.trace" % k)
    st = os.path.join(tmp, "s%d.strace" % k)
    use_st = strace_available()
    cmd = [hbin, "exec", "C19"]
    if use_st:
        cmd = ["strace", "-f", "-e", "trace=openat,write,unlink,unlinkat,close", "-xx", "-s", "1000000", "-o", st] + cmd
    with open(opsA) as fi, open(traceA, "w") as fo:
        subprocess.run(cmd, stdin=fi, stdout=fo, stderr=subprocess.DEVNULL, env=env, timeout=3600)
    streams = parse_strace(st) if use_st and os.path.exists(st) else {}
    if os.path.exists(st):
        os.remove(st)
    # stage A trace per case
    casesA = {}
    cur = None
    for line in open(traceA, errors="replace"):
        line = line.rstrip("\n")
        if line.startswith("case "):
            cur = line[5:]; casesA[cur] = []
        elif cur is not None:
            casesA[cur].append(line)
    final = {}
    opsB_lines = []
    planB = {}          # cid -> list of (k, j, dir, [query op lines])
    for cid, _ in shard:
        cid = str(cid)
        tl = casesA.get(cid, [])
        out = []
        evs_all = []
        casedir = None
        base = "app-metrics.log"
        queries, crash_n, crash_seed, crash_at = [], 0, 0, []
        for i, l in enumerate(tl):
            op, _, obs = l.partition(" -> ")
            if op.startswith("mlog.new"):
                m = re.search(r"dir=(\S+)", obs)
                if m:
                    casedir = m.group(1)
                    obs = obs.replace(" dir=" + casedir, "")
                m2 = re.search(r"(app-metrics\.log\.pid\d+)\.\d{4}", obs)
                if m2:
                    base = m2.group(1)
            if " | " in obs:
                head, ls = obs.split(" | ", 1)
                obs = head + " | " + canon_listing(ls)
            out.append(op + " -> " + obs)
            if op.startswith("plan.query"):
                queries.append(op)
            if op.startswith("plan.crash"):
                m = re.search(r"n=(\d+) seed=(\d+)", op)
                crash_n, crash_seed = int(m.group(1)), int(m.group(2))
                m = re.search(r"at=(\S+)", op)
                crash_at = [tuple(int(x) for x in t.split(":")) for t in m.group(1).split(",")] if m else []
            if use_st and cid in streams and casedir and (op.startswith("mlog.new") or op.startswith("mlog.write")):
                evs = [e for e in streams[cid].get(i, []) if e[1].startswith(casedir)]
                evs = merge_events(evs)
                evs_all.extend(evs)
                out.append("stream -> " + ev_str(evs))
        final[cid] = out
        if use_st and (crash_n or crash_at) and queries and evs_all:
            rng = random.Random(crash_seed)
            pts = sorted(set((choose_crash_points(rng, evs_all, crash_n) if crash_n else []) + crash_at))
            plan = []
            for n, (kk, jj) in enumerate(pts):
                d = os.path.join(tmp, "crash", "s%d" % k, re.sub(r"[^A-Za-z0-9_.-]", "_", cid), str(n)) + "/"
                materialise(evs_all, kk, jj, d)
                qs = []
                opsB_lines.append("case %s#%d" % (cid, n))
                opsB_lines.append("mlog.snew s=c dir=%s base=%s" % (d, base))
                for q in queries:
                    kv = dict(t.split("=", 1) for t in q.split()[1:])
                    if kv["kind"] == "range":
                        ql = "mlog.range s=c b=%s e=%s res=%s" % (kv["b"], kv["e"], kv["res"])
                    else:
                        ql = "mlog.lines s=c b=%s n=%s" % (kv["b"], kv["n"])
                    qs.append(ql)
                    opsB_lines.append(ql)
                plan.append((kk, jj, qs))
            planB[cid] = plan
    if opsB_lines:
        opsB = os.path.join(tmp, "s%d.B.ops" % k)
        with open(opsB, "w") as f:
            f.write("\n".join(opsB_lines) + "\n")
        traceB = os.path.join(tmp, "s%d.B.trace" % k)
        with open(opsB) as fi, open(traceB, "w") as fo:
            subprocess.run([hbin, "exec", "C19"], stdin=fi, stdout=fo, stderr=subprocess.DEVNULL, env=env, timeout=3600)
        resB = {}
        cur = None
        for line in open(traceB, errors="replace"):
            line = line.rstrip("\n")
            if line.startswith("case "):
                cur = line[5:]; resB[cur] = []
            elif cur is not None:
                resB[cur].append(line)
        for cid, plan in planB.items():
            for n, (kk, jj, qs) in enumerate(plan):
                final[cid].append("crash k=%d j=%d -> ok" % (kk, jj))
                got = resB.get("%s#%d" % (cid, n), [])
                for l in got:
                    op, _, obs = l.partition(" -> ")
                    if op.startswith("mlog.snew"):
                        final[cid].append("mlog.snew s=c crash=1 -> " + obs)
                    else:
                        final[cid].append(l)
        shutil.rmtree(os.path.join(tmp, "crash", "s%d" % k), ignore_errors=True)
    trace = os.path.join(tmp, "s%d.trace" % k)
    with open(trace, "w") as f:
        for cid, _ in shard:
            f.write("case %s\n" % cid + "\n".join(final.get(str(cid), [])) + "\n")
    verd = os.path.join(tmp, "s%d.verdict" % k)
    with open(trace) as fi, open(verd, "w") as fo:
        subprocess.run([driver, "C19"], stdin=fi, stdout=fo, stderr=subprocess.DEVNULL, env=env, timeout=3600)
    return open(verd, errors="replace").read(), final


def custom_run(cases, jobs, tmp, hbin, driver, env):
    """-> (list of verdict lines, dict cid -> trace lines)"""
    from concurrent.futures import ThreadPoolExecutor
    shards = [cases[i::jobs] for i in range(jobs)]
    shards = [s for s in shards if s]
    verd_lines, traces = [], {}
    with ThreadPoolExecutor(max_workers=max(1, len(shards))) as ex:
        futs = [ex.submit(run_shard, s, k, tmp, hbin, driver, env) for k, s in enumerate(shards)]
        for f in futs:
            vt, tr = f.result()
            verd_lines.extend(vt.splitlines())
            traces.update(tr)
    return verd_lines, traces
