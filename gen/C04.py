"""C04 generator: build/exit interleavings over several resources, inbound and outbound, batches, rules that block some."""
import importlib.util as _ilu, os as _os
_ms = _ilu.spec_from_file_location("worldmix", _os.path.join(_os.path.dirname(__file__), "worldmix.py")); MIX = _ilu.module_from_spec(_ms); _ms.loader.exec_module(MIX)
import importlib.util, os
_s = importlib.util.spec_from_file_location("worldgen", os.path.join(os.path.dirname(__file__), "worldgen.py")); W = importlib.util.module_from_spec(_s); _s.loader.exec_module(W)

LEVEL = "proof"
MODEL = "lean/Sentinel/World.lean (World.build, World.exit, Node.recordPass/recordBlock/recordComplete)"
RULE = ("2-4 resources, inbound/outbound, batch 1..5, flow and isolation rules on some resources so that a fraction of entries is blocked (in 45% of the cases rules of every family: "
        "flow throttling and hotspot throttling with queued (Wait) verdicts, hotspot QPS / concurrency, circuit breakers), 30% of the exits carry a traced error, "
        "time advances from {0,1,499,500,501,999,1000,1001,uniform 0..2500} and occasionally {~10 s, 59999..61500 ms, 125 s, 1 h} between calls (response times beyond one minute), exits in any order; every op is followed by reads of the "
        "resource node and of the global inbound node. Non-trivial: at least one blocked entry and one exit with positive response time; distinct = distinct op text.")
NONTRIVIAL_TAGS = ["flow-block", "other-block"]
ASSUMPTIONS = ["each passed entry is exited exactly once (the harness exits the rest at the end of the case)",
               "one virtual hour between cases, so the process-global inbound node starts each case with an empty window"]
TRUSTED = []
KEEP_PREFIX = 1


def gen_case(rng):
    ops = ["clock"]
    nres = rng.randint(2, 4)
    res = ["r%d" % i for i in range(nres)]
    now = rng.choice([0, 250, 499, 500, 777])
    if now:
        ops.append("adv ms=%d" % now)
    hs_res = set()
    rich = rng.random() < 0.45          # all rule families, incl. queueing (Wait) verdicts and breakers (seed C04-d)
    for r in res:
        k = rng.random()
        if rich:
            fam = rng.choice(["flowq", "hsq", "hst", "hsc", "br", "flow", "iso", "none"])
            if fam == "flowq":
                ops.append("flow.load res=%s rules=a:%s:1000:d:t:0:0:%d" % (r, rng.choice(["2", "5", "10"]), rng.choice([300, 1000, 2000])))
            elif fam == "hsq":
                ops.append("hs.load res=%s rules=h;q;r;0;;%d;0;%d;1;0;" % (r, rng.randint(1, 3), rng.randint(0, 1))); hs_res.add(r)
            elif fam == "hst":
                ops.append("hs.load res=%s rules=h;q;t;0;;%d;%d;0;1;0;" % (r, rng.randint(1, 5), rng.choice([300, 1000, 2000]))); hs_res.add(r)
            elif fam == "hsc":
                ops.append("hs.load res=%s rules=h;c;r;0;;%d;0;0;0;0;" % (r, rng.randint(1, 3))); hs_res.add(r)
            elif fam == "br":
                ops.append("br.load res=%s rules=b;c;%d;1;1000;1;50;%d" % (r, rng.choice([300, 1500]), rng.randint(1, 2)))
            elif fam == "flow":
                ops.append("flow.load res=%s rules=a:%s:%d" % (r, rng.choice(["1", "2", "3"]), rng.choice([0, 1000, 1500])))
            elif fam == "iso":
                ops.append("iso.load res=%s rules=i:%d" % (r, rng.randint(1, 4)))
        elif k < 0.35:
            ops.append("flow.load res=%s rules=a:%s:%d" % (r, rng.choice(["1", "2", "3", "5/2"]), rng.choice([0, 1000, 2000, 1500])))
        elif k < 0.7:
            ops.append("iso.load res=%s rules=i:%d" % (r, rng.randint(1, 4)))
        elif k < 0.8:
            ops.append("flow.load res=%s rules=a:%s:0" % (r, rng.choice(["2", "4"])))
            ops.append("iso.load res=%s rules=i:%d" % (r, rng.randint(1, 3)))
    eid = 0
    open_ = []
    for _ in range(rng.randint(6, 40)):
        d = rng.choice([0, 0, 1, 3, 499, 500, 501, 999, 1000, 1001, rng.randint(0, 2500)])
        if rng.random() < 0.06:
            # long-lived entries: response times around and beyond one minute (the statistics' largest "minimum RT"), idle windows
            d = rng.choice([9999, 10000, 10001, 59999, 60000, 60001, 61500, 125000, 3600000])
        if d:
            ops.append("adv ms=%d" % d)
        r = rng.choice(res)
        x = rng.random()
        if x < 0.6 or not open_:
            eid += 1
            extra = " args=%s" % rng.choice(["a", "a", "b"]) if r in hs_res else ""
            if rng.random() < 0.25:
                extra += " rtype=%s" % rng.choice(["web", "rpc", "cache", "common"])   # the resource classification never changes the accounting (seeds C01-e, C04-e)
            ops.append("build e=%d res=%s batch=%d dir=%s%s" % (eid, r, rng.choice([1, 1, 1, 2, 3, 5]), rng.choice(["in", "in", "out"]), extra))
            open_.append(eid)
        else:
            e = open_.pop(rng.randrange(len(open_)))
            # a traced error on the entry (Entry::set_err) must not change the accounting of its exit (seed C05-d)
            ops.append("exit e=%d%s" % (e, " err=1" if rng.random() < 0.3 else ""))
        ops.append("node res=%s" % r)
        if rng.random() < 0.6:
            ops.append("node res=__inbound__")
    for r in res:
        ops.append("node res=%s" % r)
    ops.append("node res=__inbound__")
    return ops


def lap_case(rng):
    """writes exactly one (or two) laps of the ring after an earlier write into the same slot, on and next to a bucket boundary:
    the slot still holds the bucket of one lap ago and must be recycled (seed C04-f; same boundary as seeds C01-a, C02-a)"""
    ops = ["clock"]
    off = rng.choice([0, 0, 500, 1500, 3000, 250])
    if off:
        ops.append("adv ms=%d" % off)
    res = ["r0", "r1"]
    eid = 0
    open_ = []
    for step in range(rng.randint(2, 5)):
        for _ in range(rng.randint(1, 3)):
            eid += 1
            r = rng.choice(["r0", "r0", "r0", "r1"])
            ops.append("build e=%d res=%s batch=%d dir=%s" % (eid, r, rng.choice([1, 2, 3]), rng.choice(["in", "out"])))
            open_.append(eid)
            ops.append("node res=%s" % r)
            ops.append("node res=__inbound__")
            if rng.random() < 0.5:
                ops.append("exit e=%d" % open_.pop(rng.randrange(len(open_))))
                ops.append("node res=%s" % r)
        ops.append("adv ms=%d" % rng.choice([10000, 10000, 10000, 10000, 10000, 20000, 9500, 10500, 9999, 5000]))
    for e in open_:
        ops.append("exit e=%d" % e)
    for r in res:
        ops.append("node res=%s" % r)
    ops.append("node res=__inbound__")
    return ops


def gen_own(rng, tier):
    n = 400 if tier == "quick" else 20000
    return [gen_case(rng) if i % 12 != 5 else lap_case(rng) for i in range(n)]


def gen(rng, tier):
    """the property's own streams, with every 8th case taken from the shared mixed-world stream (gen/worldmix.py)"""
    cases = gen_own(rng, tier)
    return [c if i % 8 != 7 else MIX.gen_mix(rng) for i, c in enumerate(cases)]
