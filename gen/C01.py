"""C01 generator: 1-3 direct/reject rules per resource over the three statistic regimes, batches 0..k,
arrival gaps on bucket/window edges, exits in any order."""
import importlib.util as _ilu, os as _os
_ms = _ilu.spec_from_file_location("worldmix", _os.path.join(_os.path.dirname(__file__), "worldmix.py")); MIX = _ilu.module_from_spec(_ms); _ms.loader.exec_module(MIX)
import importlib.util, os
_s = importlib.util.spec_from_file_location("worldgen", os.path.join(os.path.dirname(__file__), "worldgen.py")); W = importlib.util.module_from_spec(_s); _s.loader.exec_module(W)

LEVEL = "proof"
MODEL = "lean/Sentinel/World.lean (flowStatFor, FlowCtrl.blocks, flowCheck, World.build/exit) on Sentinel/LeapArray.lean"
RULE = ("1-3 direct/reject rules on one resource; thresholds from {0,1,2,3,5,10,5/2,21/8,0.1,7/2,1e6}; stat_interval_ms from the default "
        "{0,1000}, reuse-global {500,2000,2500,5000,10000}, private {1,250,700,1500,3000,20000}; batches 0..4; gaps from "
        "{0,1,L-1,L,L+1,W-1,W,W+1,2W,next bucket edge,uniform}; exits shuffled; node/controller reads interleaved. "
        "Non-trivial: at least one flow rejection or a window roll-over after admissions; distinct = distinct op text.")
NONTRIVIAL_TAGS = ["flow-block"]
ASSUMPTIONS = ["rules are loaded before traffic (a private window only sees admissions after its rule was loaded; the Spec counts from the load)",
               "only RelationStrategy::Current (Associated is C12's subject)", "default configuration (global 20x500 ms, metric 2x500 ms)"]
TRUSTED = []
KEEP_PREFIX = 1


def gen_case(rng):
    ops = ["clock"]
    nrules = rng.choice([1, 1, 2, 2, 3])
    rules = []
    used = set()
    for j in range(nrules):
        while True:
            thr = rng.choice(W.THR)
            ivl = rng.choice(rng.choice([W.IVL_DEFAULT, W.IVL_REUSE, W.IVL_PRIVATE]))
            if (thr, ivl) not in used:
                used.add((thr, ivl)); break
        rules.append((chr(97 + j), thr, ivl))
    now = rng.choice([0, 0, 137, 499, 500, 999, 1234])
    if now:
        ops.append("adv ms=%d" % now)
    ops.append("flow.load res=r rules=" + ",".join("%s:%s:%d" % r for r in rules))
    # the geometry the time moves aim at: one of the rules
    eid = 0
    open_ = []
    for _ in range(rng.randint(5, 45)):
        _, _, ivl = rng.choice(rules)
        Wd = ivl if ivl else 1000
        L = 500 if Wd % 500 == 0 and Wd <= 10000 else (Wd // 3 if Wd == 1500 else Wd // 6 if Wd == 3000 else Wd)
        L = max(L, 1)
        now = W.adv(ops, now, W.gap(rng, L, Wd), L)
        r = rng.random()
        if r < 0.68:
            eid += 1
            rt = " rtype=%s" % rng.choice(["web", "rpc", "cache", "common"]) if rng.random() < 0.25 else ""   # classification only (seed C01-e)
            ops.append("build e=%d res=r batch=%d dir=%s%s" % (eid, rng.choice([0, 1, 1, 1, 2, 3, 4]), rng.choice(["in", "out"]), rt))
            open_.append(eid)
        elif r < 0.80 and open_:
            e = open_.pop(rng.randrange(len(open_)))
            ops.append("exit e=%d%s" % (e, " err=1" if rng.random() < 0.25 else ""))   # a traced error must not change admission/accounting
        elif r < 0.90:
            ops.append("ctrl res=r")
        else:
            ops.append("node res=r")
    ops.append("ctrl res=r")
    return ops


def gen_own(rng, tier):
    n = 500 if tier == "quick" else 25000
    return [gen_case(rng) for _ in range(n)]


def gen(rng, tier):
    """the property's own streams, with every 8th case taken from the shared mixed-world stream (gen/worldmix.py)"""
    cases = gen_own(rng, tier)
    return [c if i % 8 != 7 else MIX.gen_mix(rng) for i, c in enumerate(cases)]
