"""C09 generator: system rules of all five metric types x both strategies, thresholds around the values that real
inbound traffic produces (QPS, concurrency, avg RT) and around injected load/CPU readings."""
import importlib.util as _ilu, os as _os
_ms = _ilu.spec_from_file_location("worldmix", _os.path.join(_os.path.dirname(__file__), "worldmix.py")); MIX = _ilu.module_from_spec(_ms); _ms.loader.exec_module(MIX)
LEVEL = "proof"
MODEL = "lean/Sentinel/World.lean (SysRule.trips, bbrExceeded, sysCheck, World.sysObs, World.build)"
RULE = ("1-3 system rules (metric x strategy), thresholds from small integers/fractions so that below/equal/above the observed value all occur; "
        "inbound histories producing QPS 0..8, concurrency 0..5, avg RT from exits after 0..400 ms; injected load in {0,1/4,1/2,3/4,1} and CPU in {0,25,50,75/2,100}; "
        "inbound and outbound entries mixed. Non-trivial: at least one system rejection; distinct = distinct op text.")
NONTRIVIAL_TAGS = ["system-block"]
ASSUMPTIONS = ["load / CPU readings are injected through the cfg(sentinel_verif) setters (the collectors are not started)",
               "CPU readings are chosen exactly representable in f32"]
TRUSTED = ["soft-float mul/div chain for the BBR capacity estimate is compared with Rust's result through the decisions it produces"]
KEEP_PREFIX = 1
FR = ["0", "1/4", "1/2", "3/4", "1"]
CPU = ["0", "25", "50", "75/2", "100", "99"]


def rule(rng, j):
    m = rng.choice(["load", "avgrt", "conc", "qps", "cpu"])
    st = rng.choice(["no", "bbr"])
    if m == "load":
        thr = rng.choice(FR)
    elif m == "cpu":
        thr = rng.choice(CPU)
    elif m == "avgrt":
        thr = rng.choice(["0", "1", "50", "100", "200", "250", "400", "133/1", "401/2", "1000"])
    elif m == "conc":
        thr = rng.choice(["0", "1", "2", "3", "4", "5/2"])
    else:
        thr = rng.choice(["0", "1", "2", "3", "5", "7/2", "8"])
    return "%s:%s:%s:%s" % (chr(115 + j) + str(j), m, st, thr)


def gen_case(rng):
    ops = ["clock"]
    rules = [rule(rng, j) for j in range(rng.choice([1, 1, 2, 3]))]
    ops.append("sys.load rules=" + ",".join(rules))
    eid = 0
    open_ = []
    for _ in range(rng.randint(6, 40)):
        x = rng.random()
        if x < 0.04:
            # the rules are replaced by rules with the SAME ids and other thresholds / strategies: the new ones decide from the
            # next entry on (seed C09-e: rules compared equal because their ids were equal)
            rules = [r.split(":")[0] + ":" + rule(rng, j).split(":", 1)[1] for j, r in enumerate(rules)]
            ops.append("sys.load rules=" + ",".join(rules))
        elif x < 0.15:
            ops.append("sys.set load=%s cpu=%s" % (rng.choice(FR), rng.choice(CPU)))
        elif x < 0.35:
            ops.append("adv ms=%d" % rng.choice([1, 50, 100, 200, 250, 400, 499, 500, 501, 1000, 1500]))
        elif x < 0.75 or not open_:
            eid += 1
            ops.append("build e=%d res=r%d batch=%d dir=%s" % (eid, rng.randint(0, 1), rng.choice([1, 1, 1, 2, 3]), rng.choice(["in", "in", "in", "out"])))
            open_.append(eid)
        else:
            e = open_.pop(rng.randrange(len(open_)))
            ops.append("exit e=%d%s" % (e, " err=1" if rng.random() < 0.25 else ""))   # a traced error must not change admission/accounting
        if rng.random() < 0.15:
            ops.append("node res=__inbound__")
    return ops


def frac_rt_case(rng):
    """average response times that are not whole milliseconds (exits after 0..3 ms) against AvgRT thresholds between the
    average's integer part and the average itself (seed C09-f: the average was truncated to whole milliseconds)"""
    ops = ["clock"]
    ops.append("sys.load rules=s0:avgrt:%s:%s" % (rng.choice(["no", "bbr"]), rng.choice(["1/2", "3/2", "5/2", "4/3", "7/4", "1/4", "2", "1", "9/4"])))
    eid = 0
    open_ = []
    for _ in range(rng.randint(8, 30)):
        x = rng.random()
        if x < 0.3:
            ops.append("adv ms=%d" % rng.choice([1, 1, 2, 3]))
        elif x < 0.7 or not open_:
            eid += 1
            ops.append("build e=%d res=r0 batch=%d dir=%s" % (eid, rng.choice([1, 1, 2]), rng.choice(["in", "in", "in", "out"])))
            open_.append(eid)
        else:
            ops.append("exit e=%d" % open_.pop(rng.randrange(len(open_))))
        if rng.random() < 0.1:
            ops.append("node res=__inbound__")
    return ops


def gen_own(rng, tier):
    n = 500 if tier == "quick" else 25000
    return [gen_case(rng) if i % 10 != 3 else frac_rt_case(rng) for i in range(n)]


def gen(rng, tier):
    """the property's own streams, with every 8th case taken from the shared mixed-world stream (gen/worldmix.py)"""
    cases = gen_own(rng, tier)
    return [c if i % 8 != 7 else MIX.gen_mix(rng) for i, c in enumerate(cases)]
