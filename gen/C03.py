"""C03 generator: circuit breakers of the three strategies, event sequences over {enter, complete ok/error/slow, advance}."""
import importlib.util as _ilu, os as _os
_ms = _ilu.spec_from_file_location("worldmix", _os.path.join(_os.path.dirname(__file__), "worldmix.py")); MIX = _ilu.module_from_spec(_ms); _ms.loader.exec_module(MIX)
LEVEL = "proof"
MODEL = "lean/Sentinel/Breaker.lean (Breaker.tryPass, onComplete, rollback, resetMetric, brSlot) + World.build/exit"
RULE = ("one or two breakers per resource: strategy in {slow-ratio, error-ratio, error-count}, min_request_amount 0..4, thresholds on/around k/m boundaries, "
        "1/2/4 buckets (and 0 / non-dividing -> 1), retry timeout shorter/longer than the window; events: enter, exit of any in-flight entry (ok / with error / after a slow "
        "or fast delay), advance by 10 ms / half window / full window / retry timeout / retry-1; sometimes a flow rule that rejects the probe. The breaker states are read after "
        "every event. Non-trivial: at least one Closed->Open transition; distinct = distinct op text.")
NONTRIVIAL_TAGS = ["breaker-open"]
ASSUMPTIONS = ["sequential callers", "every state-change notification is delivered to one recording listener registered for the case"]
TRUSTED = ["soft-float ratio err/total compared with the threshold exactly as Rust does; validated through transitions and the snapshot carried by the Open notification"]
KEEP_PREFIX = 1


def br_rule(rng, rid):
    st = rng.choice(["s", "r", "c"])
    ivl = rng.choice([1000, 1000, 2000, 10000])
    buckets = rng.choice([1, 1, 2, 4, 0, 3])
    retry = rng.choice([300, 500, 1000, 3000, ivl, 2 * ivl])
    minreq = rng.randint(0, 4)
    if st == "c":
        thr = rng.choice(["0", "1", "2", "3", "5/2"])
    else:
        thr = rng.choice(["0", "1/4", "1/3", "1/2", "2/3", "1", "3/4"])
    return ("%s;%s;%d;%d;%d;%d;%d;%s" % (rid, st, retry, minreq, ivl, buckets, 50, thr), ivl, retry)


def gen_case(rng):
    ops = ["clock"]
    rules = [br_rule(rng, "b")]
    if rng.random() < 0.3:
        rules.append(br_rule(rng, "c"))
    ivl, retry = rules[0][1], rules[0][2]
    ops.append("br.load res=r rules=" + ",".join(r[0] for r in rules))
    blocker = rng.random() < 0.25
    if blocker:
        ops.append("flow.load res=r rules=f:%s:0" % rng.choice(["1", "2"]))
    ops.append("adv ms=%d" % rng.choice([1, 250, 999]))
    eid = 0
    open_ = []
    for _ in range(rng.randint(6, 45)):
        x = rng.random()
        if x < 0.42 or not open_:
            eid += 1
            ops.append("build e=%d res=r batch=1 dir=out" % eid)
            open_.append(eid)
        elif x < 0.80:
            e = open_.pop(rng.randrange(len(open_)))
            if rng.random() < 0.5:
                ops.append("adv ms=%d" % rng.choice([1, 10, 49, 50, 51, 60, 200]))
            ops.append("exit e=%d err=%d" % (e, rng.choice([0, 0, 1, 1])))
        else:
            ops.append("adv ms=%d" % rng.choice([10, ivl // 2, ivl, ivl + 1, retry, max(retry - 1, 1), retry + 1, ivl // 4 or 1]))
        ops.append("br.state res=r")
    return ops


def scenario_case(rng):
    """directed: open the breaker with errors spread over earlier buckets, wait for the retry deadline inside the window,
    close it with a good probe, then send a few more completions (the statistics must start from scratch)"""
    ops = ["clock"]
    st = rng.choice(["r", "c", "s"])
    buckets = rng.choice([2, 4, 5, 10])
    ivl = rng.choice([1000, 2000, 10000])
    retry = rng.choice([ivl // buckets, ivl // 2, max(ivl // buckets - 1, 1), ivl // buckets + 1])
    minreq = rng.randint(1, 4)
    thr = rng.choice(["1", "2", "3", "3/2", "5/2"]) if st == "c" else rng.choice(["1/4", "1/2", "2/3", "1"])
    ops.append("br.load res=r rules=b;%s;%d;%d;%d;%d;50;%s" % (st, retry, minreq, ivl, buckets, thr))
    if rng.random() < 0.3:
        ops.append("flow.load res=r rules=f:%s:0" % rng.choice(["1", "2", "6"]))
    ops.append("adv ms=%d" % rng.choice([1, 250, 999]))
    eid = 0
    # phase 1: failures until (probably) open
    for _ in range(rng.randint(2, 7)):
        eid += 1
        ops.append("build e=%d res=r batch=1 dir=out" % eid)
        ops.append("adv ms=%d" % rng.choice([60, 80, ivl // buckets, 51]))
        ops.append("exit e=%d err=%d" % (eid, rng.choice([1, 1, 1, 0])))
        ops.append("br.state res=r")
    # phase 2: wait for the retry deadline, probe
    ops.append("adv ms=%d" % rng.choice([retry, retry + 1, retry - 1 if retry > 1 else 1, ivl // 2]))
    for _ in range(rng.randint(1, 3)):
        eid += 1
        ops.append("build e=%d res=r batch=1 dir=out" % eid)
        ops.append("br.state res=r")
    ops.append("adv ms=%d" % rng.choice([1, 10, 40, 60]))
    for e in range(eid, max(eid - 3, 0), -1):
        if rng.random() < 0.8:
            ops.append("exit e=%d err=%d" % (e, rng.choice([0, 0, 0, 1])))
            ops.append("br.state res=r")
    # phase 3: fresh traffic after the close
    for _ in range(rng.randint(1, 6)):
        eid += 1
        ops.append("build e=%d res=r batch=1 dir=out" % eid)
        ops.append("adv ms=%d" % rng.choice([1, 60, 10]))
        ops.append("exit e=%d err=%d" % (eid, rng.choice([1, 1, 0])))
        ops.append("br.state res=r")
    return ops


def multi_probe_case(rng):
    """directed: two or three breakers of one resource opened by the same failures, all past their retry deadline when one
    request arrives - every one of them turns Half-Open on that request - and the request is rejected by another rule: each of
    them must go back to Open and announce it (seed C03-e: only the last registered exit hook ran). Then the blocker is
    removed and the next request probes all of them again."""
    ops = ["clock"]
    k = rng.choice([2, 2, 3])
    retry = rng.choice([300, 1000])
    rules = []
    for j in range(k):
        st = rng.choice(["c", "r", "s"])
        thr = "1" if st == "c" else rng.choice(["1/2", "1"])
        rules.append("%s;%s;%d;1;%d;%d;50;%s" % ("bcd"[j], st, retry, rng.choice([2000, 10000]), rng.choice([1, 2]), thr))
    ops.append("br.load res=r rules=" + ",".join(rules))
    ops.append("adv ms=%d" % rng.choice([1, 250]))
    eid = 0
    for _ in range(rng.randint(1, 3)):          # slow and failed completions: count against every strategy
        eid += 1
        ops += ["build e=%d res=r batch=1 dir=out" % eid, "adv ms=%d" % rng.choice([60, 80]), "exit e=%d err=1" % eid, "br.state res=r"]
    ops.append("adv ms=%d" % (retry + rng.choice([0, 1, 50])))
    blocker = rng.choice(["flow", "iso"])
    if blocker == "flow":
        ops.append("flow.load res=r rules=f:0:0")
    else:
        ops.append("iso.load res=r rules=i:1")
        eid += 1
        ops.append("build e=%d res=q batch=1 dir=out" % eid)       # unrelated resource: keeps nothing in flight on r
        ops.append("flow.load res=r rules=f:0:0")
    eid += 1
    ops += ["build e=%d res=r batch=1 dir=out" % eid, "br.state res=r"]        # probes all, rejected by the flow rule
    if rng.random() < 0.5:
        eid += 1
        ops += ["build e=%d res=r batch=1 dir=out" % eid, "br.state res=r"]    # again
    ops.append("flow.load res=r rules=f:100:0")
    eid += 1
    ops += ["build e=%d res=r batch=1 dir=out" % eid, "br.state res=r", "adv ms=%d" % rng.choice([1, 60])]
    ops += ["exit e=%d err=%d" % (eid, rng.choice([0, 1])), "br.state res=r"]
    eid += 1
    ops += ["build e=%d res=r batch=1 dir=out" % eid, "br.state res=r"]
    return ops


def ratio_boundary_case(rng):
    """a ratio breaker whose threshold is a two-decimal number k/n-style (0.07, 0.14, 0.28, 0.55 ...) or the double nearest to k/n,
    driven by exactly n completions of which k count against it, all inside the window: at the n-th completion the ratio EQUALS
    the threshold and the breaker must open - not one completion later (seed C03-f: the comparison was rewritten as a product)"""
    ops = ["clock"]
    st = rng.choice(["r", "s"])
    if rng.random() < 0.6:
        k, n = rng.choice([(7, 25), (7, 50), (7, 100), (14, 25), (11, 20), (55, 100), (29, 100), (57, 100), (3, 10), (7, 10), (1, 3), (2, 7), (5, 9)])
        thr = "%d/%d" % (k, n) if rng.random() < 0.5 else "%d/100" % round(100 * k / n) if (100 * k) % n == 0 else "%d/%d" % (k, n)
    else:
        n = rng.randint(2, 40)
        k = rng.randint(1, n)
        thr = "%d/%d" % (k, n)
    ops.append("br.load res=r rules=b;%s;%d;%d;60000;%d;50;%s" % (st, 5000, n, rng.choice([1, 2]), thr))          # min request amount n: the threshold can only be met at the n-th completion
    ops.append("adv ms=%d" % rng.choice([1, 250]))
    bad = set(rng.sample(range(n - 1), k - 1)) | {n - 1} if k >= 1 else set()       # the last completion is a bad one
    eid = 0
    for i in range(n):
        eid += 1
        ops.append("build e=%d res=r batch=1 dir=out" % eid)
        ops.append("adv ms=%d" % (60 if i in bad else 3))                            # slow (> 50 ms) and failed, or fast and fine
        ops.append("exit e=%d err=%d" % (eid, 1 if i in bad else 0))
        if i >= n - 3:
            ops.append("br.state res=r")
    eid += 1
    ops += ["build e=%d res=r batch=1 dir=out" % eid, "br.state res=r"]
    return ops


def gen_own(rng, tier):
    n = 300 if tier == "quick" else 15000
    return [gen_case(rng) if i % 6 else ratio_boundary_case(rng) for i in range(n)] + [scenario_case(rng) if i % 5 else multi_probe_case(rng) for i in range(n)]


def gen(rng, tier):
    """the property's own streams, with every 8th case taken from the shared mixed-world stream (gen/worldmix.py)"""
    cases = gen_own(rng, tier)
    return [c if i % 8 != 7 else MIX.gen_mix(rng) for i, c in enumerate(cases)]
