"""C20 generator: sequences of requests through the real Tower middleware with a scripted inner service."""
LEVEL = "proof"
MODEL = "lean/Sentinel/Tower.lean (Mw.call / finish / dropFuture over World.build / exit)"
RULE = ("per case: an isolation rule (threshold 1-3) or a flow rule on 1-2 resources, server or client role, with or without fallback; 6-25 requests whose inner outcome is drawn from "
        "{ready Ok, ready Err, pending-then-Ok, pending-then-Err}; pending requests are finished later in any order, so admissions overlap and the rule rejects; clock advances in between; in "
        "5% of the cases one pending future is dropped instead (reported, not asserted). After every operation the reply, the inner service's call count and the resource's in-flight count "
        "are observed. Non-trivial: a case with an admitted request whose inner service failed, or a rejection; distinct = distinct op text.")
NONTRIVIAL_TAGS = ["inner-error-admitted", "reply:blockederr", "reply:fallback"]
ASSUMPTIONS = ["futures are polled by hand with a no-op waker; the tonic interceptor (a different, synchronous shape) does not build offline (tonic 0.8 not in the registry cache) and is not exercised"]
TRUSTED = ["tower (Service trait)"]
KEEP_PREFIX = 3


def gen_case(rng, tier):
    ops = ["clock"]
    ress = ["a", "b"][:rng.choice([1, 1, 2])]
    for r in ress:
        if rng.random() < 0.8:
            ops.append("iso.load res=%s thr=%d" % (r, rng.choice([1, 1, 2, 3])))
        else:
            # a rejecting rule, or a throttling rule: an admitted request may have been queued first (seed C20-f)
            ops.append("flow.load res=%s thr=%d%s" % (r, rng.choice([1, 2, 5]), rng.choice(["", " maxq=200", " maxq=2000"])))
    if len(ress) == 1 and ops[-1].startswith("iso.load") and rng.random() < 0.3:
        ops.append("flow.load res=a thr=%d maxq=%d" % (rng.choice([2, 5]), rng.choice([200, 2000])))
    while len(ops) < 3:
        ops.append("adv ms=0")
    ops.append("svc role=%s fallback=%d" % (rng.choice(["server", "client"]), rng.choice([0, 1])))
    pending = []
    nid = 0
    allow_drop = rng.random() < 0.05
    n = rng.randint(6, 25 if tier == "quick" else 60)
    for _ in range(n):
        x = rng.random()
        if x < 0.55 or not pending:
            nid += 1
            o = rng.choice(["rok", "rerr", "pok", "perr", "rerr", "perr"])
            ops.append("call id=%d res=%s o=%s" % (nid, rng.choice(ress), o))
            if o.startswith("p"):
                pending.append(nid)       # may have been rejected; then finish answers `none`
        elif x < 0.85:
            i = pending.pop(rng.randrange(len(pending)))
            if allow_drop and rng.random() < 0.3:
                ops.append("drop id=%d" % i)
            else:
                ops.append("finish id=%d" % i)
        elif x < 0.95:
            # also inner calls that stay pending for longer than a minute (the statistics' largest response time; seed C20-e)
            ops.append("adv ms=%d" % rng.choice([1, 100, 500, 1000, 3000, 3000, 59999, 60001, 61000, 125000]))
        else:
            ops.append("conc res=%s" % rng.choice(ress))
    rng.shuffle(pending)
    for i in pending:
        ops.append("finish id=%d" % i)
    for r in ress:
        ops.append("conc res=%s" % r)
    return ops


def gen(rng, tier):
    n = 300 if tier == "quick" else 6000
    return [gen_case(rng, tier) for _ in range(n)]
