"""C16 generator: 2-3 real threads requesting and completing entries around each transition of a circuit breaker."""
import os, sys
sys.path.insert(0, os.path.dirname(__file__))
from conc_common import sched, fmt

LEVEL = "proof"
MODEL = "lean/Sentinel/ConcModels.lean (casRun, isPath, tryPassDecision); Spec on scheduled executions of the real breakers"
RULE = ("one child process per case; one breaker (ErrorCount / ErrorRatio / SlowRequestRatio, retry 1000 ms, min request 1) on a resource, a recording listener whose notifications enter the "
        "schedule log. Scenarios: (a) 2-3 completions that each would open the breaker; (b) breaker tripped in the setup, clock past the retry time, 2-3 threads requesting at once (probe race), "
        "then completing with/without error; (f) a completion that opens the breaker racing with a request; (c) breaker tripped, clock short of the retry time, concurrent requests (must all be rejected) with one thread stepping the clock past it; "
        "(d) probe completion racing with new requests and with completions of entries admitted before the trip; (e) random programs of build / exit / exit-with-error / clock steps. "
        "Schedules as for C14 (sequential, few preemptions, round robin, random), every 4th (thorough: every) single preemption of (a) and (b), and a grid (thorough: all) of two-preemption schedules of (a) and (b) with two threads. Observed: per-thread results in schedule order, the "
        "listener log, the final state. Non-trivial: the breaker opened or a probe ran; distinct = distinct op text.")
NONTRIVIAL_TAGS = ["breaker-opened", "probe"]
ASSUMPTIONS = ["scheduling points are the lock operations and the wrapped atomics (state mutex, listener lock, retry timestamp, counters)"]
TRUSTED = ["sentinel_core::verif_sync (hook)"]
KEEP_PREFIX = 3


def rule(rng):
    strat = rng.choice(["c", "c", "r", "s"])
    if strat == "c":
        return "br.load res=a strat=c thr=%d retry=1000 minreq=1 ivl=10000" % rng.choice([0, 1, 2])
    if strat == "r":
        return "br.load res=a strat=r thr=%s retry=1000 minreq=%d ivl=10000" % (rng.choice(["1/2", "0", "1/4"]), rng.choice([1, 2]))
    return "br.load res=a strat=s thr=%s retry=1000 minreq=1 ivl=10000 maxrt=0" % rng.choice(["1/2", "0"])


def trip():
    # enough failed / slow completions to open any of the rules above
    ops = []
    for _ in range(4):
        ops += ["sbuild res=a dir=in", "adv ms=1", "sexit err=1"]
    return ops


def case(rng, kind=None, choices=None, n=None):
    kind = kind or rng.choice("abcdef")
    n = n or rng.choice([2, 2, 3])
    ops = ["clock", "listener callback=0", rule(rng)]
    if kind == "a":
        for t in range(n):
            ops.append("sbuild res=a dir=in")
        # entries were admitted while Closed by the main thread are not available to threads; use thread-built ones
        ops = ops[:3]
        for t in range(n):
            ops += ["t%d build res=a dir=in" % t, "t%d adv ms=1" % t, "t%d exit err=1" % t]
    elif kind == "b":
        ops += trip() + ["adv ms=1100"]
        for t in range(n):
            ops += ["t%d build res=a dir=in" % t, "t%d exit err=%d" % (t, rng.choice([0, 0, 1]))]
    elif kind == "c":
        # the setup's completions take 1 ms each, the k-th opens the breaker (k from the rule): 995+k ms after the setup the clock
        # stands one millisecond short of the retry deadline, 996+k ms after it exactly on it (seed C16-f: probe 1 ms early)
        r = dict(x.split("=") for x in ops[2].split()[1:])
        k = max(int(r["thr"]), 1) if r["strat"] == "c" else int(r["minreq"])
        ops += trip() + ["adv ms=%d" % rng.choice([0, 500, 999, 995 + k, 995 + k, 996 + k])]
        for t in range(n):
            if t == n - 1 and rng.random() < 0.6:
                ops.append("t%d adv ms=%d" % (t, rng.choice([1, 200, 1100])))
            ops += ["t%d build res=a dir=in" % t, "t%d exit" % t]
    elif kind == "f":
        # a completion opens the breaker while another thread requests: the request must see either Closed (before) or Open with
        # the new retry deadline (after), never Open with a stale deadline (seed C16-e)
        ops += ["t0 build res=a dir=in", "t0 adv ms=1", "t0 exit err=1", "t1 build res=a dir=in", "t1 exit err=%d" % rng.choice([0, 1])]
        if n == 3:
            ops += ["t2 build res=a dir=in", "t2 exit"]
    elif kind == "d":
        # t0 holds an entry admitted before the trip; the trip happens in the schedule
        ops += ["t0 build res=a dir=in", "t1 build res=a dir=in", "t1 adv ms=1", "t1 exit err=1", "t1 build res=a dir=in", "t1 exit err=1",
                "t1 build res=a dir=in", "t1 exit err=1", "t1 adv ms=1100", "t1 build res=a dir=in", "t1 exit", "t0 exit err=%d" % rng.choice([0, 1])]
        if n == 3:
            ops += ["t2 build res=a dir=in", "t2 exit", "t2 build res=a dir=in", "t2 exit err=1"]
    else:
        for t in range(n):
            open_ = 0
            for _ in range(rng.randint(2, 6)):
                x = rng.random()
                if x < 0.45 or not open_:
                    ops.append("t%d build res=a dir=in" % t); open_ += 1
                elif x < 0.85:
                    ops.append("t%d exit err=%d" % (t, rng.choice([0, 1, 1]))); open_ -= 1
                else:
                    ops.append("t%d adv ms=%d" % (t, rng.choice([1, 500, 1100])))
            while open_:
                ops.append("t%d exit err=%d" % (t, rng.choice([0, 1]))); open_ -= 1
    ops.append(fmt(choices if choices is not None else sched(rng, n)))
    ops.append("brstate res=a")
    return ops


def gen(rng, tier):
    cases = [case(rng) for _ in range(500 if tier == "quick" else 8000)]
    step = 4 if tier == "quick" else 1
    for kind in "abf":
        base = case(rng, kind, choices=[], n=2)
        for pos in range(0, 200, step if kind != "f" else (2 if tier == "quick" else 1)):
            c = [0] * (pos + 1); c[pos] = 1
            cases.append(base[:-2] + [fmt(c), "brstate res=a"])
    # two preemptions: t0 runs to a point, t1 runs k points (e.g. wins the Open->Half-Open race and still holds its probe),
    # then t0 continues (seed C16-d: the effect needs the loser to finish while the winner's probe is in flight)
    s1, s2 = (2, 3) if tier == "quick" else (1, 1)
    for kind in "abd":
        # (d): a completion of an entry admitted before the trip races with the probe's completion (two completions in Half-Open)
        base = case(rng, kind, choices=[], n=2)
        lo, hi = (0, 48) if kind != "d" else (28, 64)
        st1, st2 = (s1, s2) if kind != "d" else ((4, 9) if tier == "quick" else (1, 2))
        for pos in range(lo, hi, st1):
            for k in (range(1, 48, st2) if kind != "d" else range(150, 420, st2)):
                c = [0] * (pos + k + 1); c[pos] = 1; c[pos + k] = 1
                cases.append(base[:-2] + [fmt(c), "brstate res=a"])
    return cases
