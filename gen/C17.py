"""C17 generator: configurations from a grid of the four window numbers (incl. zero, non-dividing, non-tiling), given by
entity and by YAML text, initialised on the main or on another thread; afterwards the configuration seen by both threads,
nodes created on both threads, and their window behaviour under the virtual clock."""
import itertools

LEVEL = "proof"
MODEL = "lean/Sentinel/Config.lean (Cfg.check, nodeNew, Store) with the ring model of C02 for the windows"
RULE = ("one child process per case. (sample_count_total, interval_ms_total, sample_count, interval_ms) from the grid {0,1,2,3,10,20} x {0,999,1000,5000,7000,10000} x {0,1,2,3,5} x "
        "{0,333,500,1000,2500,5000,10000} (thorough: the full product; quick: every accepted combination plus a sample of the rejected ones), occasionally an empty version / app name / zero "
        "file limits; by entity or YAML; init on the main thread or on a second thread; in half of the cases a long-lived worker thread reads the configuration (and may create a node) before the initialisation and is used again afterwards; then the accessors on all threads, a node touched on each thread, reads of the default metric and of a "
        "reader over the whole global window after clock steps of one default bucket / one global bucket, until both have emptied. Non-trivial: accepted configuration with a node created on "
        "the non-initialising thread, or a rejected configuration; distinct = distinct op text.")
NONTRIVIAL_TAGS = ["touch:other", "init:rejected:stat", "init:rejected:version", "init:rejected:app", "init:rejected:max_file_count", "init:rejected:single_file_max_size"]
ASSUMPTIONS = ["collectors and the cached clock are switched off in the generated configurations (intervals 0, use_cache_time false); the virtual clock drives the windows"]
TRUSTED = ["serde_yaml (YAML text to ConfigEntity)"]
KEEP_PREFIX = 2

SCT = [0, 1, 2, 3, 10, 20]
IVT = [0, 999, 1000, 5000, 7000, 10000]
SC = [0, 1, 2, 3, 5]
IV = [0, 333, 500, 1000, 2500, 5000, 10000]


def stat_ok(sc, iv):
    return not (iv == 0 or sc == 0 or iv % sc != 0)


def accepted(sct, ivt, sc, iv):
    if not stat_ok(sc, iv) or not stat_ok(sct, ivt):
        return False
    if ivt % iv != 0:
        return False
    return (iv // sc) % (ivt // sct) == 0


def case_for(rng, q, extra=""):
    sct, ivt, sc, iv = q
    ok = accepted(*q) and not extra
    ops = ["clock"]
    th = rng.choice(["main", "main", "other"])
    by = rng.choice(["entity", "yaml"])
    # a long-lived worker thread that looked at the configuration (or even created a node) before the initialisation
    early = rng.random() < 0.5
    if early:
        ops.append("cfg thread=worker")
        if rng.random() < 0.4:
            ops.append("touch thread=worker res=early n=1")
    ops.append("init sct=%d ivt=%d sc=%d iv=%d by=%s thread=%s%s" % (sct, ivt, sc, iv, by, th, extra))
    ops += ["cfg thread=main", "cfg thread=other"]
    if early:
        ops += ["cfg thread=worker", "touch thread=worker res=w n=%d" % rng.randint(1, 3)]
    esct, eivt, esc, eiv = q if ok else (20, 10000, 2, 1000)
    t1, t2 = rng.choice([("main", "other"), ("other", "main"), ("other", "other")])
    ops.append("touch thread=%s res=a n=%d" % (t1, rng.randint(1, 5)))
    if rng.random() < 0.6:
        ops.append("adv ms=%d" % rng.choice([0, 1, eiv // esc, eivt // esct]))
        ops.append("touch thread=%s res=b n=%d" % (t2, rng.randint(1, 5)))
    rb, gb = eiv // esc, eivt // esct
    steps = 0
    total = 0
    while total <= eivt + gb and steps < 14:
        ops.append("read thread=%s res=a rsc=%d riv=%d" % (rng.choice(["main", "other"]), esct, eivt))
        if early and rng.random() < 0.4:
            ops.append("read thread=%s res=w rsc=%d riv=%d" % (rng.choice(["main", "worker"]), esct, eivt))
        if "res=b" in " ".join(ops) and rng.random() < 0.5:
            ops.append("read thread=main res=b rsc=%d riv=%d" % (esct, eivt))
        d = rng.choice([rb, gb, gb, eiv, max(1, gb - 1), eivt // 2 or 1])
        ops.append("adv ms=%d" % d)
        total += d
        steps += 1
    ops.append("read thread=main res=a rsc=%d riv=%d" % (esct, eivt))
    if rng.random() < 0.3:    # touch again after the windows emptied
        ops.append("touch thread=%s res=a n=2" % t2)
        ops.append("read thread=main res=a rsc=%d riv=%d" % (esct, eivt))
    return ops


def gen(rng, tier):
    prod = list(itertools.product(SCT, IVT, SC, IV))
    acc = [q for q in prod if accepted(*q)]
    rej = [q for q in prod if not accepted(*q)]
    cases = []
    reps = 1 if tier == "quick" else 3
    for _ in range(reps):
        for q in acc:
            cases.append(case_for(rng, q))
    pick = rej if tier != "quick" else rng.sample(rej, 150)
    for q in pick:
        cases.append(case_for(rng, q))
    for extra in [" ver=-", " app=-", " mfc=0", " sfs=0"]:
        for _ in range(3 if tier == "quick" else 10):
            cases.append(case_for(rng, rng.choice(acc), extra))
    # a second initialisation after nodes exist (old nodes keep their geometry, new nodes take the new one)
    for _ in range(10 if tier == "quick" else 60):
        q1, q2 = rng.choice(acc), rng.choice(acc)
        ops = ["clock", "cfg thread=worker", "init sct=%d ivt=%d sc=%d iv=%d by=entity thread=main" % q1, "touch thread=%s res=a n=2" % rng.choice(["other", "worker"]), "cfg thread=worker",
               "init sct=%d ivt=%d sc=%d iv=%d by=%s thread=%s" % (q2 + (rng.choice(["entity", "yaml"]), rng.choice(["main", "other"]))),
               "cfg thread=main", "cfg thread=other", "cfg thread=worker", "touch thread=main res=a n=1", "touch thread=%s res=c n=3" % rng.choice(["other", "worker"]),
               "read thread=main res=a rsc=%d riv=%d" % (q1[0], q1[1]), "read thread=other res=c rsc=%d riv=%d" % (q2[0], q2[1]),
               "adv ms=%d" % (q2[3] // q2[2]), "read thread=main res=c rsc=%d riv=%d" % (q2[0], q2[1]), "adv ms=%d" % q2[3],
               "read thread=main res=c rsc=%d riv=%d" % (q2[0], q2[1]), "read thread=main res=a rsc=%d riv=%d" % (q1[0], q1[1])]
        cases.append(ops)
    return cases
