"""C08 generator: warm-up flow rules (reject control, default 1 s window) under demand profiles."""
LEVEL = "translation_validation"
MODEL = "lean/Sentinel/World.lean (WarmUp.new, WarmUp.sync, WarmUp.allowed, FlowCtrl.allowed/step) on the qps_previous read of Sentinel/LeapArray.lean"
RULE0 = ("one warm-up/reject rule: q from 30..500 with q >= 10*c, cold factor c in {0 (default 3),2..6}, period p (quick: 1..4, thorough: 1..20) s; arrival grid 5..20 ms "
        "(quick: 20..50 ms with batches so that the offered load still exceeds q); profiles: saturating for 2p+3 s, exactly-at-allowance, below q/c, on/off with idle gaps 0..5p s. "
        "Non-trivial: the rule rejected at least once and admitted at least q/c tokens in some second; distinct = distinct op text.")
RULE = ("one warm-up/reject rule: q from 30..500 with q >= 10*c and q <= 1000/grid, cold factor c in {0 (default 3),2..6}, period p (quick: 1..3, thorough: 1..20) s; "
        "single-token requests on an arrival grid (quick: 10/20 ms, thorough: 1..20 ms); profiles: saturating for 2p+3 s, exactly-at-allowance, below q/c, on/off with idle gaps "
        "0..5p s. Non-trivial: the rule rejected at least once; distinct = distinct op text.")
NONTRIVIAL_TAGS = ["flow-block"]
ASSUMPTIONS = ["reject control on the default statistic window (stat_interval_ms = 0)", "single sequential caller"]
TRUSTED = ["the warm-up float expressions (warning/max token, slope, 1/(above*slope+1/q), next_after) are reproduced with the integer soft-float and validated through every decision"]
KEEP_PREFIX = 2


def gen_case(rng, tier):
    ops = ["clock"]
    c = rng.choice([0, 2, 3, 4, 5, 6])
    ceff = c if c > 1 else 3
    # batch 1 on an arrival grid of 1..20 ms; the offered load 1000/grid must be able to saturate q
    grid = rng.choice([10, 20]) if tier == "quick" else rng.choice([1, 2, 5, 10, 20])
    qmax = 1000 // grid
    q = rng.choice([x for x in [30, 40, 50, 60, 80, 100, 147, 200, 300, 500] if x <= qmax] or [30])
    if q < 10 * ceff:
        c = rng.choice([x for x in [0, 2, 3, 4, 5, 6] if 10 * (x if x > 1 else 3) <= q])
        ceff = c if c > 1 else 3
    p = rng.randint(1, 3) if tier == "quick" else rng.randint(1, 20)
    if rng.random() < 0.25:
        # the resource first carries a rule of another kind with the same statistic interval (a throttling rule keeps no
        # statistic, a reject rule does): the warm-up rule that replaces it must get a working statistic (seed C08-e)
        ops.append("flow.load res=r rules=%s" % rng.choice(["t:5:0:d:t:0:0:500", "t:5:1000:d:t:0:0:0", "j:%d:0" % q]))
        if rng.random() < 0.5:
            ops += ["build e=9001 res=r batch=1 dir=out", "exit e=9001", "adv ms=1500"]
    ops.append("flow.load res=r rules=w:%d:0:w:r:%d:%d:0" % (q, p, c))
    ops.append("adv ms=%d" % rng.choice([0, 0, 137, 500, 999]) if rng.random() < 0.7 else "adv ms=1")
    profile = rng.choice(["sat", "sat", "onoff", "onoff", "below", "at"])
    eid = [0]

    def burst(ms, load):
        """offer `load` tokens per second for `ms` milliseconds on the arrival grid"""
        # `load` tokens per second offered as single-token requests: every k-th grid point
        k = max(1, 1000 // (load * grid)) if load * grid <= 1000 else 1
        steps = ms // grid
        per = 1
        for j in range(steps):
            if j % k:
                ops.append("adv ms=%d" % grid)
                continue
            eid[0] += 1
            ops.append("build e=%d res=r batch=%d dir=out" % (eid[0], per))
            if rng.random() < 0.5:
                ops.append("exit e=%d" % eid[0])
            ops.append("adv ms=%d" % grid)

    def per_of(load):
        return 1

    if profile == "sat":
        load = int(q * rng.choice([1.1, 1.5, 2]))
        ops.append("note phase=sat q=%d p=%d c=%d per=%d" % (q, p, ceff, per_of(load)))
        burst((2 * p + 3) * 1000, load)
        ops.append("note phase=end")
    elif profile == "below":
        burst((p + 2) * 1000, max(1, q // ceff // 2))
        burst(2000, 2 * q)
    elif profile == "at":
        burst((2 * p + 2) * 1000, q)
    else:
        burst(rng.choice([1, 2, 2 * p + 2]) * 1000, 2 * q)
        gap = rng.choice([0, 1, p, 2 * p - 1, 2 * p, 2 * p + 1, 3 * p, 5 * p]) * 1000 + rng.choice([0, 1, 500])
        if gap:
            ops.append("adv ms=%d" % gap)
        if gap >= 2 * p * 1000:
            ops.append("note phase=cold q=%d p=%d c=%d per=%d" % (q, p, ceff, per_of(2 * q)))
        burst(rng.choice([2, 3, p + 2]) * 1000, 2 * q)
        if gap >= 2 * p * 1000:
            ops.append("note phase=end")
    ops.append("ctrl res=r")
    return ops


def gen(rng, tier):
    n = 60 if tier == "quick" else 3000
    return [gen_case(rng, tier) for _ in range(n)]
