#!/usr/bin/env python3
"""C15 translator step (runs before the Lean build): executes every manager function of every family, the entry / exit
paths (incl. breaker transitions with a listener that calls back into read-only manager functions) on the real code in
single-thread recording mode, extracts the acquire/release sequence of each operation and writes
lean/SentinelProofs/Generated/LockTraces.lean (locks as numbers, a rank table, the traces). The Lean side then proves by
`decide` that every trace respects the ranking, and instantiates the general no-deadlock theorem.

A lock's identity is its class: construction site + guarded type. `try_lock` acquisitions never block and are left out
(the only ones are the leap array's per-bucket reset locks, released before anything else is acquired)."""
import os, subprocess, sys, re, json

VERIF = os.path.dirname(os.path.dirname(os.path.abspath(__file__)))
HARNESS = os.path.join(VERIF, "harness")
HBIN = os.path.join(HARNESS, "target", "debug", "harness")
OUT = os.path.join(VERIF, "lean", "SentinelProofs", "Generated", "LockTraces.lean")
WORK = os.path.join(VERIF, ".work")

SETUP = ["clock", "listener callback=1",
         "m fam=flow op=loadall rules=a1@r1@t3,a2@r1@w9",
         "m fam=iso op=loadall rules=a1@r1@c2",
         "m fam=hs op=loadall rules=a1@r1@q2,a2@r1@c3",
         "m fam=br op=loadall rules=a1@r1@e2,a2@r1@r5,a3@r1@s5",
         "m fam=sys op=loadall rules=a1@x@c3"]

POOL = {"flow": ["t3", "t5", "w9", "xneg"], "iso": ["c1", "c2", "xzero"], "hs": ["q2", "q4", "c3", "xdur"], "br": ["e2", "e3", "r5", "s5", "xivl"], "sys": ["q5", "c3", "l5", "xneg"]}


def atoms():
    cases = []
    for fam, keys in POOL.items():
        ops = []
        k0, k1, kx = keys[0], keys[1], keys[-1]
        ops.append(f"m fam={fam} op=get")
        ops.append(f"m fam={fam} op=loadall rules=b1@r1@{k1},b2@r2@{k0}")          # replaces: new controllers, old ones dropped
        ops.append(f"m fam={fam} op=loadall rules=b1@r1@{k1},b2@r2@{k0}")          # unchanged
        ops.append(f"m fam={fam} op=append rule=b3@r1@{k0}")
        ops.append(f"m fam={fam} op=append rule=b4@r3@{kx}")                       # invalid
        ops.append(f"m fam={fam} op=append rule=b3@r1@{k0}")                       # exists
        if fam != "sys":
            ops.append(f"m fam={fam} op=getres res=r1")
            ops.append(f"m fam={fam} op=loadres res=r1 rules=c1@r1@{k0}")
            ops.append(f"m fam={fam} op=loadres res=r1 rules=c1@r1@{k0}")
            ops.append(f"m fam={fam} op=loadres res=r2 rules=")
            ops.append(f"m fam={fam} op=loadres res=r1 rules=c9@r1@{kx}")          # only invalid
            ops.append(f"m fam={fam} op=clearres res=r1")
        ops.append(f"m fam={fam} op=loadall rules=d1@r1@{k0}")
        ops.append(f"m fam={fam} op=loadall rules=d1@r1@{k1}")                       # one parameter changed: the old controller's statistic is taken over, the old controller retired
        if fam != "sys":
            ops.append(f"m fam={fam} op=loadres res=r1 rules=d1@r1@{k0}")           # the same through load-for-resource
        ops.append(f"m fam={fam} op=clear")
        cases.append((f"mgr-{fam}", ops))
    # entries: pass, block, error completions tripping the breaker, probe after the retry time, recovery
    ent = ["build res=r1 dir=in", "exit", "build res=r1 dir=out", "exit err=1", "build res=r1 dir=in", "exit err=1", "build res=r1 dir=in", "exit err=1",
           "build res=r1 dir=in", "adv ms=1100", "build res=r1 dir=in", "exit", "build res=r1 dir=in", "exit", "build res=r2 dir=in", "exit", "brstate res=r1"]
    cases.append(("entry", ent))
    # a half-open probe that fails, and a blocked entry (rollback exit hooks)
    ent2 = ["build res=r1 dir=in", "exit err=1", "build res=r1 dir=in", "exit err=1", "build res=r1 dir=in", "exit err=1", "adv ms=1100", "build res=r1 dir=in", "exit err=1",
            "adv ms=1100", "build res=r1 dir=in batch=9", "build res=r1 dir=in", "exit", "exit"]
    cases.append(("entry-probe-fails", ent2))
    return cases


def run_cases(cases):
    os.makedirs(WORK, exist_ok=True)
    text = []
    for name, ops in cases:
        text.append(f"case {name}")
        text += SETUP
        text += [f"t0 {o}" for o in ops]
        text.append("run choices=")
    env = dict(os.environ, CARGO_NET_OFFLINE="true", VERIF_WORK=WORK)
    p = subprocess.run([HBIN, "exec", "C15"], input="\n".join(text) + "\n", capture_output=True, text=True, env=env)
    out = {}
    cur = None
    for line in p.stdout.splitlines():
        if line.startswith("case "):
            cur = line[5:]
        elif line.startswith("run ") and " -> " in line:
            out[cur] = line.split(" -> ", 1)[1]
    return out


EXEMPT = [0]      # state-lock acquisitions inside BreakerBase::drop left out (see parse)


def klass(name):
    return name.rsplit("#", 1)[0]


def parse(obs, ops):
    """-> list of (op text, [(kind, lock class)]) ; kind in acq/rel"""
    m = re.search(r" log=(.*)$", obs)
    events = m.group(1).split(";") if m else []
    per_op, cur, tried = [], [], set()
    last_try = None
    exempt = EXEMPT
    for e in events:
        tok = e.split("~")
        if len(tok) < 2:
            continue
        if tok[1] in ("acq-w", "acq-r"):
            cur.append(("acq", klass(tok[2])))
        elif tok[1] in ("try-w", "try-r"):
            last_try = tok[2]
        elif tok[1] == "got":
            if last_try == tok[2]:
                tried.add(tok[2])
            last_try = None
        elif tok[1] == "busy":
            last_try = None
        elif tok[1] == "rel":
            if tok[2] in tried:
                tried.discard(tok[2])
            else:
                cur.append(("rel", klass(tok[2])))
        elif tok[1] == "note" and len(tok) > 2 and tok[2].startswith("ev="):
            # a listener notification; it does not end an operation. The drop notification is preceded by
            # `current_state()` of the breaker being dropped: that breaker is unreachable by any other thread
            # (ownership: it is inside its own Drop), so this acquisition cannot block and is left out of the ranking.
            if ">Dropped" in tok[2] and len(cur) >= 2 and cur[-1][0] == "rel" and cur[-2] == ("acq", cur[-1][1]) and cur[-1][1].endswith(":State"):
                cur = cur[:-2]
                exempt[0] += 1
        elif tok[1] == "note":
            per_op.append(cur)
            cur = []
    res = []
    for i, o in enumerate(ops):
        res.append((o, per_op[i] if i < len(per_op) else None))
    incomplete = ("deadlock=1" in obs) or any(x is None for _, x in res)
    return res, incomplete, cur


def main():
    rc = subprocess.run(["cargo", "build", "--offline"], cwd=HARNESS, capture_output=True, text=True, env=dict(os.environ, CARGO_NET_OFFLINE="true"))
    if rc.returncode != 0:
        lock = "/repo/Cargo.lock"
        if os.path.exists(lock):
            import shutil
            shutil.copy(lock, os.path.join(HARNESS, "Cargo.lock"))
            rc = subprocess.run(["cargo", "build", "--offline"], cwd=HARNESS, capture_output=True, text=True, env=dict(os.environ, CARGO_NET_OFFLINE="true"))
    if rc.returncode != 0:
        # keep the previously generated file: the cargo stage of ./check reports the build failure
        print("harness does not build; LockTraces.lean left as it is")
        return 0
    cases = atoms()
    obs = run_cases(cases)
    traces = []      # (name, [(kind, class)])
    problems = []
    for name, ops in cases:
        if name not in obs:
            problems.append(f"{name}: no output (child died)")
            continue
        res, incomplete, tail = parse(obs[name], ops)
        for i, (o, seq) in enumerate(res):
            if seq is None:
                continue
            traces.append((f"{name}/{i}:{o}", seq))
        if incomplete:
            # the operation that did not finish: its partial trace, closed by the releases that never came, is still a trace
            problems.append(f"{name}: an operation did not return ({'deadlock' if 'deadlock=1' in obs[name] else 'abort'}); partial trace kept")
            if tail:
                held = []
                for k, c in tail:
                    if k == "acq":
                        held.append(c)
                    elif c in held:
                        held.remove(c)
                traces.append((f"{name}/unfinished", tail + [("rel", c) for c in reversed(held)]))
    # lock classes and a rank: topological order of "held while acquiring"
    classes = sorted({c for _, seq in traces for _, c in seq})
    idx = {c: i for i, c in enumerate(classes)}
    edges = set()
    edge_ops = {}
    for tname, seq in traces:
        held = []
        for k, c in seq:
            if k == "acq":
                for h in held:
                    edges.add((h, c))
                    edge_ops.setdefault((h, c), tname.split(":", 1)[1] if ":" in tname else tname)
                held.append(c)
            elif c in held:
                held.remove(c)
    # operations that take two locks in opposite orders (or one lock twice): candidates for a deadlocking schedule
    inversions = []
    for (a, b), op1 in sorted(edge_ops.items()):
        if a == b:
            inversions.append({"locks": [a, b], "ops": [op1, op1]})
        elif (b, a) in edge_ops and a < b:
            inversions.append({"locks": [a, b], "ops": [op1, edge_ops[(b, a)]]})
    # Kahn; on a cycle the remaining nodes get the next ranks in name order (the Lean check then fails and names the trace)
    indeg = {c: 0 for c in classes}
    for a, b in edges:
        if a != b:
            indeg[b] += 1
    order, ready = [], sorted(c for c in classes if indeg[c] == 0)
    es = set(e for e in edges if e[0] != e[1])
    while ready:
        c = ready.pop(0)
        order.append(c)
        for (a, b) in sorted(es):
            if a == c:
                es.discard((a, b))
                indeg[b] -= 1
                if indeg[b] == 0:
                    ready.append(b)
        ready.sort()
    cyclic = [c for c in classes if c not in order]
    order += cyclic
    rank = {c: i + 1 for i, c in enumerate(order)}
    # distinct traces only
    seen, uniq = set(), []
    for name, seq in traces:
        key = tuple(seq)
        if key in seen or not seq:
            continue
        seen.add(key)
        uniq.append((name, seq))
    os.makedirs(os.path.dirname(OUT), exist_ok=True)
    with open(OUT, "w") as f:
        f.write("import Sentinel.Conc\n/-! GENERATED by gen/C15_pre_lean.py from executions of /repo's current working tree — do not edit. -/\n")
        f.write("namespace Sentinel.Conc.Generated\nopen Sentinel.Conc\n\n")
        f.write("/-- lock classes (construction site : guarded type), index = lock number -/\ndef lockNames : List String := [\n")
        f.write(",\n".join(f'  "{c}"' for c in classes) + "]\n\n")
        f.write("/-- rank of each lock: a topological order of the relation \"held while acquiring\" over all recorded traces -/\ndef rankTable : List Nat := [" + ", ".join(str(rank[c]) for c in classes) + "]\n\n")
        f.write("def rankOf (l : Lock) : Nat := rankTable.getD l 0\n\n")
        f.write("/-- one entry per distinct acquire/release sequence observed; the name is the first operation that produced it -/\ndef traces : List (String × List Act) := [\n")
        lines = []
        for name, seq in uniq:
            acts = ", ".join((".acq %d" if k == "acq" else ".rel %d") % idx[c] for k, c in seq)
            lines.append(f'  ("{name}", [{acts}])')
        f.write(",\n".join(lines) + "]\n\n")
        f.write("end Sentinel.Conc.Generated\n")
    summary = {"lock_classes": len(classes), "traces": len(uniq), "operations_recorded": len(traces), "nested_pairs": len(edges), "cycle_among": cyclic, "inversions": inversions, "setup": SETUP, "problems": problems,
               "exempted_acquisitions": {"state mutex of a breaker inside its own Drop (unreachable by other threads)": EXEMPT[0]}}
    with open(os.path.join(WORK, "C15_traces.json"), "w") as f:
        json.dump(summary, f, indent=1)
    print(json.dumps(summary))
    return 0


if __name__ == "__main__":
    sys.exit(main())
