"""C11 generator: traffic histories with reloads inserted at arbitrary points (equal rules under new ids / other order /
with unrelated resources added, removed or changed; via load-for-resource and load-all), and reloads with a changed rule."""
import importlib.util as _ilu, os as _os
_ms = _ilu.spec_from_file_location("worldmix", _os.path.join(_os.path.dirname(__file__), "worldmix.py")); MIX = _ilu.module_from_spec(_ms); _ms.loader.exec_module(MIX)
LEVEL = "proof"
MODEL = "lean/Sentinel/World.lean (rebuildCtrls, loadFlow / loadHs / loadBr) + the transparency Spec (shadow history) in DriverWorld"
RULE = ("families: flow reject on the global window, on a private window, flow throttling, warm-up; hotspot QPS reject / throttling / concurrency; circuit breaker. One stateful rule "
        "per resource (plus reject siblings), a traffic history of 8..40 events with 1..4 reloads inserted at random points: same rules with fresh ids, shuffled order, identical ids, "
        "a changed parameter, by load-for-resource or load-all with unrelated resources added/removed/changed; for breakers the reload lands while Open / Half-Open as well. "
        "Non-trivial: at least one reload of an unchanged rule set followed by a decision that depends on the kept state; distinct = distinct op text.")
NONTRIVIAL_TAGS = ["transparent-checked"]
ASSUMPTIONS = ["transparency is asserted for resources with one stateful controller or only reject controllers (with several stateful controllers their order, which a reload may change, influences behaviour even without reloads)"]
TRUSTED = []
KEEP_PREFIX = 1


def reload_ops(rng, fam, res, rules, counter, others):
    """rules: list of (id, body). returns op lines for a reload of the same rules; with probability 1/5 one parameter of the
    first rule is changed (the list `rules` is updated in place, so that later reloads repeat the changed rule)"""
    sep = ":" if fam == "flow" else ";"
    kind = rng.choice(["newids", "newids", "sameids", "shuffle"])
    if rng.random() < 0.2:
        rules[0] = (rules[0][0], mutate(rng, fam, rules[0][1]))
        kind = "newids"
    rs = list(rules)
    if kind == "shuffle":
        rng.shuffle(rs)
    specs = []
    for j, body in enumerate(rs):
        if kind == "sameids":
            rid = body[0]
        else:
            counter[0] += 1
            rid = "%s%d" % (body[0][0], counter[0])
        specs.append(rid + sep + body[1])
    if rng.random() < 0.6:
        return ["%s.load res=%s rules=%s" % (fam, res, ",".join(specs))]
    # load-all: this resource plus unrelated ones (added / changed / removed)
    items = ["%s/%s" % (res, s) for s in specs]
    also = []
    for o in others:
        if rng.random() < 0.6:
            counter[0] += 1
            if fam == "flow":
                items.append("%s/z%d:%s:0" % (o, counter[0], rng.choice(["3", "5", "100"])))
            elif fam == "hs":
                items.append("%s/z%d;q;r;0;;%d;0;0;1;0;" % (o, counter[0], rng.randint(1, 5)))
            else:
                items.append("%s/z%d;c;1000;1;1000;1;50;%d" % (o, counter[0], rng.randint(1, 3)))
        else:
            also.append(o)
    line = "%s.loadall rules=%s" % (fam, ",".join(items))
    if also:
        line += " also=%s" % ",".join(also)
    return [line]


def mutate(rng, fam, body):
    """change exactly one parameter of a rule body (the text after the id)"""
    sep = ":" if fam == "flow" else ";"
    p = body.split(sep)
    if fam == "flow":
        # thr:ivl[:calc:ctl:period:cold:maxq]
        while len(p) < 7:
            p.append(["", "0", "d", "r", "0", "0", "0"][len(p)])
        idx = rng.choice([0, 1] + ([6] if p[3] == "t" else []) + ([4] if p[2] == "w" else []))
        if idx == 0:
            p[0] = str(int(p[0].split("/")[0]) + rng.choice([1, 2, 5]))
        elif idx == 1:
            p[1] = str({"0": 2000, "1000": 500, "500": 1000, "2000": 0, "1500": 3000, "3000": 700, "700": 1500}.get(p[1], 1000))
        elif idx == 6:
            p[6] = str(int(p[6]) + rng.choice([100, 1000]))
        else:
            p[4] = str(int(p[4]) + 1)
    elif fam == "hs":
        # metric;strategy;idx;key;thr;maxq;burst;dur;cap;spec
        idx = rng.choice([4, 4, 7, 9, 9] + ([6] if p[1] == "r" and p[0] == "q" else []) + ([5] if p[1] == "t" else []))
        if idx == 9:
            # only the per-value overrides change (seed C06-e): add, change or remove the override of value `a`
            while len(p) < 10:
                p.append("")
            cur = dict(kv.split("=") for kv in p[9].split("|") if kv)
            if "a" in cur and rng.random() < 0.4:
                del cur["a"]
            else:
                cur["a"] = str(int(cur.get("a", "0")) + rng.choice([1, 2, 5]))
            p[9] = "|".join("%s=%s" % kv for kv in sorted(cur.items()))
        else:
            p[idx] = str(int(p[idx]) + rng.choice([1, 2]))
    else:
        # strategy;retry;minreq;ivl;buckets;maxrt;thr
        idx = rng.choice([1, 2, 3, 6])
        if idx == 6:
            p[6] = ({"1": "2", "2": rng.choice(["3", "3/2"]), "3": rng.choice(["1", "5/2"]), "3/2": "2", "5/2": "3"} if p[0] == "c" else {"1/2": "1", "1": "1/4", "1/4": "1/2"}).get(p[6], "1")
        elif idx == 3:
            p[3] = str(int(p[3]) * 2)
        else:
            p[idx] = str(int(p[idx]) + rng.choice([1, 200]))
    return sep.join(p)


def gen_case(rng):
    ops = ["clock"]
    counter = [0]
    others = ["o1", "o2"]
    scen = rng.choice(["reject", "private", "throttle", "warmup", "hsq", "hst", "hsc", "br", "br", "changed"])
    eid = [0]

    def build(extra=""):
        eid[0] += 1
        ops.append("build e=%d res=r batch=1 dir=out%s" % (eid[0], extra))
        return eid[0]

    if scen in ("reject", "private", "throttle", "warmup", "changed"):
        fam = "flow"
        if scen == "reject":
            rules = [("a", "%s:%d" % (rng.choice(["2", "3", "5"]), rng.choice([0, 2000])))]
            if rng.random() < 0.4:
                rules.append(("b", "%s:0" % rng.choice(["4", "7"])))
        elif scen == "private":
            rules = [("a", "%s:%d" % (rng.choice(["2", "3", "5"]), rng.choice([1500, 3000, 700])))]
        elif scen == "throttle":
            rules = [("a", "%s:%d:d:t:0:0:%d" % (rng.choice(["2", "5", "10"]), rng.choice([1000, 500]), rng.choice([500, 2000])))]
        elif scen == "warmup":
            rules = [("a", "%s:0:w:r:%d:%d:0" % (rng.choice(["30", "50"]), rng.randint(1, 2), rng.choice([0, 3])))]
        else:
            rules = [("a", "%s:0" % rng.choice(["2", "3"]))]
        ops.append("flow.load res=r rules=%s" % ",".join(i + ":" + b for i, b in rules))
        n = rng.randint(8, 40)
        reload_at = sorted(rng.sample(range(1, n), min(n - 1, rng.randint(1, 4))))
        for k in range(n):
            if k in reload_at:
                if scen == "changed" and rng.random() < 0.7:
                    counter[0] += 1
                    rules = [("a", "%s:0" % rng.choice(["1", "4", "6"]))]
                    ops.append("flow.load res=r rules=c%d:%s" % (counter[0], rules[0][1]))
                else:
                    ops += reload_ops(rng, fam, "r", rules, counter, others)
            if scen == "warmup":
                ops.append("adv ms=%d" % rng.choice([20, 20, 50, 200, 1000]))
            elif scen == "throttle":
                ops.append("adv ms=%d" % rng.choice([0, 0, 1, 50, 100, 200, 500, 1100]))
            else:
                ops.append("adv ms=%d" % rng.choice([0, 0, 1, 100, 499, 500, 700, 1000, 1600]))
            e = build()
            if rng.random() < 0.5:
                ops.append("exit e=%d" % e)
    elif scen in ("hsq", "hst", "hsc"):
        fam = "hs"
        if scen == "hsq":
            rules = [("h", "q;r;0;;%d;0;%d;%d;0;%s" % (rng.randint(1, 4), rng.randint(0, 2), rng.choice([1, 2]), rng.choice(["", "a=1", "b=3"])))]
        elif scen == "hst":
            rules = [("h", "q;t;0;;%d;%d;0;%d;0;" % (rng.randint(1, 5), rng.choice([100, 600, 2000]), rng.choice([1, 2])))]
        else:
            rules = [("h", "c;r;0;;%d;0;0;0;0;%s" % (rng.randint(1, 3), rng.choice(["", "a=2"])))]
        ops.append("hs.load res=r rules=%s" % ",".join(i + ";" + b for i, b in rules))
        n = rng.randint(8, 40)
        reload_at = sorted(rng.sample(range(1, n), min(n - 1, rng.randint(1, 4))))
        open_ = []
        for k in range(n):
            if k in reload_at:
                ops += reload_ops(rng, fam, "r", rules, counter, others)
            ops.append("adv ms=%d" % rng.choice([0, 0, 1, 100, 300, 500, 999, 1000, 1001, 2100]))
            if scen == "hsc" and open_ and rng.random() < 0.4:
                ops.append("exit e=%d" % open_.pop(rng.randrange(len(open_))))
            else:
                e = build(" args=%s" % rng.choice(["a", "a", "b"]))
                if scen == "hsc":
                    open_.append(e)
                elif rng.random() < 0.5:
                    ops.append("exit e=%d" % e)
    else:
        fam = "br"
        st = rng.choice(["c", "r", "s"])
        ivl = rng.choice([1000, 2000])
        retry = rng.choice([300, 500, 1500])
        thr = rng.choice(["1", "2", "3/2", "5/2"]) if st == "c" else rng.choice(["1/2", "1"])   # error counts need not be whole (applied truncated; seed C11-f)
        rules = [("b", "%s;%d;%d;%d;%d;50;%s" % (st, retry, rng.randint(1, 2), ivl, rng.choice([1, 2]), thr))]
        ops.append("br.load res=r rules=%s" % ",".join(i + ";" + b for i, b in rules))
        ops.append("adv ms=%d" % rng.choice([1, 250]))
        # drive it open, reload while Open / Half-Open, continue
        for _ in range(rng.randint(2, 5)):
            e = build()
            ops.append("adv ms=%d" % rng.choice([60, 80]))
            ops.append("exit e=%d err=1" % e)
            ops.append("br.state res=r")
            if rng.random() < 0.3:
                ops += reload_ops(rng, fam, "r", rules, counter, others)
        ops += reload_ops(rng, fam, "r", rules, counter, others)
        ops.append("br.state res=r")
        ops.append("adv ms=%d" % rng.choice([retry - 1, retry, retry + 1, 10]))
        e1 = build()
        ops.append("br.state res=r")
        if rng.random() < 0.7:
            ops += reload_ops(rng, fam, "r", rules, counter, others)
        e2 = build()
        ops.append("br.state res=r")
        ops.append("adv ms=%d" % rng.choice([1, 40, 70]))
        for e in (e1, e2):
            ops.append("exit e=%d err=%d" % (e, rng.choice([0, 0, 1])))
            ops.append("br.state res=r")
        for _ in range(rng.randint(1, 4)):
            if rng.random() < 0.3:
                ops += reload_ops(rng, fam, "r", rules, counter, others)
            e = build()
            ops.append("adv ms=%d" % rng.choice([1, 60]))
            ops.append("exit e=%d err=%d" % (e, rng.choice([0, 1])))
            ops.append("br.state res=r")
    return ops


def gen_multi(rng):
    """several rules of one resource that can take over each other's statistics, reloaded with EVERY rule changed: each new
    controller must take over the statistics of a different old one (or none), never two of them the same object (seed C06-d)"""
    ops = ["clock"]
    counter = [0]
    fam = rng.choice(["flow", "hs", "br"])
    sep = ":" if fam == "flow" else ";"
    eid = [0]
    n = rng.choice([2, 2, 3])
    if fam == "flow":
        ivl = rng.choice([1500, 3000, 700, 0, 2000])
        rules = [("abc"[j], "%d:%d" % (rng.randint(2, 5), ivl)) for j in range(n)]
    elif fam == "hs":
        d = rng.choice([1, 2])
        cap = rng.choice([0, 0, 1])
        m = rng.choice(["q", "q", "c"])
        rules = [("hgf"[j], "%s;r;%d;%s;%d;0;0;%d;%d;" % (m, [0, 0, 1][j], ["", "k", ""][j], rng.randint(1, 3), d if m == "q" else 0, cap)) for j in range(n)]
    else:
        st = rng.choice(["c", "r"])
        ivl = rng.choice([1000, 2000])
        rules = [("bde"[j], "%s;%d;1;%d;%d;50;%s" % (st, rng.choice([300, 1500]), ivl, 1, (str(j + 1) if st == "c" else ["1/2", "1", "1/4"][j]))) for j in range(n)]

    def load():
        specs = []
        for rid, body in rules:
            counter[0] += 1
            specs.append("%s%d%s%s" % (rid, counter[0], sep, body))
        if rng.random() < 0.5:
            specs.reverse()
        ops.append("%s.load res=r rules=%s" % (fam, ",".join(specs)))

    def change_all():
        for j, (rid, body) in enumerate(rules):
            p = body.split(sep)
            if fam == "flow":
                p[0] = str(int(p[0]) + rng.choice([1, 2]))
            elif fam == "hs":
                p[4] = str(int(p[4]) + rng.choice([1, 2]))
            else:
                p[1] = str(int(p[1]) + rng.choice([1, 200]))          # retry timeout: state-free parameter
            rules[j] = (rid, sep.join(p))

    load()
    steps = rng.randint(10, 30)
    reload_at = sorted(rng.sample(range(2, steps), rng.choice([1, 2])))
    open_ = []
    for k in range(steps):
        if k in reload_at:
            change_all()
            load()
        ops.append("adv ms=%d" % rng.choice([0, 0, 1, 50, 100, 300, 499, 500, 700, 1000]))
        eid[0] += 1
        extra = ""
        if fam == "hs":
            v = rng.choice(["a", "a", "b"])
            extra = " args=%s,%s atts=k:%s" % (v, v, v) if rng.random() < 0.6 else " args=a,c atts=k:b"
        ops.append("build e=%d res=r batch=1 dir=out%s" % (eid[0], extra))
        if fam == "br":
            ops.append("adv ms=%d" % rng.choice([1, 60]))
            ops.append("exit e=%d err=%d" % (eid[0], rng.choice([0, 1, 1])))
            ops.append("br.state res=r")
        elif fam == "hs" and "c;" in rules[0][1][:2]:
            open_.append(eid[0])
            if rng.random() < 0.4:
                ops.append("exit e=%d" % open_.pop(rng.randrange(len(open_))))
        elif rng.random() < 0.5:
            ops.append("exit e=%d" % eid[0])
    return ops


def gen_switch(rng):
    """a resource's only flow rule is replaced by a rule of another kind with the same statistic interval (throttling keeps no
    statistic; reject and warm-up do): the new rule takes effect at once, on a statistic of its own kind (seed C08-e)"""
    ops = ["clock"]
    ivl = rng.choice([0, 1000, 2000, 1500])
    kinds = {"thr": "%d:%d:d:t:0:0:%d" % (rng.choice([2, 5]), ivl, rng.choice([0, 500])),
             "rej": "%d:%d" % (rng.choice([2, 3, 5]), ivl),
             "warm": "%d:%d:w:r:%d:3:0" % (rng.choice([30, 50]), ivl if ivl in (0, 1000) else 0, rng.randint(1, 2))}
    order = rng.sample(list(kinds), rng.choice([2, 3]))
    eid = 0
    for gno, k in enumerate(order):
        ops.append("flow.load res=r rules=%s%d:%s" % (k[0], gno, kinds[k]))
        for _ in range(rng.randint(4, 14)):
            ops.append("adv ms=%d" % rng.choice([0, 0, 1, 20, 100, 300, 500, 1000]))
            eid += 1
            ops.append("build e=%d res=r batch=1 dir=out" % eid)
            if rng.random() < 0.5:
                ops.append("exit e=%d" % eid)
    return ops


def threshold_only_case(rng):
    """a breaker rule reloaded with ONLY its threshold changed, between values that round to the same whole number one way
    and to different ones the other way (3/2 <-> 2, 5/2 <-> 3, 5/2 <-> 2 for error counts; 1/2 <-> 1/4 <-> 1 for ratios): the new
    threshold decides from the next completion on (seed C11-f: rule equality compared the rounded-up count)"""
    ops = ["clock"]
    st = rng.choice(["c", "c", "r", "s"])
    pairs = [("3/2", "2"), ("2", "3/2"), ("5/2", "3"), ("3", "5/2"), ("5/2", "2"), ("1", "3/2")] if st == "c" else [("1/2", "1/4"), ("1/4", "1/2"), ("1/2", "1")]
    a, b = rng.choice(pairs)
    body = "%s;1500;1;%d;%d;50;" % (st, rng.choice([1000, 2000]), rng.choice([1, 2]))
    ops.append("br.load res=r rules=b;%s%s" % (body, a))
    ops.append("adv ms=1")
    eid = [0]

    def one(err):
        eid[0] += 1
        ops.append("build e=%d res=r batch=1 dir=out" % eid[0])
        ops.append("adv ms=%d" % rng.choice([1, 60]))
        ops.append("exit e=%d err=%d" % (eid[0], err))
        ops.append("br.state res=r")
    if rng.random() < 0.5:
        one(0)
    # the reload, under the same id or another one, with an unrelated resource's rule alongside or not
    extra = rng.choice(["", ",o/z1;c;1000;1;1000;1;50;2"])
    ops.append("br.load res=r rules=%s;%s%s%s" % (rng.choice(["b", "b2"]), body, b, extra))
    for _ in range(rng.randint(3, 5)):
        one(1 if rng.random() < 0.8 else 0)
    return ops


def gen_own(rng, tier):
    n = 500 if tier == "quick" else 25000
    return [gen_switch(rng) if i % 10 == 3 else threshold_only_case(rng) if i % 10 == 6 else gen_case(rng) if i % 5 else gen_multi(rng) for i in range(n)]


def gen(rng, tier):
    """the property's own streams, with every 8th case taken from the shared mixed-world stream (gen/worldmix.py)"""
    cases = gen_own(rng, tier)
    return [c if i % 8 != 7 else MIX.gen_mix(rng) for i, c in enumerate(cases)]
