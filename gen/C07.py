"""C07 generator: flow throttling rules and hotspot QPS throttling rules under a virtual clock (ns)."""
import importlib.util as _ilu, os as _os
_ms = _ilu.spec_from_file_location("worldmix", _os.path.join(_os.path.dirname(__file__), "worldmix.py")); MIX = _ilu.module_from_spec(_ms); _ms.loader.exec_module(MIX)
LEVEL = "proof"
MODEL = "lean/Sentinel/World.lean (throttleCheck, FlowCtrl.step, flowSlot) and Sentinel/Hotspot.lean (throttleCost, HsCtrl.checkThrottle) + World.hsSlot"
RULE = ("flow: one direct/throttling rule (sometimes two, or together with a reject rule), rate from {0,1,2,5,10,100,1000,5/2} per {100,500,1000,2000,10000} ms, "
        "max queueing {0,1,50,500,2000} ms, batch 0..4, arrivals in bursts at one instant, 1 ns before/after the scheduled slot, and at random; "
        "hotspot: one QPS/throttling rule, q 0..10, duration 1..3 s, max queueing {0,1,100,600,2000} ms, 1-3 values, same arrival pattern in ms. "
        "Non-trivial: at least one queued (waiting) admission and one rejection; distinct = distinct op text.")
NONTRIVIAL_TAGS = ["flow-wait", "hotspot-wait"]
ASSUMPTIONS = ["sequential callers (the compare-exchange retry paths are not exercised)", "the virtual sleep hook advances the virtual clock, so 'held until scheduled' is observable as the clock after build"]
TRUSTED = ["soft-float expression of the throttling interval (batch/threshold*interval_ns) is compared with Rust through the waits it produces"]
KEEP_PREFIX = 1


def flow_case(rng):
    ops = ["clock"]
    thr = rng.choice(["0", "1", "2", "5", "10", "100", "1000", "5/2", "1/2"])
    ivl = rng.choice([0, 100, 500, 1000, 2000, 10000])
    maxq = rng.choice([0, 1, 50, 500, 2000])
    rules = ["t:%s:%d:d:t:0:0:%d" % (thr, ivl, maxq)]
    x = rng.random()
    if x < 0.15:
        rules.append("u:%s:%d:d:t:0:0:%d" % (rng.choice(["1", "4", "20"]), rng.choice([0, 1000, 300]), rng.choice([0, 100, 3000])))
    elif x < 0.3:
        rules.append("r:%s:0" % rng.choice(["1", "3", "1000"]))
    ops.append("flow.load res=r rules=" + ",".join(rules))
    # nominal spacing in ns for batch 1
    try:
        num, den = (thr.split("/") + ["1"])[:2]
        rate = int(num) / int(den)
    except Exception:
        rate = 0
    base = ivl if ivl else 1000
    sp = int(base * 1e6 / rate) if rate > 0 else 1000000
    eid = 0
    ops.append("adv ms=%d" % rng.choice([1, 777, 5000]))
    for _ in range(rng.randint(5, 40)):
        g = rng.choice(["0", "0", "0", "1ns", "sp-1", "sp", "sp+1", "half", "2sp", "rand", "maxq"])
        d = {"0": 0, "1ns": 1, "sp-1": sp - 1, "sp": sp, "sp+1": sp + 1, "half": sp // 2, "2sp": 2 * sp + 3, "rand": rng.randint(0, 3 * sp), "maxq": maxq * 1000000}[g]
        if d > 0:
            ops.append("adv ns=%d" % d)
        eid += 1
        ops.append("build e=%d res=r batch=%d dir=out" % (eid, rng.choice([0, 1, 1, 1, 1, 2, 3, 4])))
        if rng.random() < 0.5:
            ops.append("exit e=%d%s" % (eid, " err=1" if rng.random() < 0.25 else ""))   # a traced error must not change admission/accounting
    return ops


def hs_case(rng):
    ops = ["clock"]
    q = rng.choice([0, 1, 2, 3, 5, 10, 7])
    d = rng.choice([1, 1, 2, 3])
    maxq = rng.choice([0, 1, 100, 600, 2000])
    vals = ["a", "b", "c"][:rng.randint(1, 3)]
    spec = []
    if rng.random() < 0.3:
        spec = [(rng.choice(vals), rng.choice([0, 1, 4]))]
    ops.append("hs.load res=r rules=h;q;t;0;;%d;%d;0;%d;0;%s" % (q, maxq, d, "|".join("%s=%d" % kv for kv in spec)))
    sp = int(d * 1000 / q) if q else 1000
    eid = 0
    ops.append("adv ms=%d" % rng.choice([1, 777, 5000]))
    for _ in range(rng.randint(5, 40)):
        g = rng.choice(["0", "0", "0", "1", "sp-1", "sp", "sp+1", "2sp", "rand", "maxq", "maxq-1"])
        dt = {"0": 0, "1": 1, "sp-1": max(sp - 1, 0), "sp": sp, "sp+1": sp + 1, "2sp": 2 * sp + 3, "rand": rng.randint(0, 3 * sp), "maxq": maxq, "maxq-1": max(maxq - 1, 0)}[g]
        if dt > 0:
            ops.append("adv ms=%d" % dt)
        eid += 1
        ops.append("build e=%d res=r batch=%d dir=out args=%s" % (eid, rng.choice([1, 1, 1, 2, 3]), rng.choice(vals)))
        if rng.random() < 0.5:
            ops.append("exit e=%d%s" % (eid, " err=1" if rng.random() < 0.25 else ""))   # a traced error must not change admission/accounting
    return ops


def reload_case(rng):
    """a throttling rule re-loaded with ONLY its pacing interval (flow: stat_interval_ms; hotspot: duration) or its maximum
    queueing time changed: the new pace / bound applies to the very next request (seed C07-e: the manager took the change for
    'the same rule')"""
    ops = ["clock"]
    flow = rng.random() < 0.6
    thr = rng.choice([2, 5, 10])
    ivl = rng.choice([1000, 500, 2000])
    maxq = rng.choice([500, 2000, 5000])
    d = rng.choice([1, 2])
    gen_no = [0]

    def load():
        gen_no[0] += 1
        if flow:
            ops.append("flow.load res=r rules=t%d:%d:%d:d:t:0:0:%d" % (gen_no[0], thr, ivl, maxq))
        else:
            ops.append("hs.load res=r rules=h%d;q;t;0;;%d;%d;0;%d;0;" % (gen_no[0], thr, maxq, d))

    load()
    ops.append("adv ms=%d" % rng.choice([1, 777]))
    eid = 0
    reload_at = sorted(rng.sample(range(2, 12), rng.choice([1, 2])))
    for k in range(rng.randint(10, 24)):
        if k in reload_at:
            if rng.random() < 0.7:
                if flow:
                    ivl = {1000: 10000, 500: 3000, 2000: 500, 10000: 1000, 3000: 500}.get(ivl, 1000)
                else:
                    d = 3 - d if d in (1, 2) else 1
            else:
                maxq = {500: 2000, 2000: 100, 5000: 500, 100: 5000}.get(maxq, 500)
            load()
        ops.append("adv ms=%d" % rng.choice([0, 0, 1, 50, 100, 200, 500, 1100]))
        eid += 1
        ops.append("build e=%d res=r batch=1 dir=out%s" % (eid, "" if flow else " args=a"))
        if rng.random() < 0.5:
            ops.append("exit e=%d" % eid)
    return ops


def gen_own(rng, tier):
    n = 300 if tier == "quick" else 15000
    return [flow_case(rng) if i % 6 else reload_case(rng) for i in range(n)] + [hs_case(rng) for _ in range(n)]


def gen(rng, tier):
    """the property's own streams, with every 8th case taken from the shared mixed-world stream (gen/worldmix.py)"""
    cases = gen_own(rng, tier)
    return [c if i % 8 != 7 else MIX.gen_mix(rng) for i, c in enumerate(cases)]
