//! C02: LeapArray / BucketLeapArray / SlidingWindowMetric driven directly (re-export hook).
use crate::common::*;
use sentinel_core::base::{MetricEvent, ReadStat};
use sentinel_core::stat::{BucketLeapArray, SlidingWindowMetric};
use sentinel_core::utils::verif_clock;
use std::collections::HashMap;
use std::sync::Arc;

pub struct Exec {
    arr: Option<Arc<BucketLeapArray>>,
    readers: HashMap<String, SlidingWindowMetric>,
}

impl Exec {
    pub fn new(_case_no: u64) -> Self {
        Exec { arr: None, readers: HashMap::new() }
    }
}

pub fn kind(s: &str) -> MetricEvent {
    match s {
        "pass" => MetricEvent::Pass,
        "block" => MetricEvent::Block,
        "complete" => MetricEvent::Complete,
        "error" => MetricEvent::Error,
        "rt" => MetricEvent::Rt,
        _ => panic!("harness: bad kind"),
    }
}
pub const KINDS: [MetricEvent; 5] =
    [MetricEvent::Pass, MetricEvent::Block, MetricEvent::Complete, MetricEvent::Error, MetricEvent::Rt];

impl CaseExec for Exec {
    fn step(&mut self, op: &Op) -> String {
        match op.name.as_str() {
            "new" => match BucketLeapArray::new(op.u("n") as u32, op.u("iv") as u32) {
                Ok(a) => {
                    self.arr = Some(Arc::new(a));
                    self.readers.clear();
                    "ok".into()
                }
                Err(_) => "err".into(),
            },
            "reader" => {
                let inner = self.arr.clone().expect("harness: no array");
                match SlidingWindowMetric::new(op.u("sc") as u32, op.u("iv") as u32, inner) {
                    Ok(r) => {
                        self.readers.insert(op.s("id"), r);
                        "ok".into()
                    }
                    Err(_) => "err".into(),
                }
            }
            "add" => {
                let a = self.arr.as_ref().expect("harness: no array");
                match a.add_count_with_time(op.u("t"), kind(&op.s("k")), op.u("c")) {
                    Ok(()) => "ok".into(),
                    Err(_) => "err".into(),
                }
            }
            "conc" => {
                let a = self.arr.as_ref().expect("harness: no array");
                match a.update_concurrency_with_time(op.u("t"), op.u("c") as u32) {
                    Ok(()) => "ok".into(),
                    Err(_) => "err".into(),
                }
            }
            "count" => {
                let a = self.arr.as_ref().expect("harness: no array");
                let t = op.u("t");
                let v: Vec<String> = KINDS.iter().map(|k| a.count_with_time(t, *k).to_string()).collect();
                format!("c={}", v.join(","))
            }
            "read" => {
                let id = op.s("id");
                let r = match self.readers.get(&id) {
                    Some(r) => r,
                    None => return "noreader".into(),
                };
                let t = op.u("t");
                verif_clock::enable(t * 1_000_000);
                let s: Vec<String> = KINDS.iter().map(|k| r.sum_with_time(t, *k).to_string()).collect();
                let q = r.qps_with_time(t, MetricEvent::Pass);
                let q2 = r.qps(MetricEvent::Complete);
                let qp = r.qps_previous(MetricEvent::Pass);
                let out = format!(
                    "s={} q={} qc={} qp={} a={} m={} xb={} xc={}",
                    s.join(","),
                    f64_exact(q),
                    f64_exact(q2),
                    f64_exact(qp),
                    f64_exact(r.avg_rt()),
                    f64_exact(r.min_rt()),
                    r.max_of_single_bucket(MetricEvent::Pass),
                    r.max_concurrency()
                );
                verif_clock::disable();
                out
            }
            _ => panic!("harness: unknown op {}", op.name),
        }
    }
}
