//! C17: initialisation with a configuration (by entity / by YAML text), then resources touched on the initialising thread
//! and on another thread; the effective window geometry is observed through the accessors and through window behaviour
//! under the virtual clock. One child process per case (configuration is process state).
use crate::common::*;
use sentinel_core::base::{MetricEvent, ReadStat, ResourceType, StatNode, WriteStat};
use sentinel_core::config::{self, ConfigEntity};
use sentinel_core::utils::verif_clock;
use sentinel_core::{stat, Result};

pub struct Exec {
    case_no: u64,
}

impl Exec {
    pub fn new(case_no: u64) -> Self {
        verif_clock::enable(T0_NS + case_no * 3_600_000_000_000);
        Exec { case_no }
    }
}

fn entity_of(op: &Op) -> ConfigEntity {
    let mut e = ConfigEntity::new();
    e.config.stat.sample_count_total = op.u("sct") as u32;
    e.config.stat.interval_ms_total = op.u("ivt") as u32;
    e.config.stat.sample_count = op.u("sc") as u32;
    e.config.stat.interval_ms = op.u("iv") as u32;
    // no background collectors, no cached clock: the case drives the clock
    e.config.stat.system.system_interval_ms = 0;
    e.config.stat.system.load_interval_ms = 0;
    e.config.stat.system.cpu_interval_ms = 0;
    e.config.stat.system.memory_interval_ms = 0;
    e.config.use_cache_time = false;
    e.config.log.metric.flush_interval_sec = 0;
    if let Some(v) = op.get("ver") {
        e.version = if v == "-" { String::new() } else { v.to_string() };
    }
    if let Some(v) = op.get("app") {
        e.config.app.app_name = if v == "-" { String::new() } else { v.to_string() };
    }
    if let Some(v) = op.get("mfc") {
        e.config.log.metric.max_file_count = v.parse().unwrap();
    }
    if let Some(v) = op.get("sfs") {
        e.config.log.metric.single_file_max_size = v.parse().unwrap();
    }
    e
}

fn yaml_of(e: &ConfigEntity) -> String {
    format!(
        "version: \"{}\"\nconfig:\n  app:\n    app_name: \"{}\"\n    app_type: Common\n  log:\n    metric:\n      use_pid: true\n      dir: \"{}\"\n      single_file_max_size: {}\n      max_file_count: {}\n      flush_interval_sec: {}\n    exporter:\n      addr: \"127.0.0.1:9091\"\n      metrics_path: \"/metrics\"\n    config_file: \"none\"\n  stat:\n    sample_count_total: {}\n    interval_ms_total: {}\n    sample_count: {}\n    interval_ms: {}\n    system:\n      system_interval_ms: 0\n      load_interval_ms: 0\n      cpu_interval_ms: 0\n      memory_interval_ms: 0\n  use_cache_time: false\n",
        e.version,
        e.config.app.app_name,
        e.config.log.metric.dir,
        e.config.log.metric.single_file_max_size,
        e.config.log.metric.max_file_count,
        e.config.log.metric.flush_interval_sec,
        e.config.stat.sample_count_total,
        e.config.stat.interval_ms_total,
        e.config.stat.sample_count,
        e.config.stat.interval_ms
    )
}

fn cfg_obs() -> String {
    format!(
        "cfg={},{},{},{}",
        config::global_stat_sample_count_total(),
        config::global_stat_interval_ms_total(),
        config::metric_stat_sample_count(),
        config::metric_stat_interval_ms()
    )
}

type Job = Box<dyn FnOnce() -> String + Send + 'static>;

/// a long-lived second thread (`thread=worker`): it exists from its first use on - also before the initialisation - and is
/// reused, like a pool thread that read the configuration early
fn worker() -> &'static std::sync::Mutex<(std::sync::mpsc::Sender<Job>, std::sync::mpsc::Receiver<std::thread::Result<String>>)> {
    static W: std::sync::OnceLock<std::sync::Mutex<(std::sync::mpsc::Sender<Job>, std::sync::mpsc::Receiver<std::thread::Result<String>>)>> =
        std::sync::OnceLock::new();
    W.get_or_init(|| {
        let (tx, rx) = std::sync::mpsc::channel::<Job>();
        let (rtx, rrx) = std::sync::mpsc::channel::<std::thread::Result<String>>();
        std::thread::spawn(move || {
            for job in rx {
                let r = std::panic::catch_unwind(std::panic::AssertUnwindSafe(job));
                if rtx.send(r).is_err() {
                    break;
                }
            }
        });
        std::sync::Mutex::new((tx, rrx))
    })
}

/// run `f` on the calling thread, on a fresh one (`other`) or on the long-lived worker; a panic over there is re-raised here
fn on_thread<F: FnOnce() -> String + Send + 'static>(which: &str, f: F) -> String {
    if which == "worker" {
        let w = worker().lock().unwrap();
        w.0.send(Box::new(f)).unwrap();
        match w.1.recv().unwrap() {
            Ok(s) => s,
            Err(p) => std::panic::resume_unwind(p),
        }
    } else if which == "other" {
        match std::thread::spawn(f).join() {
            Ok(s) => s,
            Err(p) => std::panic::resume_unwind(p),
        }
    } else {
        f()
    }
}

fn init(op: &Op, dir: &str) -> Result<()> {
    let e = entity_of(op);
    if op.get("by") == Some("yaml") {
        let path = format!("{}/c17-{}.yaml", dir, std::process::id());
        std::fs::write(&path, yaml_of(&e)).unwrap();
        let r = sentinel_core::init_with_config_file(path.clone());
        let _ = std::fs::remove_file(&path);
        r
    } else {
        sentinel_core::init_with_config(e)
    }
}

impl CaseExec for Exec {
    fn step(&mut self, op: &Op) -> String {
        let _ = self.case_no;
        match op.name.as_str() {
            "clock" => format!("t={}", verif_clock::now_ns().unwrap()),
            "adv" => {
                verif_clock::advance_ns(op.u_or("ns", 0) + op.u_or("ms", 0) * 1_000_000);
                "ok".into()
            }
            "init" => {
                let dir = std::env::var("VERIF_WORK").unwrap_or_else(|_| std::env::temp_dir().to_string_lossy().to_string());
                let op2 = op.clone();
                let which = op.get("thread").unwrap_or("main").to_string();
                on_thread(&which, move || match init(&op2, &dir) {
                    Ok(_) => "ok".to_string(),
                    Err(e) => {
                        let m = e.to_string();
                        let code: String = m.chars().filter(|c| c.is_ascii_alphanumeric()).take(32).collect();
                        format!("err code={}", code)
                    }
                })
            }
            // the configuration as this thread sees it
            "cfg" => on_thread(op.get("thread").unwrap_or("main"), cfg_obs),
            // create (or find) the resource's node on the given thread and record `n` passes now
            "touch" => {
                let res = op.s("res");
                let n = op.u_or("n", 1);
                on_thread(op.get("thread").unwrap_or("main"), move || {
                    let node = stat::get_or_create_resource_node(&res, &ResourceType::Common);
                    node.add_count(MetricEvent::Pass, n);
                    format!("ok {}", cfg_obs())
                })
            }
            // the default metric's pass sum, and the sum over a reader of the given geometry on the node's array
            "read" => {
                let res = op.s("res");
                let rsc = op.u("rsc") as u32;
                let riv = op.u("riv") as u32;
                on_thread(op.get("thread").unwrap_or("main"), move || match stat::get_resource_node(&res) {
                    None => "none".to_string(),
                    Some(node) => {
                        let d = node.sum(MetricEvent::Pass);
                        let full = match node.generate_read_stat(rsc, riv) {
                            Ok(r) => format!("{}", r.sum(MetricEvent::Pass)),
                            Err(_) => "err".to_string(),
                        };
                        format!(
                            "sum={} full={} maxavg={} qp={}",
                            d,
                            full,
                            f64_exact(node.max_avg(MetricEvent::Pass)),
                            f64_exact(node.qps_previous(MetricEvent::Pass))
                        )
                    }
                })
            }
            _ => panic!("harness: unknown op {}", op.name),
        }
    }
}
