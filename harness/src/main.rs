//! Correspondence harness: executes operation lines on the real sentinel-core (built from /repo's
//! working tree with `--cfg sentinel_verif`) and prints each line followed by ` -> <observation>`.
//!
//! usage: harness exec <Cxx>   < cases.ops   > trace.ops
//!
//! Input format: lines `case <id>` start a new case; every other non-empty, non-`#` line is an
//! operation `name key=value ...`. Anything after ` -> ` on an input line is ignored (so a trace
//! file can be fed back as a replay).
mod common;

mod c02;
mod c13;
mod mgr;
mod world;

use common::*;
use std::io::{BufRead, Write};

fn main() {
    let args: Vec<String> = std::env::args().collect();
    if args.len() < 3 || args[1] != "exec" {
        eprintln!("usage: harness exec <Cxx> < ops > trace");
        std::process::exit(2);
    }
    let prop = args[2].clone();
    let stdin = std::io::stdin();
    let stdout = std::io::stdout();
    let mut out = std::io::BufWriter::new(stdout.lock());
    // panics are observations; keep the default hook quiet
    std::panic::set_hook(Box::new(|_| {}));

    let mut exec: Option<Box<dyn CaseExec>> = None;
    let mut case_no: u64 = 0;
    for line in stdin.lock().lines() {
        let line = line.unwrap();
        let line = match line.find(" -> ") {
            Some(i) => line[..i].to_string(),
            None => line,
        };
        let t = line.trim();
        if t.is_empty() || t.starts_with('#') {
            continue;
        }
        if t.starts_with("case ") || t == "case" {
            if let Some(mut e) = exec.take() {
                e.finish();
            }
            case_no += 1;
            writeln!(out, "{}", t).unwrap();
            exec = Some(new_exec(&prop, case_no));
            continue;
        }
        if exec.is_none() {
            case_no += 1;
            exec = Some(new_exec(&prop, case_no));
        }
        let op = Op::parse(t);
        let e = exec.as_mut().unwrap();
        let obs = match std::panic::catch_unwind(std::panic::AssertUnwindSafe(|| e.step(&op))) {
            Ok(o) => o,
            Err(p) => format!("panic {}", panic_msg(&p).replace('\n', " ")),
        };
        writeln!(out, "{} -> {}", t, obs).unwrap();
    }
    if let Some(mut e) = exec.take() {
        e.finish();
    }
    out.flush().unwrap();
}

fn new_exec(prop: &str, case_no: u64) -> Box<dyn CaseExec> {
    match prop {
        "C02" => Box::new(c02::Exec::new(case_no)),
        "C01" | "C03" | "C04" | "C05" | "C06" | "C07" | "C08" | "C09" | "C11" => Box::new(world::Exec::new(case_no)),
        "C10" => Box::new(mgr::Exec::new(case_no)),
        "C13" => Box::new(c13::Exec::new(case_no)),
        _ => {
            eprintln!("unknown property {}", prop);
            std::process::exit(2);
        }
    }
}
