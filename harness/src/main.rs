//! Correspondence harness: executes operation lines on the real sentinel-core (built from /repo's
//! working tree with `--cfg sentinel_verif`) and prints each line followed by ` -> <observation>`.
//!
//! usage: harness exec <Cxx>   < cases.ops   > trace.ops
//!
//! Input format: lines `case <id>` start a new case; every other non-empty, non-`#` line is an
//! operation `name key=value ...`. Anything after ` -> ` on an input line is ignored (so a trace
//! file can be fed back as a replay).
mod common;

mod c02;
mod conc;
mod c12;
mod c13;
mod c17;
mod c18;
mod mgr;
mod world;

use common::*;
use std::io::{BufRead, Write};

fn main() {
    let args: Vec<String> = std::env::args().collect();
    if args.len() < 3 || args[1] != "exec" {
        eprintln!("usage: harness exec <Cxx> < ops > trace");
        std::process::exit(2);
    }
    let prop = args[2].clone();
    if (prop == "C12" || prop == "C17" || prop == "C14" || prop == "C15" || prop == "C16") && std::env::var("VERIF_CHILD").is_err() {
        parent_per_case(&prop);
        return;
    }
    let stdin = std::io::stdin();
    let stdout = std::io::stdout();
    let mut out = std::io::BufWriter::new(stdout.lock());
    // panics are observations; keep the default hook quiet
    std::panic::set_hook(Box::new(|_| {}));

    let mut exec: Option<Box<dyn CaseExec>> = None;
    let mut case_no: u64 = 0;
    for line in stdin.lock().lines() {
        let line = line.unwrap();
        let line = match line.find(" -> ") {
            Some(i) => line[..i].to_string(),
            None => line,
        };
        let t = line.trim();
        if t.is_empty() || t.starts_with('#') {
            continue;
        }
        if t.starts_with("case ") || t == "case" {
            if let Some(mut e) = exec.take() {
                e.finish();
            }
            case_no += 1;
            writeln!(out, "{}", t).unwrap();
            exec = Some(new_exec(&prop, case_no));
            continue;
        }
        if exec.is_none() {
            case_no += 1;
            exec = Some(new_exec(&prop, case_no));
        }
        let op = Op::parse(t);
        let e = exec.as_mut().unwrap();
        let obs = match std::panic::catch_unwind(std::panic::AssertUnwindSafe(|| e.step(&op))) {
            Ok(o) => o,
            Err(p) => format!("panic {}", panic_msg(&p).replace('\n', " ")),
        };
        writeln!(out, "{} -> {}", t, obs).unwrap();
        if std::env::var("VERIF_CHILD").is_ok() {
            out.flush().unwrap();
        }
    }
    if let Some(mut e) = exec.take() {
        e.finish();
    }
    out.flush().unwrap();
}

fn new_exec(prop: &str, case_no: u64) -> Box<dyn CaseExec> {
    match prop {
        "C02" => Box::new(c02::Exec::new(case_no)),
        "C01" | "C03" | "C04" | "C05" | "C06" | "C07" | "C08" | "C09" | "C11" => Box::new(world::Exec::new(case_no)),
        "C10" => Box::new(mgr::Exec::new(case_no)),
        "C12" => Box::new(c12::Exec::new(case_no)),
        "C13" => Box::new(c13::Exec::new(case_no)),
        "C14" | "C15" | "C16" => Box::new(conc::Exec::new(case_no)),
        "C17" => Box::new(c17::Exec::new(case_no)),
        "C18" => Box::new(c18::Exec::new(case_no)),
        _ => {
            eprintln!("unknown property {}", prop);
            std::process::exit(2);
        }
    }
}

/// One child process per case: the child executes the case's lines; the parent copies its output, and reports a
/// child that does not finish in time as `hang` and one that dies as `crash` on the first operation without an answer.
fn parent_per_case(prop: &str) {
    use std::process::{Command, Stdio};
    let stdin = std::io::stdin();
    let mut cases: Vec<Vec<String>> = Vec::new();
    for line in stdin.lock().lines() {
        let line = line.unwrap();
        let line = match line.find(" -> ") {
            Some(i) => line[..i].to_string(),
            None => line,
        };
        let t = line.trim().to_string();
        if t.is_empty() || t.starts_with('#') {
            continue;
        }
        if t.starts_with("case ") || t == "case" || cases.is_empty() {
            cases.push(Vec::new());
        }
        cases.last_mut().unwrap().push(t);
    }
    let limit_ms: u64 = std::env::var("VERIF_CASE_TIMEOUT_MS").ok().and_then(|v| v.parse().ok()).unwrap_or(10_000);
    let exe = std::env::current_exe().unwrap();
    let stdout = std::io::stdout();
    let mut out = std::io::BufWriter::new(stdout.lock());
    for case in cases {
        let mut child = Command::new(&exe)
            .args(["exec", prop])
            .env("VERIF_CHILD", "1")
            .stdin(Stdio::piped())
            .stdout(Stdio::piped())
            .stderr(Stdio::null())
            .spawn()
            .unwrap();
        // the answers are drained while the case is still being written: a case longer than the pipe buffers would otherwise block
        // the child on its output and this process on the child's input, for ever and before the time limit starts to run
        let mut cout = child.stdout.take().unwrap();
        let reader = std::thread::spawn(move || {
            let mut s = String::new();
            let _ = std::io::Read::read_to_string(&mut cout, &mut s);
            s
        });
        let mut cin = child.stdin.take().unwrap();
        let text = case.join("\n") + "\n";
        let writer = std::thread::spawn(move || {
            let _ = cin.write_all(text.as_bytes());
        });
        let start = std::time::Instant::now();
        let mut verdict = "";
        loop {
            match child.try_wait().unwrap() {
                Some(st) => {
                    if !st.success() {
                        verdict = "crash";
                    }
                    break;
                }
                None => {
                    if start.elapsed().as_millis() as u64 > limit_ms {
                        let _ = child.kill();
                        let _ = child.wait();
                        verdict = "hang";
                        break;
                    }
                    std::thread::sleep(std::time::Duration::from_millis(2));
                }
            }
        }
        let _ = writer.join();
        let text = reader.join().unwrap();
        let got: Vec<&str> = text.lines().collect();
        for l in &got {
            writeln!(out, "{}", l).unwrap();
        }
        // operations without an answer
        let mut first = true;
        for l in case.iter().skip(got.len()) {
            if first && !verdict.is_empty() {
                writeln!(out, "{} -> {}", l, verdict).unwrap();
            } else {
                writeln!(out, "{} -> skipped", l).unwrap();
            }
            first = false;
        }
    }
    out.flush().unwrap();
}
