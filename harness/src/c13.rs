//! C13: slot chain contract. Recording slots on a custom chain.
use crate::common::*;
use sentinel_core::api::EntryBuilder;
use sentinel_core::base::{
    BaseSlot, BlockError, BlockType, ContextPtr, EntryContext, EntryStrongPtr, ResourceType, ResourceWrapper,
    RuleCheckSlot, SentinelEntry, SlotChain, StatPrepareSlot, StatSlot, TokenResult, TrafficType,
};
use std::sync::atomic::{AtomicUsize, Ordering};
use std::sync::{Arc, Mutex, RwLock};

type Log = Arc<Mutex<Vec<String>>>;

struct Pre {
    id: usize,
    order: u32,
    /// a preparation slot may write anything into the context, e.g. a blocked verdict (which the chain must discard)
    dirty: Option<u8>,
    log: Log,
}
impl BaseSlot for Pre {
    fn order(&self) -> u32 {
        self.order
    }
}
impl StatPrepareSlot for Pre {
    fn prepare(&self, ctx: &mut EntryContext) {
        self.log.lock().unwrap().push(format!("pre{}", self.id));
        if let Some(t) = self.dirty {
            ctx.set_result(TokenResult::new_blocked_with_msg(BlockType::Other(t), format!("pre{}", self.id)));
        }
    }
}

#[derive(Clone)]
enum Res {
    Pass,
    Blocked(u8),
    Wait(u64),
}
struct Chk {
    id: usize,
    order: u32,
    /// result of the n-th call (the last one repeats)
    script: Vec<Res>,
    calls: AtomicUsize,
    log: Log,
}
impl BaseSlot for Chk {
    fn order(&self) -> u32 {
        self.order
    }
}
impl RuleCheckSlot for Chk {
    fn check(&self, _ctx: &mut EntryContext) -> TokenResult {
        self.log.lock().unwrap().push(format!("chk{}", self.id));
        let n = self.calls.fetch_add(1, Ordering::SeqCst);
        match self.script[n.min(self.script.len() - 1)] {
            Res::Pass => TokenResult::new_pass(),
            Res::Blocked(t) => TokenResult::new_blocked_with_msg(BlockType::Other(t), format!("slot{}", self.id)),
            Res::Wait(ns) => TokenResult::new_should_wait(ns),
        }
    }
}

struct Stat {
    id: usize,
    order: u32,
    log: Log,
}
impl BaseSlot for Stat {
    fn order(&self) -> u32 {
        self.order
    }
}
impl StatSlot for Stat {
    fn on_entry_pass(&self, _ctx: &EntryContext) {
        self.log.lock().unwrap().push(format!("pass{}", self.id));
    }
    fn on_entry_blocked(&self, _ctx: &EntryContext, e: BlockError) {
        let t = match e.block_type() {
            BlockType::Other(t) => format!("{}", t),
            o => format!("{:?}", o),
        };
        self.log.lock().unwrap().push(format!("blk{}:{}:{}", self.id, t, e.block_msg()));
    }
    fn on_completed(&self, _ctx: &mut EntryContext) {
        self.log.lock().unwrap().push(format!("done{}", self.id));
    }
}

pub struct Exec {
    case_no: u64,
    log: Log,
    chain: Option<Arc<SlotChain>>,
    entry: Option<EntryStrongPtr>,
    /// a hand-made context (and its entry) on which `SlotChain::entry` / `exit` are called directly, several times
    raw: Option<(ContextPtr, Arc<RwLock<SentinelEntry>>)>,
}

impl Exec {
    pub fn new(case_no: u64) -> Self {
        Exec { case_no, log: Arc::new(Mutex::new(Vec::new())), chain: None, entry: None, raw: None }
    }
    fn take_log(&self) -> String {
        let mut l = self.log.lock().unwrap();
        let s = l.join(";");
        l.clear();
        s
    }
}

impl CaseExec for Exec {
    fn step(&mut self, op: &Op) -> String {
        match op.name.as_str() {
            "chain" => {
                let mut sc = SlotChain::new();
                for (id, spec) in op.list("pre").iter().enumerate() {
                    let (o, dirty) = match spec.split_once(":D") {
                        Some((o, t)) => (o, Some(t.parse().unwrap())),
                        None => (spec.as_str(), None),
                    };
                    sc.add_stat_prepare_slot(Arc::new(Pre { id, order: o.parse().unwrap(), dirty, log: self.log.clone() }));
                }
                for (id, spec) in op.list("chk").iter().enumerate() {
                    let (o, r) = spec.split_once(':').unwrap();
                    let script: Vec<Res> = r
                        .split('/')
                        .map(|r| {
                            if r == "P" {
                                Res::Pass
                            } else if let Some(t) = r.strip_prefix('B') {
                                Res::Blocked(t.parse().unwrap())
                            } else if let Some(t) = r.strip_prefix('W') {
                                Res::Wait(t.parse().unwrap())
                            } else {
                                panic!("harness: bad check result")
                            }
                        })
                        .collect();
                    sc.add_rule_check_slot(Arc::new(Chk { id, order: o.parse().unwrap(), script, calls: AtomicUsize::new(0), log: self.log.clone() }));
                }
                for (id, o) in op.list("stat").iter().enumerate() {
                    sc.add_stat_slot(Arc::new(Stat { id, order: o.parse().unwrap(), log: self.log.clone() }));
                }
                self.chain = Some(Arc::new(sc));
                self.raw = None;
                "ok".into()
            }
            // `SlotChain::entry` / `SlotChain::exit` called directly on one hand-made context, any number of times
            "rentry" => {
                let sc = self.chain.clone().expect("harness: no chain");
                if self.raw.is_none() {
                    let mut ctx = EntryContext::new();
                    ctx.set_resource(ResourceWrapper::new(format!("c13-{}", self.case_no), ResourceType::Common, TrafficType::Inbound));
                    let ctx = Arc::new(RwLock::new(ctx));
                    let entry = Arc::new(RwLock::new(SentinelEntry::new(Arc::clone(&ctx), Arc::clone(&sc))));
                    ctx.write().unwrap().set_entry(Arc::downgrade(&entry));
                    self.raw = Some((ctx, entry));
                }
                let ctx = Arc::clone(&self.raw.as_ref().unwrap().0);
                let r = sc.entry(ctx);
                match r {
                    TokenResult::Blocked(e) => {
                        let ty = match e.block_type() {
                            BlockType::Other(t) => format!("{}", t),
                            o => format!("{:?}", o),
                        };
                        format!("res=blocked:{}:{} log={}", ty, e.block_msg(), self.take_log())
                    }
                    TokenResult::Wait(ns) => format!("res=wait:{} log={}", ns, self.take_log()),
                    TokenResult::Pass => format!("res=pass log={}", self.take_log()),
                }
            }
            "rexit" => match self.raw.as_ref() {
                Some((ctx, _)) => {
                    let sc = self.chain.clone().expect("harness: no chain");
                    sc.exit(Arc::clone(ctx));
                    format!("log={}", self.take_log())
                }
                None => "noentry".into(),
            },
            "build" => {
                let sc = self.chain.clone().expect("harness: no chain");
                let b = EntryBuilder::new(format!("c13-{}", self.case_no)).with_slot_chain(sc);
                match b.build() {
                    Ok(e) => {
                        self.entry = Some(e);
                        format!("res=pass log={}", self.take_log())
                    }
                    Err(e) => {
                        let (ty, msg) = parse_block_err(&e.to_string());
                        format!("res=blocked:{}:{} log={}", ty, msg, self.take_log())
                    }
                }
            }
            "exit" => match self.entry.take() {
                Some(e) => {
                    e.exit();
                    format!("log={}", self.take_log())
                }
                None => "noentry".into(),
            },
            _ => panic!("harness: unknown op {}", op.name),
        }
    }
}
