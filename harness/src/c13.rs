//! C13: slot chain contract. Recording slots on a custom chain.
use crate::common::*;
use sentinel_core::api::EntryBuilder;
use sentinel_core::base::{
    BaseSlot, BlockError, BlockType, EntryContext, EntryStrongPtr, RuleCheckSlot, SlotChain,
    StatPrepareSlot, StatSlot, TokenResult,
};
use std::sync::{Arc, Mutex};

type Log = Arc<Mutex<Vec<String>>>;

struct Pre {
    id: usize,
    order: u32,
    log: Log,
}
impl BaseSlot for Pre {
    fn order(&self) -> u32 {
        self.order
    }
}
impl StatPrepareSlot for Pre {
    fn prepare(&self, _ctx: &mut EntryContext) {
        self.log.lock().unwrap().push(format!("pre{}", self.id));
    }
}

#[derive(Clone)]
enum Res {
    Pass,
    Blocked(u8),
    Wait(u64),
}
struct Chk {
    id: usize,
    order: u32,
    res: Res,
    log: Log,
}
impl BaseSlot for Chk {
    fn order(&self) -> u32 {
        self.order
    }
}
impl RuleCheckSlot for Chk {
    fn check(&self, _ctx: &mut EntryContext) -> TokenResult {
        self.log.lock().unwrap().push(format!("chk{}", self.id));
        match self.res {
            Res::Pass => TokenResult::new_pass(),
            Res::Blocked(t) => TokenResult::new_blocked_with_msg(BlockType::Other(t), format!("slot{}", self.id)),
            Res::Wait(ns) => TokenResult::new_should_wait(ns),
        }
    }
}

struct Stat {
    id: usize,
    order: u32,
    log: Log,
}
impl BaseSlot for Stat {
    fn order(&self) -> u32 {
        self.order
    }
}
impl StatSlot for Stat {
    fn on_entry_pass(&self, _ctx: &EntryContext) {
        self.log.lock().unwrap().push(format!("pass{}", self.id));
    }
    fn on_entry_blocked(&self, _ctx: &EntryContext, e: BlockError) {
        let t = match e.block_type() {
            BlockType::Other(t) => format!("{}", t),
            o => format!("{:?}", o),
        };
        self.log.lock().unwrap().push(format!("blk{}:{}:{}", self.id, t, e.block_msg()));
    }
    fn on_completed(&self, _ctx: &mut EntryContext) {
        self.log.lock().unwrap().push(format!("done{}", self.id));
    }
}

pub struct Exec {
    case_no: u64,
    log: Log,
    chain: Option<Arc<SlotChain>>,
    entry: Option<EntryStrongPtr>,
}

impl Exec {
    pub fn new(case_no: u64) -> Self {
        Exec { case_no, log: Arc::new(Mutex::new(Vec::new())), chain: None, entry: None }
    }
    fn take_log(&self) -> String {
        let mut l = self.log.lock().unwrap();
        let s = l.join(";");
        l.clear();
        s
    }
}

impl CaseExec for Exec {
    fn step(&mut self, op: &Op) -> String {
        match op.name.as_str() {
            "chain" => {
                let mut sc = SlotChain::new();
                for (id, o) in op.list("pre").iter().enumerate() {
                    sc.add_stat_prepare_slot(Arc::new(Pre { id, order: o.parse().unwrap(), log: self.log.clone() }));
                }
                for (id, spec) in op.list("chk").iter().enumerate() {
                    let (o, r) = spec.split_once(':').unwrap();
                    let res = if r == "P" {
                        Res::Pass
                    } else if let Some(t) = r.strip_prefix('B') {
                        Res::Blocked(t.parse().unwrap())
                    } else if let Some(t) = r.strip_prefix('W') {
                        Res::Wait(t.parse().unwrap())
                    } else {
                        panic!("harness: bad check result")
                    };
                    sc.add_rule_check_slot(Arc::new(Chk { id, order: o.parse().unwrap(), res, log: self.log.clone() }));
                }
                for (id, o) in op.list("stat").iter().enumerate() {
                    sc.add_stat_slot(Arc::new(Stat { id, order: o.parse().unwrap(), log: self.log.clone() }));
                }
                self.chain = Some(Arc::new(sc));
                "ok".into()
            }
            "build" => {
                let sc = self.chain.clone().expect("harness: no chain");
                let b = EntryBuilder::new(format!("c13-{}", self.case_no)).with_slot_chain(sc);
                match b.build() {
                    Ok(e) => {
                        self.entry = Some(e);
                        format!("res=pass log={}", self.take_log())
                    }
                    Err(e) => {
                        let (ty, msg) = parse_block_err(&e.to_string());
                        format!("res=blocked:{}:{} log={}", ty, msg, self.take_log())
                    }
                }
            }
            "exit" => match self.entry.take() {
                Some(e) => {
                    e.exit();
                    format!("log={}", self.take_log())
                }
                None => "noentry".into(),
            },
            _ => panic!("harness: unknown op {}", op.name),
        }
    }
}
