//! C10 (and C11/C12 building blocks): the five rule managers driven through their public functions.
use crate::common::*;
use sentinel_core::api::EntryBuilder;
use sentinel_core::base::EntryStrongPtr;
use sentinel_core::utils::verif_clock;
use sentinel_core::{circuitbreaker as br, flow, hotspot as hs, isolation as iso, system as sys};
use std::sync::Arc;

pub struct Exec {
    case_no: u64,
}

impl Exec {
    pub fn new(case_no: u64) -> Self {
        crate::world::clear_all_rules();
        verif_clock::enable(T0_NS + case_no * 3_600_000_000_000);
        Exec { case_no }
    }
    /// no reset: several threads of one scenario share the rule managers
    pub fn attach(case_no: u64) -> Self {
        Exec { case_no }
    }
    fn res(&self, r: &str) -> String {
        if r.is_empty() {
            String::new()
        } else {
            format!("{}#{}", r, self.case_no)
        }
    }
    fn unres(&self, r: &str) -> String {
        r.split('#').next().unwrap_or("").to_string()
    }
}

/// id@res@key
fn parse3(s: &str) -> (String, String, String) {
    let p: Vec<&str> = s.split('@').collect();
    (p[0].to_string(), p[1].to_string(), p[2].to_string())
}

fn flow_rule(id: &str, res: &str, key: &str) -> Arc<flow::Rule> {
    let mut r = flow::Rule { id: id.into(), resource: res.into(), ..Default::default() };
    match key {
        "t3" => r.threshold = 3.0,
        "t5" => r.threshold = 5.0,
        "t7" => r.threshold = 7.0,
        // throttling rules that differ in exactly one field: pacing interval, maximum queueing time (rule equality must see each field)
        "h4" | "h4i" | "h4q" => {
            r.threshold = 4.0;
            r.control_strategy = flow::ControlStrategy::Throttling;
            r.stat_interval_ms = if key == "h4i" { 2000 } else { 1000 };
            r.max_queueing_time_ms = if key == "h4q" { 1000 } else { 500 };
        }
        // a private statistic window
        "p5" => {
            r.threshold = 5.0;
            r.stat_interval_ms = 1500;
        }
        // ... whose length is no multiple of the global bucket length nor of its own bucket count (accepted: one bucket; seed C10-f)
        "p5o" => {
            r.threshold = 5.0;
            r.stat_interval_ms = 1700;
        }
        "w9" | "w9p" | "w9c" => {
            r.warm_up_period_sec = if key == "w9p" { 3 } else { 2 };
            r.warm_up_cold_factor = if key == "w9c" { 4 } else { 3 };
            r.threshold = 9.0;
            r.calculate_strategy = flow::CalculateStrategy::WarmUp;
        }
        "xneg" => r.threshold = -1.0,
        "xwarm" => {
            r.threshold = 4.0;
            r.calculate_strategy = flow::CalculateStrategy::WarmUp;
            r.warm_up_period_sec = 0;
        }
        _ => panic!("harness: flow key {}", key),
    }
    Arc::new(r)
}
fn flow_key(r: &flow::Rule) -> String {
    if r.calculate_strategy == flow::CalculateStrategy::WarmUp {
        if r.warm_up_period_sec == 0 { "xwarm".into() } else if r.warm_up_period_sec == 3 { "w9p".into() } else if r.warm_up_cold_factor == 4 { "w9c".into() } else { "w9".into() }
    } else if r.control_strategy == flow::ControlStrategy::Throttling {
        if r.stat_interval_ms == 2000 { "h4i".into() } else if r.max_queueing_time_ms == 1000 { "h4q".into() } else { "h4".into() }
    } else if r.stat_interval_ms == 1500 {
        "p5".into()
    } else if r.stat_interval_ms == 1700 {
        "p5o".into()
    } else if r.threshold < 0.0 {
        "xneg".into()
    } else {
        format!("t{}", r.threshold as u64)
    }
}

fn iso_rule(id: &str, res: &str, key: &str) -> Arc<iso::Rule> {
    let thr = match key {
        "c1" => 1,
        "c2" => 2,
        "c3" => 3,
        "xzero" => 0,
        _ => panic!("harness: iso key {}", key),
    };
    Arc::new(iso::Rule { id: id.into(), resource: res.into(), threshold: thr, ..Default::default() })
}
fn iso_key(r: &iso::Rule) -> String {
    if r.threshold == 0 { "xzero".into() } else { format!("c{}", r.threshold) }
}

fn hs_rule(id: &str, res: &str, key: &str) -> Arc<hs::Rule> {
    let mut r = hs::Rule { id: id.into(), resource: res.into(), ..Default::default() };
    match key {
        "q2" | "q4" => {
            r.metric_type = hs::MetricType::QPS;
            r.threshold = if key == "q2" { 2 } else { 4 };
            r.duration_in_sec = 1;
        }
        // QPS rules that differ from q2 in exactly one field: a per-value override, the burst, the parameter index
        "q2o" | "q2b" | "q2i" | "q2k" => {
            r.metric_type = hs::MetricType::QPS;
            r.threshold = 2;
            r.duration_in_sec = 1;
            if key == "q2o" {
                r.specific_items.insert("a".into(), 5);
            }
            if key == "q2b" {
                r.burst_count = 1;
            }
            if key == "q2i" {
                r.param_index = 1;
            }
            if key == "q2k" {
                r.param_key = "k".into();
            }
        }
        "c3" => {
            r.metric_type = hs::MetricType::Concurrency;
            r.threshold = 3;
        }
        "xdur" => {
            r.metric_type = hs::MetricType::QPS;
            r.threshold = 6;
            r.duration_in_sec = 0;
        }
        "xkey" => {
            r.metric_type = hs::MetricType::Concurrency;
            r.threshold = 8;
            r.param_index = 1;
            r.param_key = "k".into();
        }
        _ => panic!("harness: hotspot key {}", key),
    }
    Arc::new(r)
}
fn hs_key(r: &hs::Rule) -> String {
    match (r.metric_type, r.threshold) {
        (hs::MetricType::QPS, 6) => "xdur".into(),
        (hs::MetricType::QPS, 2) if !r.specific_items.is_empty() => "q2o".into(),
        (hs::MetricType::QPS, 2) if r.burst_count == 1 => "q2b".into(),
        (hs::MetricType::QPS, 2) if r.param_index == 1 => "q2i".into(),
        (hs::MetricType::QPS, 2) if r.param_key == "k" => "q2k".into(),
        (hs::MetricType::QPS, t) => format!("q{}", t),
        (hs::MetricType::Concurrency, 8) => "xkey".into(),
        (hs::MetricType::Concurrency, t) => format!("c{}", t),
    }
}

fn br_rule(id: &str, res: &str, key: &str) -> Arc<br::Rule> {
    let mut r = br::Rule {
        id: id.into(),
        resource: res.into(),
        retry_timeout_ms: 1000,
        min_request_amount: 1,
        stat_interval_ms: 1000,
        ..Default::default()
    };
    match key {
        "e2" => {
            r.strategy = br::BreakerStrategy::ErrorCount;
            r.threshold = 2.0;
        }
        "e3" => {
            // the same breaker as e2 with another threshold: its statistic can be taken over on a reload
            r.strategy = br::BreakerStrategy::ErrorCount;
            r.threshold = 3.0;
        }
        "r5" => {
            r.strategy = br::BreakerStrategy::ErrorRatio;
            r.threshold = 0.5;
        }
        // a window of many short buckets: 1250 buckets of 2 ms (the count divides the interval: accepted and constructible; seed C15-f)
        "e2w" => {
            r.strategy = br::BreakerStrategy::ErrorCount;
            r.threshold = 2.0;
            r.stat_interval_ms = 2500;
            r.stat_sliding_window_bucket_count = 1250;
        }
        // differ from r5 in exactly one field: retry timeout, minimum request amount
        "r5t" | "r5m" => {
            r.strategy = br::BreakerStrategy::ErrorRatio;
            r.threshold = 0.5;
            if key == "r5t" {
                r.retry_timeout_ms = 2000;
            } else {
                r.min_request_amount = 5;
            }
        }
        // differs from s5 in the slow-call bound only
        "s5m" => {
            r.strategy = br::BreakerStrategy::SlowRequestRatio;
            r.threshold = 0.5;
            r.max_allowed_rt_ms = 100;
        }
        "s5" => {
            r.strategy = br::BreakerStrategy::SlowRequestRatio;
            r.threshold = 0.5;
            r.max_allowed_rt_ms = 50;
        }
        "xivl" => {
            r.strategy = br::BreakerStrategy::ErrorCount;
            r.threshold = 3.0;
            r.stat_interval_ms = 0;
        }
        "xthr" => {
            r.strategy = br::BreakerStrategy::ErrorRatio;
            r.threshold = 1.5;
        }
        _ => panic!("harness: breaker key {}", key),
    }
    Arc::new(r)
}
fn br_key(r: &br::Rule) -> String {
    match r.strategy {
        br::BreakerStrategy::ErrorCount => if r.stat_interval_ms == 0 { "xivl".into() } else if r.stat_interval_ms == 2500 { "e2w".into() } else if r.threshold == 3.0 { "e3".into() } else { "e2".into() },
        br::BreakerStrategy::ErrorRatio => if r.threshold > 1.0 { "xthr".into() } else if r.retry_timeout_ms == 2000 { "r5t".into() } else if r.min_request_amount == 5 { "r5m".into() } else { "r5".into() },
        _ => if r.max_allowed_rt_ms == 100 { "s5m".into() } else { "s5".into() },
    }
}

/// system rules: the "resource" is the metric type, derived from the key
fn sys_rule(id: &str, key: &str) -> Arc<sys::Rule> {
    let (m, thr) = match key {
        "q5" => (sys::MetricType::InboundQPS, 5.0),
        "q6" => (sys::MetricType::InboundQPS, 6.0),
        "c3" => (sys::MetricType::Concurrency, 3.0),
        "l5" | "l5b" => (sys::MetricType::Load, 0.5),
        "xneg" => (sys::MetricType::AvgRT, -1.0),
        "xload" => (sys::MetricType::Load, 2.0),
        _ => panic!("harness: system key {}", key),
    };
    // l5b: the same Load rule under the BBR strategy (differs from l5 in the strategy only)
    let strategy = if key == "l5b" { sys::AdaptiveStrategy::BBR } else { sys::AdaptiveStrategy::NoAdaptive };
    Arc::new(sys::Rule { id: id.into(), metric_type: m, threshold: thr, strategy, ..Default::default() })
}
fn sys_key(r: &sys::Rule) -> (String, String) {
    let k = match (r.metric_type, r.threshold) {
        (sys::MetricType::InboundQPS, t) => format!("q{}", t as u64),
        (sys::MetricType::Concurrency, _) => "c3".to_string(),
        (sys::MetricType::Load, t) if t > 1.0 => "xload".to_string(),
        (sys::MetricType::Load, _) => if r.strategy == sys::AdaptiveStrategy::BBR { "l5b".to_string() } else { "l5".to_string() },
        _ => "xneg".to_string(),
    };
    (format!("{:?}", r.metric_type), k)
}
pub fn sys_res_of_key(key: &str) -> &'static str {
    match key {
        "q5" | "q6" => "InboundQPS",
        "c3" => "Concurrency",
        "l5" | "l5b" | "xload" => "Load",
        _ => "AvgRT",
    }
}

fn fmt_rules(mut v: Vec<String>) -> String {
    v.sort();
    format!("rules={}", v.join(","))
}

impl CaseExec for Exec {
    fn step(&mut self, op: &Op) -> String {
        if op.name == "clock" {
            return format!("t={}", verif_clock::now_ns().unwrap());
        }
        if op.name == "adv" {
            verif_clock::advance_ns(op.u_or("ns", 0) + op.u_or("ms", 0) * 1_000_000);
            return "ok".into();
        }
        if op.name != "m" {
            panic!("harness: unknown op {}", op.name);
        }
        let fam = op.s("fam");
        let o = op.s("op");
        let triples: Vec<(String, String, String)> = op.list("rules").iter().map(|s| parse3(s)).collect();
        let res_arg = self.res(op.get("res").unwrap_or(""));
        macro_rules! ret_bool {
            ($e:expr) => {
                format!("ret={}", $e)
            };
        }
        match (fam.as_str(), o.as_str()) {
            // ------------------------------------------------------------------ flow
            ("flow", "loadall") => ret_bool!(flow::load_rules(triples.iter().map(|t| flow_rule(&t.0, &self.res(&t.1), &t.2)).collect())),
            ("flow", "loadres") => match flow::load_rules_of_resource(&res_arg, triples.iter().map(|t| flow_rule(&t.0, &self.res(&t.1), &t.2)).collect()) {
                Ok(b) => ret_bool!(b),
                Err(_) => "ret=err".into(),
            },
            ("flow", "append") => {
                let t = parse3(&op.s("rule"));
                ret_bool!(flow::append_rule(flow_rule(&t.0, &self.res(&t.1), &t.2)))
            }
            ("flow", "clear") => {
                flow::clear_rules();
                "ok".into()
            }
            ("flow", "clearres") => {
                flow::clear_rules_of_resource(&res_arg);
                "ok".into()
            }
            ("flow", "get") => fmt_rules(flow::get_rules().iter().map(|r| format!("{}@{}@{}", r.id, self.unres(&r.resource), flow_key(r))).collect()),
            ("flow", "getres") | ("flow", "enforced") => {
                fmt_rules(flow::get_rules_of_resource(&res_arg).iter().map(|r| format!("{}@{}@{}", r.id, self.unres(&r.resource), flow_key(r))).collect())
            }
            // ------------------------------------------------------------------ hotspot
            ("hs", "loadall") => ret_bool!(hs::load_rules(triples.iter().map(|t| hs_rule(&t.0, &self.res(&t.1), &t.2)).collect())),
            ("hs", "loadres") => match hs::load_rules_of_resource(&res_arg, triples.iter().map(|t| hs_rule(&t.0, &self.res(&t.1), &t.2)).collect()) {
                Ok(b) => ret_bool!(b),
                Err(_) => "ret=err".into(),
            },
            ("hs", "append") => {
                let t = parse3(&op.s("rule"));
                ret_bool!(hs::append_rule(hs_rule(&t.0, &self.res(&t.1), &t.2)))
            }
            ("hs", "clear") => {
                hs::clear_rules();
                "ok".into()
            }
            ("hs", "clearres") => {
                hs::clear_rules_of_resource(&res_arg);
                "ok".into()
            }
            ("hs", "get") => fmt_rules(hs::get_rules().iter().map(|r| format!("{}@{}@{}", r.id, self.unres(&r.resource), hs_key(r))).collect()),
            ("hs", "getres") | ("hs", "enforced") => {
                fmt_rules(hs::get_rules_of_resource(&res_arg).iter().map(|r| format!("{}@{}@{}", r.id, self.unres(&r.resource), hs_key(r))).collect())
            }
            // ------------------------------------------------------------------ circuit breaker
            ("br", "loadall") => ret_bool!(br::load_rules(triples.iter().map(|t| br_rule(&t.0, &self.res(&t.1), &t.2)).collect())),
            ("br", "loadres") => match br::load_rules_of_resource(&res_arg, triples.iter().map(|t| br_rule(&t.0, &self.res(&t.1), &t.2)).collect()) {
                Ok(b) => ret_bool!(b),
                Err(_) => "ret=err".into(),
            },
            ("br", "append") => {
                let t = parse3(&op.s("rule"));
                ret_bool!(br::append_rule(br_rule(&t.0, &self.res(&t.1), &t.2)))
            }
            ("br", "clear") => {
                br::clear_rules();
                "ok".into()
            }
            ("br", "clearres") => {
                br::clear_rules_of_resource(&res_arg);
                "ok".into()
            }
            ("br", "get") => fmt_rules(br::get_rules().iter().map(|r| format!("{}@{}@{}", r.id, self.unres(&r.resource), br_key(r))).collect()),
            ("br", "getres") => fmt_rules(br::get_rules_of_resource(&res_arg).iter().map(|r| format!("{}@{}@{}", r.id, self.unres(&r.resource), br_key(r))).collect()),
            ("br", "enforced") => fmt_rules(
                br::get_breakers_of_resource(&res_arg)
                    .iter()
                    .map(|b| {
                        let r = b.bound_rule();
                        format!("{}@{}@{}", r.id, self.unres(&r.resource), br_key(r))
                    })
                    .collect(),
            ),
            // ------------------------------------------------------------------ isolation
            ("iso", "loadall") => {
                iso::load_rules(triples.iter().map(|t| iso_rule(&t.0, &self.res(&t.1), &t.2)).collect());
                "ret=unit".into()
            }
            ("iso", "loadres") => match iso::load_rules_of_resource(&res_arg, triples.iter().map(|t| iso_rule(&t.0, &self.res(&t.1), &t.2)).collect()) {
                Ok(b) => ret_bool!(b),
                Err(_) => "ret=err".into(),
            },
            ("iso", "append") => {
                let t = parse3(&op.s("rule"));
                ret_bool!(iso::append_rule(iso_rule(&t.0, &self.res(&t.1), &t.2)))
            }
            ("iso", "clear") => {
                iso::clear_rules();
                "ok".into()
            }
            ("iso", "clearres") => {
                iso::clear_rules_of_resource(&res_arg);
                "ok".into()
            }
            ("iso", "get") => fmt_rules(iso::get_rules().iter().map(|r| format!("{}@{}@{}", r.id, self.unres(&r.resource), iso_key(r))).collect()),
            ("iso", "getres") | ("iso", "enforced") => {
                fmt_rules(iso::get_rules_of_resource(&res_arg).iter().map(|r| format!("{}@{}@{}", r.id, self.unres(&r.resource), iso_key(r))).collect())
            }
            // ------------------------------------------------------------------ system (keyed by metric type)
            ("sys", "loadall") => {
                sys::load_rules(triples.iter().map(|t| sys_rule(&t.0, &t.2)).collect());
                "ret=unit".into()
            }
            ("sys", "append") => {
                let t = parse3(&op.s("rule"));
                ret_bool!(sys::append_rule(sys_rule(&t.0, &t.2)))
            }
            ("sys", "clear") => {
                sys::clear_rules();
                "ok".into()
            }
            ("sys", "get") | ("sys", "enforced") => fmt_rules(
                sys::get_rules()
                    .iter()
                    .map(|r| {
                        let (m, k) = sys_key(r);
                        format!("{}@{}@{}", r.id, m, k)
                    })
                    .collect(),
            ),
            // ------------------------------------------------------------------ admission probes (flow, isolation)
            (_, "probe") => {
                // fresh statistic window, then single-token outbound entries held open until the first rejection (at most 12)
                verif_clock::advance_ns(3_000_000_000);
                let mut held: Vec<EntryStrongPtr> = Vec::new();
                let mut by = "-".to_string();
                for _ in 0..12 {
                    match EntryBuilder::new(res_arg.clone()).build() {
                        Ok(e) => held.push(e),
                        Err(err) => {
                            let (ty, rule, _) = parse_block_full(&err.to_string());
                            by = format!("{}:{}", ty, rule);
                            break;
                        }
                    }
                }
                let n = held.len();
                for e in held {
                    e.exit();
                }
                verif_clock::advance_ns(3_000_000_000);
                format!("passed={} by={}", n, by)
            }
            _ => panic!("harness: unknown manager op {} {}", fam, o),
        }
    }
    fn finish(&mut self) {
        crate::world::clear_all_rules();
    }
}
