//! C18: rules through serde_json (value tree and text) and MetricItem through Display / from_string.
use crate::c12::{build_rule, AnyRule};
use crate::common::*;
use sentinel_core::base::MetricItem;
use sentinel_core::{circuitbreaker as br, flow, hotspot as hs, isolation as iso, system as sys};
use serde_json::Value;

pub struct Exec {}

impl Exec {
    pub fn new(_case_no: u64) -> Self {
        Exec {}
    }
}

fn atom(v: &Value) -> String {
    match v {
        Value::Null => "z".into(),
        Value::Bool(b) => format!("b:{}", *b as u8),
        Value::Number(n) => {
            if let Some(u) = n.as_u64() {
                format!("n:{}", u)
            } else if let Some(i) = n.as_i64() {
                format!("i:{}", i)
            } else {
                format!("f:{}", f64_exact(n.as_f64().unwrap()))
            }
        }
        Value::String(s) => format!("s:{}", hex(s.as_bytes())),
        Value::Array(_) => "a".into(),
        Value::Object(m) => {
            let mut kv: Vec<String> = m.iter().map(|(k, v)| format!("{}={}", hex(k.as_bytes()), atom(v))).collect();
            kv.sort();
            format!("m:{}", kv.join(","))
        }
    }
}

/// `key~tv;key~tv` in the order of the object's entries (serde_json keeps insertion order off; the struct serialiser
/// emits declaration order into a BTreeMap, so sort by the declaration order the caller gives)
fn canon(v: &Value, order: &[&str]) -> String {
    match v {
        Value::Object(m) => {
            let mut out = Vec::new();
            for k in order {
                if let Some(x) = m.get(*k) {
                    out.push(format!("{}~{}", k, atom(x)));
                }
            }
            for (k, x) in m {
                if !order.contains(&k.as_str()) {
                    out.push(format!("{}~{}", k, atom(x)));
                }
            }
            out.join(";")
        }
        _ => atom(v),
    }
}

const FLOW: &[&str] = &["id", "resource", "ref_resource", "calculate_strategy", "control_strategy", "relation_strategy", "threshold", "warm_up_period_sec", "warm_up_cold_factor", "max_queueing_time_ms", "stat_interval_ms", "low_mem_usage_threshold", "high_mem_usage_threshold", "mem_low_water_mark", "mem_high_water_mark"];
const BR: &[&str] = &["id", "resource", "strategy", "retry_timeout_ms", "min_request_amount", "stat_interval_ms", "stat_sliding_window_bucket_count", "max_allowed_rt_ms", "threshold"];
const HS: &[&str] = &["id", "resource", "metric_type", "control_strategy", "param_index", "param_key", "threshold", "max_queueing_time_ms", "burst_count", "duration_in_sec", "params_max_capacity", "specific_items"];
const ISO: &[&str] = &["id", "resource", "metric_type", "threshold"];
const SYS: &[&str] = &["id", "metric_type", "threshold", "strategy"];

fn order_of(fam: &str) -> &'static [&'static str] {
    match fam {
        "flow" => FLOW,
        "br" => BR,
        "hs" => HS,
        "iso" => ISO,
        _ => SYS,
    }
}

/// the order in which the serialiser emits the fields (observed from the text, where order is visible)
fn text_order(text: &str) -> String {
    // top-level keys of a flat-ish object: scan `"key":` at depth 1
    let mut keys = Vec::new();
    let (mut depth, mut in_str, mut esc, mut cur, mut last_str) = (0i32, false, false, String::new(), String::new());
    for c in text.chars() {
        if in_str {
            if esc {
                esc = false;
                cur.push(c);
            } else if c == '\\' {
                esc = true;
            } else if c == '"' {
                in_str = false;
                last_str = cur.clone();
            } else {
                cur.push(c);
            }
            continue;
        }
        match c {
            '"' => {
                in_str = true;
                cur.clear();
            }
            '{' | '[' => depth += 1,
            '}' | ']' => depth -= 1,
            ':' if depth == 1 => keys.push(last_str.clone()),
            _ => {}
        }
    }
    keys.join(",")
}

fn to_value_and_text(r: &AnyRule) -> (Result<Value, String>, Result<String, String>) {
    macro_rules! both {
        ($x:expr) => {
            (serde_json::to_value(&**$x).map_err(|e| e.to_string()), serde_json::to_string(&**$x).map_err(|e| e.to_string()))
        };
    }
    match r {
        AnyRule::Flow(x) => both!(x),
        AnyRule::Br(x) => both!(x),
        AnyRule::Hs(x) => both!(x),
        AnyRule::Iso(x) => both!(x),
        AnyRule::Sys(x) => both!(x),
    }
}

/// parse a one-element rule list document of the family; Ok = (canonical tree of the parsed rule, Debug text, rule)
fn parse_list(fam: &str, text: &str) -> Result<(Vec<Value>, Vec<String>, Vec<AnyRule>), String> {
    macro_rules! go {
        ($t:ty, $v:ident) => {{
            // the datasource rule parser itself when the crate is built with it (harness-ds), the call it makes otherwise
            #[cfg(feature = "ds")]
            let rs: Vec<std::sync::Arc<$t>> = sentinel_core::datasource::rule_json_array_parser::<$t>(text).map_err(|e| e.to_string())?;
            #[cfg(not(feature = "ds"))]
            let rs: Vec<std::sync::Arc<$t>> = serde_json::from_str::<Vec<$t>>(text).map_err(|e| e.to_string())?.into_iter().map(std::sync::Arc::new).collect();
            let vals = rs.iter().map(|r| serde_json::to_value(&**r).unwrap_or(Value::Null)).collect();
            let dbg = rs.iter().map(|r| format!("{:?}", r)).collect();
            let any = rs.into_iter().map(|r| AnyRule::$v(r)).collect();
            Ok((vals, dbg, any))
        }};
    }
    match fam {
        "flow" => go!(flow::Rule, Flow),
        "br" => go!(br::Rule, Br),
        "hs" => go!(hs::Rule, Hs),
        "iso" => go!(iso::Rule, Iso),
        _ => go!(sys::Rule, Sys),
    }
}

fn rules_eq(a: &AnyRule, b: &AnyRule) -> bool {
    match (a, b) {
        (AnyRule::Flow(x), AnyRule::Flow(y)) => x == y && x.id == y.id,
        (AnyRule::Br(x), AnyRule::Br(y)) => x == y && x.id == y.id,
        (AnyRule::Hs(x), AnyRule::Hs(y)) => x == y && x.id == y.id,
        (AnyRule::Iso(x), AnyRule::Iso(y)) => x == y && x.id == y.id,
        (AnyRule::Sys(x), AnyRule::Sys(y)) => x == y && x.id == y.id,
        _ => false,
    }
}

fn dbg_of(r: &AnyRule) -> String {
    match r {
        AnyRule::Flow(x) => format!("{:?}", x),
        AnyRule::Br(x) => format!("{:?}", x),
        AnyRule::Hs(x) => format!("{:?}", x),
        AnyRule::Iso(x) => format!("{:?}", x),
        AnyRule::Sys(x) => format!("{:?}", x),
    }
}

/// `s:<hex>` / `n:` / `i:` / `f:` / `b:` / `z` / `a` / `m:k=atom,...` to JSON text
fn tv_to_json(tv: &str) -> String {
    if tv == "z" {
        return "null".into();
    }
    if tv == "a" {
        return "[1]".into();
    }
    let (t, v) = tv.split_once(':').unwrap_or((tv, ""));
    match t {
        "s" => serde_json::to_string(&unhex_str(v)).unwrap(),
        "n" => v.to_string(),
        "i" => v.to_string(),
        "f" => {
            let x = parse_frac(v);
            serde_json::to_string(&x).unwrap()
        }
        "b" => if v == "1" { "true".into() } else { "false".into() },
        "m" => {
            let mut parts = Vec::new();
            if !v.is_empty() {
                for kv in v.split(',') {
                    let (k, a) = kv.split_once('=').unwrap();
                    parts.push(format!("{}:{}", serde_json::to_string(&unhex_str(k)).unwrap(), tv_to_json(a)));
                }
            }
            format!("{{{}}}", parts.join(","))
        }
        _ => panic!("harness: bad typed value {}", tv),
    }
}

fn item_canon(it: &MetricItem) -> String {
    let f = it.verif_fields();
    format!("res={} rtype={} ts={} pass={} block={} complete={} error={} rt={} occ={} conc={}", hex(f.0.as_bytes()), f.1, f.2, f.3, f.4, f.5, f.6, f.7, f.8, f.9)
}

impl CaseExec for Exec {
    fn step(&mut self, op: &Op) -> String {
        match op.name.as_str() {
            // a rule → value tree and text → back
            "rt" => {
                let fam = op.s("fam");
                let (rule, _) = build_rule(op);
                let (val, text) = to_value_and_text(&rule);
                let (val, text) = match (val, text) {
                    (Ok(v), Ok(t)) => (v, t),
                    _ => return "ser=err".into(),
                };
                let doc = canon(&val, order_of(&fam));
                let order = text_order(&text);
                let back = match parse_list(&fam, &format!("[{}]", text)) {
                    // field-for-field comparison on the canonical trees (Debug text would expose HashMap iteration order)
                    Ok((vals, _, any)) => format!("back=ok eq={} same={}", rules_eq(&rule, &any[0]) as u8, (canon(&vals[0], order_of(&fam)) == doc) as u8),
                    Err(_) => "back=err".into(),
                };
                format!("doc={} order={} {}", doc, order, back)
            }
            // a document (possibly with missing, reordered, duplicated, wrongly typed fields) → rule
            "parse" => {
                let fam = op.s("fam");
                let mut docs = Vec::new();
                for d in op.s("docs").split('|') {
                    let mut parts = Vec::new();
                    if d != "-" {
                        for e in d.split(';') {
                            let (k, tv) = e.split_once('~').unwrap();
                            parts.push(format!("{}:{}", serde_json::to_string(k).unwrap(), tv_to_json(tv)));
                        }
                    }
                    docs.push(format!("{{{}}}", parts.join(",")));
                }
                let text = format!("[{}]", docs.join(","));
                match parse_list(&fam, &text) {
                    Ok((vals, _, _)) => format!("ok {}", vals.iter().map(|v| canon(v, order_of(&fam))).collect::<Vec<_>>().join("|")),
                    Err(_) => "err".into(),
                }
            }
            // truncation / byte flips of a serialised rule list: must be Ok or Err, never a panic (a test, not a theorem)
            "mut" => {
                let fam = op.s("fam");
                let (rule, _) = build_rule(op);
                let (_, text) = to_value_and_text(&rule);
                let text = match text {
                    Ok(t) => format!("[{}]", t),
                    Err(_) => return "ser=err".into(),
                };
                let mut bytes = text.into_bytes();
                if let Some(k) = op.get("cut") {
                    let k: usize = k.parse().unwrap();
                    let n = bytes.len();
                    bytes.truncate(k % (n + 1));
                }
                if let Some(k) = op.get("flip") {
                    let k: usize = k.parse().unwrap();
                    let n = bytes.len();
                    if n > 0 {
                        bytes[k % n] ^= 1 << (k / n % 8);
                    }
                }
                match std::str::from_utf8(&bytes) {
                    Ok(t) => match parse_list(&fam, t) {
                        Ok(_) => "ok".into(),
                        Err(_) => "err".into(),
                    },
                    Err(_) => "notutf8".into(),
                }
            }
            "item" => {
                let it = MetricItem::verif_new(
                    unhex_str(op.get("res").unwrap_or("-")),
                    op.u_or("rtype", 0) as u8,
                    op.u("ts"),
                    op.u_or("pass", 0),
                    op.u_or("block", 0),
                    op.u_or("complete", 0),
                    op.u_or("error", 0),
                    op.u_or("rt", 0),
                    op.u_or("occ", 0),
                    op.u_or("conc", 0) as u32,
                );
                let line = it.to_string();
                let back = match MetricItem::from_string(&line) {
                    Ok(b) => format!("ok {}", item_canon(&b)),
                    Err(_) => "err".into(),
                };
                format!("line={} back={}", hex(line.as_bytes()), back)
            }
            "line" => {
                let raw = unhex(op.get("raw").unwrap_or("-"));
                match String::from_utf8(raw) {
                    Err(_) => "notutf8".into(),
                    Ok(l) => match MetricItem::from_string(&l) {
                        Ok(b) => format!("ok {}", item_canon(&b)),
                        Err(_) => "err".into(),
                    },
                }
            }
            _ => panic!("harness: unknown op {}", op.name),
        }
    }
}
