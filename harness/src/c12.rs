//! C12: every rule of the enum × boundary grid goes through `is_valid`, a loading entry point, entries and a health probe.
//! One child process per case (see main.rs): a panic that poisons a global lock, or a hang, must not leak into the next case.
use crate::common::*;
use sentinel_core::api::EntryBuilder;
use sentinel_core::base::{EntryStrongPtr, SentinelRule, TrafficType};
use sentinel_core::utils::verif_clock;
use sentinel_core::{circuitbreaker as br, flow, hotspot as hs, isolation as iso, system as sys};
use std::collections::HashMap;
use std::sync::Arc;

#[derive(Clone)]
pub enum AnyRule {
    Flow(Arc<flow::Rule>),
    Br(Arc<br::Rule>),
    Hs(Arc<hs::Rule>),
    Iso(Arc<iso::Rule>),
    Sys(Arc<sys::Rule>),
}

pub struct Exec {
    rules: HashMap<String, AnyRule>,
    entries: Vec<EntryStrongPtr>,
    probe_no: u32,
}

impl Exec {
    pub fn new(case_no: u64) -> Self {
        crate::common::clear_all_rules();
        verif_clock::enable(T0_NS + case_no * 3_600_000_000_000);
        sentinel_core::system_metric::verif::set_system_load(0.0);
        sentinel_core::system_metric::verif::set_cpu_usage(0.0);
        sentinel_core::system_metric::verif::set_memory_usage(0);
        Exec { rules: HashMap::new(), entries: Vec::new(), probe_no: 0 }
    }
    /// no reset of rules or clock: used for the health probe after a concurrent scenario
    pub fn bare() -> Self {
        Exec { rules: HashMap::new(), entries: Vec::new(), probe_no: 1000 }
    }
    pub fn probe_all(&mut self) -> String {
        let mut bad = Vec::new();
        for fam in ["flow", "br", "hs", "iso", "sys"] {
            if let Err(m) = self.probe_family(fam) {
                bad.push(format!("{}:{}", fam, m.replace(' ', "_")));
            }
        }
        if bad.is_empty() {
            "healthy".into()
        } else {
            format!("broken {}", bad.join(","))
        }
    }
}

/// `T`, `T+1`, `T-1` (total memory of this machine) or a plain number
fn mem_val(s: &str) -> u64 {
    let t = sentinel_core::system_metric::get_total_memory_size();
    match s {
        "T" => t,
        "T+1" => t + 1,
        "T-1" => t - 1,
        _ => s.parse().unwrap(),
    }
}

fn name_of(s: &str) -> String {
    // `-` stands for the empty string; `_` for a blank
    match s {
        "-" => String::new(),
        _ => s.replace('_', " "),
    }
}

fn valid_obs<R: SentinelRule>(r: &R) -> String {
    match r.is_valid() {
        Ok(_) => "valid=ok".into(),
        Err(e) => {
            let m = e.to_string();
            let code: String = m.chars().filter(|c| c.is_ascii_alphanumeric()).take(28).collect();
            format!("valid=err code={}", code)
        }
    }
}

fn block_obs(err: &str) -> String {
    if err.contains("block_type") {
        let (ty, _, _) = parse_block_full(err);
        format!("blocked type={}", ty)
    } else {
        "err".into()
    }
}


/// builds the rule an operation line describes; returns it with the observation of `is_valid()`
pub fn build_rule(op: &Op) -> (AnyRule, String) {
    let fam = op.s("fam");
    let id = match op.get("idhex") {
        Some(h) => unhex_str(h),
        None => op.s("id"),
    };
    let res = match op.get("reshex") {
        Some(h) => unhex_str(h),
        None => name_of(op.get("res").unwrap_or("-")),
    };
    let (rule, obs) = match fam.as_str() {
                    "flow" => {
                        let r = flow::Rule {
                            id: id.clone(),
                            resource: res,
                            ref_resource: name_of(op.get("ref").unwrap_or("-")),
                            calculate_strategy: match op.s("calc").as_str() {
                                "d" => flow::CalculateStrategy::Direct,
                                "w" => flow::CalculateStrategy::WarmUp,
                                "m" => flow::CalculateStrategy::MemoryAdaptive,
                                _ => flow::CalculateStrategy::Custom(7),
                            },
                            control_strategy: match op.s("ctl").as_str() {
                                "r" => flow::ControlStrategy::Reject,
                                "t" => flow::ControlStrategy::Throttling,
                                _ => flow::ControlStrategy::Custom(7),
                            },
                            relation_strategy: if op.s("rel") == "a" { flow::RelationStrategy::Associated } else { flow::RelationStrategy::Current },
                            threshold: op.f("thr"),
                            warm_up_period_sec: op.u_or("period", 0) as u32,
                            warm_up_cold_factor: op.u_or("cold", 0) as u32,
                            max_queueing_time_ms: op.u_or("maxq", 0) as u32,
                            stat_interval_ms: op.u_or("ivl", 0) as u32,
                            low_mem_usage_threshold: op.u_or("lmu", 0),
                            high_mem_usage_threshold: op.u_or("hmu", 0),
                            mem_low_water_mark: mem_val(op.get("lwm").unwrap_or("0")),
                            mem_high_water_mark: mem_val(op.get("hwm").unwrap_or("0")),
                        };
                        let o = valid_obs(&r);
                        (AnyRule::Flow(Arc::new(r)), o)
                    }
                    "br" => {
                        let r = br::Rule {
                            id: id.clone(),
                            resource: res,
                            strategy: match op.s("strat").as_str() {
                                "s" => br::BreakerStrategy::SlowRequestRatio,
                                "r" => br::BreakerStrategy::ErrorRatio,
                                "c" => br::BreakerStrategy::ErrorCount,
                                _ => br::BreakerStrategy::Custom(7),
                            },
                            retry_timeout_ms: op.u_or("retry", 0) as u32,
                            min_request_amount: op.u_or("minreq", 0),
                            stat_interval_ms: op.u_or("ivl", 0) as u32,
                            stat_sliding_window_bucket_count: op.u_or("buckets", 0) as u32,
                            max_allowed_rt_ms: op.u_or("maxrt", 0),
                            threshold: op.f("thr"),
                        };
                        let o = valid_obs(&r);
                        (AnyRule::Br(Arc::new(r)), o)
                    }
                    "hs" => {
                        let mut specific = HashMap::new();
                        for kv in op.list("spec") {
                            let (k, v) = kv.split_once(':').unwrap();
                            specific.insert(k.to_string(), v.parse::<u64>().unwrap());
                        }
                        let r = hs::Rule {
                            id: id.clone(),
                            resource: res,
                            metric_type: if op.s("metric") == "c" { hs::MetricType::Concurrency } else { hs::MetricType::QPS },
                            control_strategy: match op.s("ctl").as_str() {
                                "r" => hs::ControlStrategy::Reject,
                                "t" => hs::ControlStrategy::Throttling,
                                _ => hs::ControlStrategy::Custom(7),
                            },
                            param_index: op.get("idx").unwrap_or("0").parse().unwrap(),
                            param_key: name_of(op.get("key").unwrap_or("-")),
                            threshold: op.u_or("thr", 0),
                            max_queueing_time_ms: op.u_or("maxq", 0),
                            burst_count: op.u_or("burst", 0),
                            duration_in_sec: op.u_or("dur", 0),
                            params_max_capacity: op.u_or("cap", 0) as usize,
                            specific_items: specific,
                        };
                        let o = valid_obs(&r);
                        (AnyRule::Hs(Arc::new(r)), o)
                    }
                    "iso" => {
                        let r = iso::Rule { id: id.clone(), resource: res, threshold: op.u_or("thr", 0) as u32, ..Default::default() };
                        let o = valid_obs(&r);
                        (AnyRule::Iso(Arc::new(r)), o)
                    }
                    "sys" => {
                        let r = sys::Rule {
                            id: id.clone(),
                            metric_type: match op.s("metric").as_str() {
                                "load" => sys::MetricType::Load,
                                "rt" => sys::MetricType::AvgRT,
                                "conc" => sys::MetricType::Concurrency,
                                "qps" => sys::MetricType::InboundQPS,
                                _ => sys::MetricType::CpuUsage,
                            },
                            threshold: op.f("thr"),
                            strategy: if op.get("strat") == Some("bbr") { sys::AdaptiveStrategy::BBR } else { sys::AdaptiveStrategy::NoAdaptive },
                        };
                        let o = valid_obs(&r);
                        (AnyRule::Sys(Arc::new(r)), o)
                    }
                    _ => panic!("harness: family {}", fam),
                };
    (rule, obs)
}

impl Exec {
    fn listed(&self, fam: &str, id: &str) -> bool {
        match fam {
            "flow" => flow::get_rules().iter().any(|r| r.id == id),
            "br" => br::get_rules().iter().any(|r| r.id == id),
            "hs" => hs::get_rules().iter().any(|r| r.id == id),
            "iso" => iso::get_rules().iter().any(|r| r.id == id),
            "sys" => sys::get_rules().iter().any(|r| r.id == id),
            _ => panic!("harness: family {}", fam),
        }
    }

    fn probe_family(&mut self, fam: &str) -> Result<(), String> {
        self.probe_no += 1;
        let res = format!("__probe_{}_{}", fam, self.probe_no);
        let id = format!("probe{}", self.probe_no);
        let r = std::panic::catch_unwind(std::panic::AssertUnwindSafe(|| -> Result<(), String> {
            match fam {
                "flow" => {
                    let _ = flow::get_rules();
                    let rule = Arc::new(flow::Rule { id: id.clone(), resource: res.clone(), threshold: 1.0, stat_interval_ms: 1000, ..Default::default() });
                    flow::load_rules_of_resource(&res, vec![rule]).map_err(|e| e.to_string())?;
                    if !flow::get_rules_of_resource(&res).iter().any(|r| r.id == id) {
                        return Err("probe rule not reported".into());
                    }
                }
                "br" => {
                    let _ = br::get_rules();
                    let rule = Arc::new(br::Rule {
                        id: id.clone(),
                        resource: res.clone(),
                        strategy: br::BreakerStrategy::ErrorCount,
                        retry_timeout_ms: 1000,
                        min_request_amount: 1,
                        stat_interval_ms: 1000,
                        threshold: 5.0,
                        ..Default::default()
                    });
                    br::load_rules_of_resource(&res, vec![rule]).map_err(|e| e.to_string())?;
                    if !br::get_rules_of_resource(&res).iter().any(|r| r.id == id) {
                        return Err("probe rule not reported".into());
                    }
                }
                "hs" => {
                    let _ = hs::get_rules();
                    let rule = Arc::new(hs::Rule {
                        id: id.clone(),
                        resource: res.clone(),
                        metric_type: hs::MetricType::QPS,
                        threshold: 5,
                        duration_in_sec: 1,
                        ..Default::default()
                    });
                    hs::load_rules_of_resource(&res, vec![rule]).map_err(|e| e.to_string())?;
                    if !hs::get_rules_of_resource(&res).iter().any(|r| r.id == id) {
                        return Err("probe rule not reported".into());
                    }
                }
                "iso" => {
                    let _ = iso::get_rules();
                    let rule = Arc::new(iso::Rule { id: id.clone(), resource: res.clone(), threshold: 5, ..Default::default() });
                    iso::load_rules_of_resource(&res, vec![rule]).map_err(|e| e.to_string())?;
                    if !iso::get_rules_of_resource(&res).iter().any(|r| r.id == id) {
                        return Err("probe rule not reported".into());
                    }
                }
                "sys" => {
                    let before = sys::get_rules();
                    // system rules have no resource of their own: a threshold no case uses keeps the probe rule apart from the
                    // case's rules (an equal rule under another id would rightly make the append a no-op)
                    let rule = Arc::new(sys::Rule { id: id.clone(), metric_type: sys::MetricType::Concurrency, threshold: 987654.5, ..Default::default() });
                    sys::append_rule(Arc::clone(&rule));
                    if !sys::get_rules().iter().any(|r| r.id == id || **r == *rule) {
                        return Err("probe rule not reported".into());
                    }
                    sys::load_rules(before);
                }
                _ => panic!("harness: family {}", fam),
            }
            // an entry on the probe resource must be admitted and exit cleanly
            let e = EntryBuilder::new(res.clone()).with_traffic_type(TrafficType::Outbound).build().map_err(|e| format!("probe entry refused: {}", block_obs(&e.to_string())))?;
            e.exit();
            match fam {
                "flow" => flow::clear_rules_of_resource(&res),
                "br" => br::clear_rules_of_resource(&res),
                "hs" => hs::clear_rules_of_resource(&res),
                "iso" => iso::clear_rules_of_resource(&res),
                _ => {}
            }
            Ok(())
        }));
        match r {
            Ok(x) => x,
            Err(p) => Err(format!("panic {}", panic_msg(&p).replace('\n', " ").replace(' ', "_"))),
        }
    }
}

impl CaseExec for Exec {
    fn step(&mut self, op: &Op) -> String {
        match op.name.as_str() {
            "clock" => format!("t={}", verif_clock::now_ns().unwrap()),
            "adv" => {
                verif_clock::advance_ns(op.u_or("ns", 0) + op.u_or("ms", 0) * 1_000_000);
                "ok".into()
            }
            "sys.total" => format!("totalmem={}", sentinel_core::system_metric::get_total_memory_size()),
            "sys.mem" => {
                sentinel_core::system_metric::verif::set_memory_usage(mem_val(&op.s("usage")));
                "ok".into()
            }
            "rule" => {
                let id = op.s("id");
                let (rule, obs) = build_rule(op);
                self.rules.insert(id, rule);
                obs
            }
            "load" => {
                let via = op.s("via");
                let ids = op.list("ids");
                let rules: Vec<AnyRule> = ids.iter().map(|i| self.rules.get(i).unwrap_or_else(|| panic!("harness: no rule {}", i)).clone()).collect();
                let fam = op.s("fam");
                let res_arg = name_of(op.get("res").unwrap_or("-"));
                macro_rules! pick {
                    ($v:ident) => {
                        rules.iter().filter_map(|r| if let AnyRule::$v(x) = r { Some(x.clone()) } else { None }).collect::<Vec<_>>()
                    };
                }
                let ret = match (fam.as_str(), via.as_str()) {
                    ("flow", "all") => format!("{}", flow::load_rules(pick!(Flow))),
                    ("flow", "res") => flow::load_rules_of_resource(&res_arg, pick!(Flow)).map(|b| b.to_string()).unwrap_or("err".into()),
                    ("flow", "append") => pick!(Flow).into_iter().map(|r| flow::append_rule(r).to_string()).collect::<Vec<_>>().join("+"),
                    ("br", "all") => format!("{}", br::load_rules(pick!(Br))),
                    ("br", "res") => br::load_rules_of_resource(&res_arg, pick!(Br)).map(|b| b.to_string()).unwrap_or("err".into()),
                    ("br", "append") => pick!(Br).into_iter().map(|r| br::append_rule(r).to_string()).collect::<Vec<_>>().join("+"),
                    ("hs", "all") => format!("{}", hs::load_rules(pick!(Hs))),
                    ("hs", "res") => hs::load_rules_of_resource(&res_arg, pick!(Hs)).map(|b| b.to_string()).unwrap_or("err".into()),
                    ("hs", "append") => pick!(Hs).into_iter().map(|r| hs::append_rule(r).to_string()).collect::<Vec<_>>().join("+"),
                    ("iso", "all") => {
                        iso::load_rules(pick!(Iso));
                        "unit".into()
                    }
                    ("iso", "res") => iso::load_rules_of_resource(&res_arg, pick!(Iso)).map(|b| b.to_string()).unwrap_or("err".into()),
                    ("iso", "append") => pick!(Iso).into_iter().map(|r| iso::append_rule(r).to_string()).collect::<Vec<_>>().join("+"),
                    ("sys", "all") => {
                        sys::load_rules(pick!(Sys));
                        "unit".into()
                    }
                    ("sys", "append") => pick!(Sys).into_iter().map(|r| sys::append_rule(r).to_string()).collect::<Vec<_>>().join("+"),
                    _ => panic!("harness: load {} {}", fam, via),
                };
                let listed: Vec<String> = ids.iter().map(|i| format!("{}:{}", i, self.listed(&fam, i) as u8)).collect();
                format!("ret={} listed={}", if ret.is_empty() { "-".to_string() } else { ret }, listed.join(","))
            }
            "build" => {
                let res = name_of(op.get("res").unwrap_or("-"));
                let mut b = EntryBuilder::new(res).with_batch_count(op.u_or("batch", 1) as u32);
                b = b.with_traffic_type(if op.get("dir") == Some("out") { TrafficType::Outbound } else { TrafficType::Inbound });
                if let Some(a) = op.get("args") {
                    let v: Vec<String> = if a.is_empty() { vec![] } else { a.split(',').map(|x| x.to_string()).collect() };
                    b = b.with_args(Some(v));
                }
                if let Some(a) = op.get("atts") {
                    let mut m = HashMap::new();
                    if !a.is_empty() {
                        for kv in a.split(',') {
                            let (k, v) = kv.split_once(':').unwrap();
                            m.insert(k.to_string(), v.to_string());
                        }
                    }
                    b = b.with_attachments(Some(m));
                }
                match b.build() {
                    Ok(e) => {
                        self.entries.push(e);
                        "pass".into()
                    }
                    Err(err) => block_obs(&err.to_string()),
                }
            }
            "exit" => match self.entries.pop() {
                Some(e) => {
                    if op.get("err") == Some("1") {
                        e.set_err(sentinel_core::Error::msg("biz"));
                    }
                    e.exit();
                    "ok".into()
                }
                None => "none".into(),
            },
            "probe" => {
                let mut bad = Vec::new();
                for fam in ["flow", "br", "hs", "iso", "sys"] {
                    if let Err(m) = self.probe_family(fam) {
                        bad.push(format!("{}:{}", fam, m.replace(' ', "_")));
                    }
                }
                if bad.is_empty() {
                    "healthy".into()
                } else {
                    format!("broken {}", bad.join(","))
                }
            }
            _ => panic!("harness: unknown op {}", op.name),
        }
    }
    fn finish(&mut self) {}
}
