//! C14 / C15 / C16: 2-3 real threads running operation lists on the real sentinel-core under the deterministic scheduler
//! of `sentinel_core::verif_sync` (hook). One child process per case: a deadlocked or aborted schedule leaves poisoned locks.
//!
//! Case format: setup operations (executed on the main thread), lines `t<i> <operation>` defining the thread programs,
//! then `run choices=c0,c1,...` which executes the programs under the schedule, then read-only observations.
use crate::common::*;
use sentinel_core::api::EntryBuilder;
use sentinel_core::base::{ConcurrencyStat, EntryStrongPtr, MetricEvent, ReadStat, Snapshot, TrafficType};
use sentinel_core::utils::verif_clock;
use sentinel_core::verif_sync::sched;
use sentinel_core::{circuitbreaker, flow, isolation, stat};
use std::sync::{Arc, Mutex};

pub struct Exec {
    case_no: u64,
    progs: Vec<Vec<Op>>,
    events: Arc<Mutex<Vec<String>>>,
    aborted: bool,
    setup_entries: Vec<EntryStrongPtr>,
    setup_nodes: Arc<Mutex<NodeIds>>,
}

/// records notifications; optionally calls back into read-only manager functions (what a user's listener may do)
struct Listener {
    events: Arc<Mutex<Vec<String>>>,
    callback: bool,
}
impl Listener {
    fn cb(&self, res: &String) {
        if self.callback {
            let _ = circuitbreaker::get_rules();
            let _ = circuitbreaker::get_breakers_of_resource(res);
            let _ = circuitbreaker::get_rules_of_resource(res);
        }
    }
}
impl circuitbreaker::StateChangeListener for Listener {
    fn on_transform_to_closed(&self, prev: circuitbreaker::State, rule: Arc<circuitbreaker::Rule>) {
        self.events.lock().unwrap().push(format!("{:?}>Closed:{}", prev, rule.id));
        sched::note(9, &format!("ev={:?}>Closed:{}", prev, rule.id));
        self.cb(&rule.resource);
    }
    fn on_transform_to_open(&self, prev: circuitbreaker::State, rule: Arc<circuitbreaker::Rule>, _snapshot: Option<Arc<Snapshot>>) {
        self.events.lock().unwrap().push(format!("{:?}>Open:{}", prev, rule.id));
        sched::note(9, &format!("ev={:?}>Open:{}", prev, rule.id));
        self.cb(&rule.resource);
    }
    fn on_transform_to_half_open(&self, prev: circuitbreaker::State, rule: Arc<circuitbreaker::Rule>) {
        self.events.lock().unwrap().push(format!("{:?}>HalfOpen:{}", prev, rule.id));
        sched::note(9, &format!("ev={:?}>HalfOpen:{}", prev, rule.id));
        self.cb(&rule.resource);
    }
    fn on_circuit_breaker_drop(&self, prev: circuitbreaker::State, rule: Arc<circuitbreaker::Rule>) {
        self.events.lock().unwrap().push(format!("{:?}>Dropped:{}", prev, rule.id));
        sched::note(9, &format!("ev={:?}>Dropped:{}", prev, rule.id));
        self.cb(&rule.resource);
    }
}

impl Exec {
    pub fn new(case_no: u64) -> Self {
        crate::world::clear_all_rules();
        verif_clock::enable(T0_NS + case_no * 3_600_000_000_000);
        circuitbreaker::clear_state_change_listeners();
        Exec { case_no, progs: Vec::new(), events: Arc::new(Mutex::new(Vec::new())), aborted: false, setup_entries: Vec::new(), setup_nodes: Arc::new(Mutex::new(NodeIds { seen: Vec::new() })) }
    }
}

fn res_name(case_no: u64, r: &str) -> String {
    if r.is_empty() || r == "-" {
        String::new()
    } else {
        format!("{}#{}", r, case_no)
    }
}

struct NodeIds {
    seen: Vec<usize>,
}
impl NodeIds {
    fn id(&mut self, p: usize) -> usize {
        match self.seen.iter().position(|x| *x == p) {
            Some(i) => i,
            None => {
                self.seen.push(p);
                self.seen.len() - 1
            }
        }
    }
}

/// one operation of a thread program; returns the observation
thread_local! {
    /// per thread, parallel to its stack of open entries: virtual time before / after the build call, resource
    static OPEN_TIMES: std::cell::RefCell<Vec<(u64, u64, String)>> = std::cell::RefCell::new(Vec::new());
}
/// per resource: sum over the exited entries of a lower and an upper bound of the entry's own round trip (ms)
static RT_BOUNDS: Mutex<Vec<(String, u64, u64)>> = Mutex::new(Vec::new());
fn now_ms() -> u64 {
    verif_clock::now_ns().unwrap_or(0) / 1_000_000
}

fn thread_op(case_no: u64, op: &Op, entries: &mut Vec<EntryStrongPtr>, node_ids: &Arc<Mutex<NodeIds>>) -> String {
    match op.name.as_str() {
        "build" => {
            let res = res_name(case_no, &op.s("res"));
            let res_key = res.clone();
            let t_before = now_ms();
            let dir = if op.get("dir") == Some("out") { TrafficType::Outbound } else { TrafficType::Inbound };
            match EntryBuilder::new(res).with_traffic_type(dir).with_batch_count(op.u_or("batch", 1) as u32).build() {
                Ok(e) => {
                    let ctx = e.context();
                    let node = ctx.read().unwrap().stat_node();
                    let nid = match node {
                        Some(n) => format!("{}", node_ids.lock().unwrap().id(Arc::as_ptr(&n) as *const () as usize)),
                        None => "-".into(),
                    };
                    entries.push(e);
                    OPEN_TIMES.with(|o| o.borrow_mut().push((t_before, now_ms(), res_key.clone())));
                    format!("pass:n{}", nid)
                }
                Err(err) => {
                    let m = err.to_string();
                    if m.contains("block_type") {
                        let (ty, _, _) = parse_block_full(&m);
                        format!("blocked:{}", ty)
                    } else {
                        "err".into()
                    }
                }
            }
        }
        "exit" => match entries.pop() {
            Some(e) => {
                if op.get("err") == Some("1") {
                    e.set_err(sentinel_core::Error::msg("biz"));
                }
                // bounds on this entry's own round trip from the virtual clock read around its build and its exit
                let times = OPEN_TIMES.with(|o| o.borrow_mut().pop());
                let t_exit_before = now_ms();
                e.exit();
                let t_exit_after = now_ms();
                if let Some((tb0, tb1, res)) = times {
                    let mut m = RT_BOUNDS.lock().unwrap();
                    if !m.iter().any(|b| b.0 == res) {
                        m.push((res.clone(), 0, 0));
                    }
                    let b = m.iter_mut().find(|b| b.0 == res).unwrap();
                    b.1 += t_exit_before.saturating_sub(tb1);
                    b.2 += t_exit_after.saturating_sub(tb0);
                }
                "ok".into()
            }
            None => "none".into(),
        },
        "adv" => {
            verif_clock::advance_ns(op.u_or("ns", 0) + op.u_or("ms", 0) * 1_000_000);
            "ok".into()
        }
        "m" => {
            let mut m = crate::mgr::Exec::attach(case_no);
            use crate::common::CaseExec;
            m.step(op).replace(' ', "_")
        }
        "brstate" => {
            let res = res_name(case_no, &op.s("res"));
            circuitbreaker::get_breakers_of_resource(&res).iter().map(|b| format!("{:?}", b.current_state())).collect::<Vec<_>>().join("+")
        }
        _ => panic!("harness: unknown thread op {}", op.name),
    }
}

impl CaseExec for Exec {
    fn step(&mut self, op: &Op) -> String {
        // thread program lines
        if op.name.len() >= 2 && op.name.starts_with('t') && op.name[1..].chars().all(|c| c.is_ascii_digit()) {
            let i: usize = op.name[1..].parse().unwrap();
            while self.progs.len() <= i {
                self.progs.push(Vec::new());
            }
            let mut words = op.words.clone();
            if words.is_empty() {
                panic!("harness: empty thread op");
            }
            let name = words.remove(0);
            self.progs[i].push(Op { name, kv: op.kv.clone(), words });
            return "queued".into();
        }
        if self.aborted {
            // threads stuck in the aborted schedule still hold locks: nothing more can be observed in this process
            return "skipped-after-abort".into();
        }
        match op.name.as_str() {
            "clock" => format!("t={}", verif_clock::now_ns().unwrap()),
            "adv" => {
                verif_clock::advance_ns(op.u_or("ns", 0) + op.u_or("ms", 0) * 1_000_000);
                "ok".into()
            }
            // entries built / exited by the main thread before the schedule starts (e.g. to trip a breaker)
            "sbuild" | "sexit" => {
                let mut o = op.clone();
                o.name = if op.name == "sbuild" { "build".into() } else { "exit".into() };
                let ids = self.setup_nodes.clone();
                // the listener notifications this very call caused: the setup is sequential, so the Spec knows at which
                // virtual time the breaker was opened before the schedule starts (its retry deadline; seed C16-f)
                let before = self.events.lock().unwrap().len();
                let r = thread_op(self.case_no, &o, &mut self.setup_entries, &ids);
                let new: Vec<String> = self.events.lock().unwrap()[before..].to_vec();
                if new.is_empty() { r } else { format!("{} evs={}", r, new.join(",")) }
            }
            "touch" => {
                let res = res_name(self.case_no, &op.s("res"));
                let _ = stat::get_or_create_resource_node(&res, &sentinel_core::base::ResourceType::Common);
                "ok".into()
            }
            "flow.load" => {
                let res = res_name(self.case_no, &op.s("res"));
                let r = Arc::new(flow::Rule { id: "f".into(), resource: res.clone(), threshold: op.f("thr"), stat_interval_ms: 1000, ..Default::default() });
                format!("{}", flow::load_rules_of_resource(&res, vec![r]).map(|b| b.to_string()).unwrap_or("err".into()))
            }
            "iso.load" => {
                let res = res_name(self.case_no, &op.s("res"));
                let r = Arc::new(isolation::Rule { id: "i".into(), resource: res.clone(), threshold: op.u("thr") as u32, ..Default::default() });
                format!("{}", isolation::load_rules_of_resource(&res, vec![r]).map(|b| b.to_string()).unwrap_or("err".into()))
            }
            "br.load" => {
                // strategy c|r|s, threshold, retry, minreq
                let res = res_name(self.case_no, &op.s("res"));
                let r = Arc::new(circuitbreaker::Rule {
                    id: op.get("id").unwrap_or("b").to_string(),
                    resource: res.clone(),
                    strategy: match op.s("strat").as_str() {
                        "s" => circuitbreaker::BreakerStrategy::SlowRequestRatio,
                        "r" => circuitbreaker::BreakerStrategy::ErrorRatio,
                        _ => circuitbreaker::BreakerStrategy::ErrorCount,
                    },
                    retry_timeout_ms: op.u_or("retry", 1000) as u32,
                    min_request_amount: op.u_or("minreq", 1),
                    stat_interval_ms: op.u_or("ivl", 10000) as u32,
                    stat_sliding_window_bucket_count: 1,
                    max_allowed_rt_ms: op.u_or("maxrt", 0),
                    threshold: op.f("thr"),
                });
                format!("{}", circuitbreaker::load_rules_of_resource(&res, vec![r]).map(|b| b.to_string()).unwrap_or("err".into()))
            }
            "listener" => {
                circuitbreaker::register_state_change_listeners(vec![Arc::new(Listener { events: self.events.clone(), callback: op.get("callback") == Some("1") })]);
                "ok".into()
            }
            "m" => {
                let mut m = crate::mgr::Exec::attach(self.case_no);
                m.step(op)
            }
            "run" => {
                let n = self.progs.len();
                let choices: Vec<u8> = op.list("choices").iter().map(|c| c.parse().unwrap()).collect();
                let max_steps = op.u_or("maxsteps", 20000) as usize;
                let node_ids = Arc::new(Mutex::new(NodeIds { seen: Vec::new() }));
                let case_no = self.case_no;
                sched::start(n, choices, max_steps);
                // each thread reports through a shared slot; a thread stuck in an aborted schedule never reports
                let slots: Arc<Mutex<Vec<Option<(Vec<String>, String, usize)>>>> = Arc::new(Mutex::new(vec![None; n]));
                for (i, prog) in self.progs.iter().cloned().enumerate() {
                    let node_ids = node_ids.clone();
                    let slots = slots.clone();
                    std::thread::spawn(move || {
                        let mut results: Vec<String> = Vec::new();
                        let mut entries: Vec<EntryStrongPtr> = Vec::new();
                        let r = std::panic::catch_unwind(std::panic::AssertUnwindSafe(|| {
                            sched::enter(i);
                            for o in &prog {
                                let obs = thread_op(case_no, o, &mut entries, &node_ids);
                                sched::note(i, &format!("{}={}", o.name, obs));
                                results.push(format!("{}={}", o.name, obs));
                            }
                        }));
                        let status = match r {
                            Ok(_) => "ok".to_string(),
                            Err(p) => format!("panic:{}", panic_msg(&p).replace(' ', "_").replace('\n', "_")),
                        };
                        sched::leave(i, &status);
                        let open = entries.len();
                        std::mem::forget(entries);
                        slots.lock().unwrap()[i] = Some((results, status, open));
                    });
                }
                let mut aborted = false;
                loop {
                    if slots.lock().unwrap().iter().all(|s| s.is_some()) {
                        break;
                    }
                    if sched::aborted() {
                        // give the threads that can still finish a moment, then stop waiting
                        std::thread::sleep(std::time::Duration::from_millis(20));
                        aborted = true;
                        break;
                    }
                    std::thread::sleep(std::time::Duration::from_micros(200));
                }
                self.aborted = aborted;
                let mut res_txt = Vec::new();
                let mut status_txt = Vec::new();
                for (i, s) in slots.lock().unwrap().iter().enumerate() {
                    match s {
                        Some((results, status, open)) => {
                            res_txt.push(format!("t{}:{}", i, results.join(",")));
                            status_txt.push(format!("t{}:{}:open{}", i, status, open));
                        }
                        None => status_txt.push(format!("t{}:stuck", i)),
                    }
                }
                let (log, deadlock, used) = sched::finish();
                let ev = self.events.lock().unwrap().join(",");
                format!(
                    "deadlock={} points={} status={} results={} events={} log={}",
                    deadlock as u8,
                    used,
                    status_txt.join(";"),
                    res_txt.join(";"),
                    if ev.is_empty() { "-".to_string() } else { ev },
                    log.join(";").replace(' ', "~")
                )
            }
            "node" => {
                let res = res_name(self.case_no, &op.s("res"));
                match stat::get_resource_node(&res) {
                    Some(n) => {
                        let (lo, hi) = RT_BOUNDS.lock().unwrap().iter().find(|b| b.0 == res).map(|b| (b.1, b.2)).unwrap_or((0, 0));
                        format!(
                            "conc={} pass={} block={} complete={} rt={} rtlo={} rthi={}",
                            n.current_concurrency(),
                            n.sum(MetricEvent::Pass),
                            n.sum(MetricEvent::Block),
                            n.sum(MetricEvent::Complete),
                            n.sum(MetricEvent::Rt),
                            lo,
                            hi
                        )
                    }
                    None => "none".into(),
                }
            }
            "brstate" => {
                let res = res_name(self.case_no, &op.s("res"));
                circuitbreaker::get_breakers_of_resource(&res).iter().map(|b| format!("{:?}", b.current_state())).collect::<Vec<_>>().join("+")
            }
            "probe" => crate::c12::Exec::bare().probe_all(),
            _ => panic!("harness: unknown op {}", op.name),
        }
    }
}
