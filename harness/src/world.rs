//! Entries through the real global slot chain with rules of the various families (C01, C04, C05, ...).
use crate::common::*;
use sentinel_core::api::EntryBuilder;
use sentinel_core::base::{ConcurrencyStat, EntryStrongPtr, MetricEvent, ReadStat, TrafficType};
use sentinel_core::utils::verif_clock;
use sentinel_core::{circuitbreaker, flow, hotspot, isolation, stat, system};
use sentinel_core::base::Snapshot;
use std::sync::Mutex;
use std::collections::HashMap;
use std::sync::Arc;

pub struct Exec {
    pub case_no: u64,
    pub entries: HashMap<u64, EntryStrongPtr>,
    pub events: Arc<Mutex<Vec<String>>>,
}

/// records every state-change notification
struct Listener {
    events: Arc<Mutex<Vec<String>>>,
}
fn snap_text(s: &Option<Arc<Snapshot>>) -> String {
    match s {
        Some(v) => snap_norm(&format!("{:?}", v)),
        None => "-".into(),
    }
}
impl circuitbreaker::StateChangeListener for Listener {
    fn on_transform_to_closed(&self, prev: circuitbreaker::State, rule: Arc<circuitbreaker::Rule>) {
        self.events.lock().unwrap().push(format!("{:?}>Closed:{}:-", prev, rule.id));
    }
    fn on_transform_to_open(&self, prev: circuitbreaker::State, rule: Arc<circuitbreaker::Rule>, snapshot: Option<Arc<Snapshot>>) {
        self.events.lock().unwrap().push(format!("{:?}>Open:{}:{}", prev, rule.id, snap_text(&snapshot)));
    }
    fn on_transform_to_half_open(&self, prev: circuitbreaker::State, rule: Arc<circuitbreaker::Rule>) {
        self.events.lock().unwrap().push(format!("{:?}>HalfOpen:{}:-", prev, rule.id));
    }
}

pub use crate::common::clear_all_rules;

impl Exec {
    pub fn new(case_no: u64) -> Self {
        clear_all_rules();
        // one virtual hour per case (and at least one hour after whatever time the previous case reached): the
        // process-global inbound node's window is empty at case start and time never runs backwards
        let hour = 3_600_000_000_000u64;
        // rounded up to a multiple of 10 s (as T0 is): the generators' offsets (0, 250, 499, 500 ...) then sit where they are meant to,
        // on and next to bucket boundaries, in every case of a process and not only in its first one (seed C04-f)
        let ten_s = 10_000_000_000u64;
        let after_prev = verif_clock::now_ns().map(|t| (t + hour + ten_s - 1) / ten_s * ten_s).unwrap_or(0);
        verif_clock::enable(std::cmp::max(T0_NS + case_no * hour, after_prev));
        sentinel_core::system_metric::verif::set_system_load(0.0);
        sentinel_core::system_metric::verif::set_cpu_usage(0.0);
        let events = Arc::new(Mutex::new(Vec::new()));
        circuitbreaker::clear_state_change_listeners();
        circuitbreaker::register_state_change_listeners(vec![Arc::new(Listener { events: events.clone() })]);
        Exec { case_no, entries: HashMap::new(), events }
    }
    /// " ev=a|b" for the notifications since the last call (empty string when none)
    pub fn take_events(&self) -> String {
        let mut e = self.events.lock().unwrap();
        if e.is_empty() {
            String::new()
        } else {
            let s = format!(" ev={}", e.join("|"));
            e.clear();
            s
        }
    }
    pub fn res(&self, r: &str) -> String {
        format!("{}#{}", r, self.case_no)
    }
}

pub fn node_obs(n: &Arc<stat::ResourceNode>) -> String {
    let s: Vec<String> = crate::c02::KINDS.iter().map(|k| n.sum(*k).to_string()).collect();
    format!(
        "s={} conc={} m={} q={} a={}",
        s.join(","),
        n.current_concurrency(),
        snap_norm(&format!("{}", n.min_rt())),
        f64_exact(n.qps(MetricEvent::Pass)),
        f64_exact(n.avg_rt())
    )
}

fn flow_rule_of(res: &str, spec: &str) -> Arc<flow::Rule> {
    // id:thr:ivl[:calc(d|w):ctl(r|t):period:cold:maxq]
    let p: Vec<&str> = spec.split(':').collect();
    let g = |i: usize, d: &str| -> String { p.get(i).map(|x| x.to_string()).unwrap_or(d.to_string()) };
    Arc::new(flow::Rule {
        id: p[0].to_string(),
        resource: res.to_string(),
        threshold: parse_frac(p[1]),
        stat_interval_ms: p[2].parse().unwrap(),
        calculate_strategy: if g(3, "d") == "w" { flow::CalculateStrategy::WarmUp } else { flow::CalculateStrategy::Direct },
        control_strategy: if g(4, "r") == "t" { flow::ControlStrategy::Throttling } else { flow::ControlStrategy::Reject },
        warm_up_period_sec: g(5, "0").parse().unwrap(),
        warm_up_cold_factor: g(6, "0").parse().unwrap(),
        max_queueing_time_ms: g(7, "0").parse().unwrap(),
        ..Default::default()
    })
}

fn hs_rule_of(res: &str, spec: &str) -> Arc<hotspot::Rule> {
    // id;metric(c|q);strategy(r|t);idx;key;thr;maxq;burst;dur;cap;k=v|k=v
    let p: Vec<&str> = spec.split(';').collect();
    let mut specific = HashMap::new();
    if p.len() > 10 && !p[10].is_empty() {
        for kv in p[10].split('|') {
            let (k, v) = kv.split_once('=').unwrap();
            specific.insert(k.to_string(), v.parse::<u64>().unwrap());
        }
    }
    Arc::new(hotspot::Rule {
        id: p[0].to_string(),
        resource: res.to_string(),
        metric_type: if p[1] == "c" { hotspot::MetricType::Concurrency } else { hotspot::MetricType::QPS },
        control_strategy: if p[2] == "t" { hotspot::ControlStrategy::Throttling } else { hotspot::ControlStrategy::Reject },
        param_index: p[3].parse().unwrap(),
        param_key: p[4].to_string(),
        threshold: p[5].parse().unwrap(),
        max_queueing_time_ms: p[6].parse().unwrap(),
        burst_count: p[7].parse().unwrap(),
        duration_in_sec: p[8].parse().unwrap(),
        params_max_capacity: p[9].parse().unwrap(),
        specific_items: specific,
    })
}

fn br_rule_of(res: &str, spec: &str) -> Arc<circuitbreaker::Rule> {
    // id;strategy(s|r|c);retry;minreq;ivl;buckets;maxrt;thr
    let p: Vec<&str> = spec.split(';').collect();
    Arc::new(circuitbreaker::Rule {
        id: p[0].to_string(),
        resource: res.to_string(),
        strategy: match p[1] {
            "s" => circuitbreaker::BreakerStrategy::SlowRequestRatio,
            "r" => circuitbreaker::BreakerStrategy::ErrorRatio,
            _ => circuitbreaker::BreakerStrategy::ErrorCount,
        },
        retry_timeout_ms: p[2].parse().unwrap(),
        min_request_amount: p[3].parse().unwrap(),
        stat_interval_ms: p[4].parse().unwrap(),
        stat_sliding_window_bucket_count: p[5].parse().unwrap(),
        max_allowed_rt_ms: p[6].parse().unwrap(),
        threshold: parse_frac(p[7]),
    })
}

impl CaseExec for Exec {
    fn step(&mut self, op: &Op) -> String {
        match op.name.as_str() {
            "flow.loadall" | "hs.loadall" | "br.loadall" => {
                // rules=<res>/<spec>,...  : replaces the rules of every resource of the family in one call
                let fam = op.name.split('.').next().unwrap().to_string();
                let mut named: Vec<String> = Vec::new();
                let mut pairs: Vec<(String, String)> = Vec::new();
                for item in op.list("rules") {
                    let (r, spec) = item.split_once('/').unwrap();
                    if !named.contains(&r.to_string()) {
                        named.push(r.to_string());
                    }
                    pairs.push((self.res(r), spec.to_string()));
                }
                for r in op.list("also") {
                    if !named.contains(&r) {
                        named.push(r);
                    }
                }
                let ret = match fam.as_str() {
                    "flow" => flow::load_rules(pairs.iter().map(|(r, s)| flow_rule_of(r, s)).collect()),
                    "hs" => hotspot::load_rules(pairs.iter().map(|(r, s)| hs_rule_of(r, s)).collect()),
                    _ => circuitbreaker::load_rules(pairs.iter().map(|(r, s)| br_rule_of(r, s)).collect()),
                };
                named.sort();
                let held: Vec<String> = named
                    .iter()
                    .map(|r| {
                        let full = self.res(r);
                        let ids: Vec<String> = match fam.as_str() {
                            "flow" => flow::get_traffic_controller_list_for(&full).iter().map(|c| c.rule().id.clone()).collect(),
                            "hs" => hotspot::get_traffic_controller_list_for(&full).iter().map(|c| c.rule().id.clone()).collect(),
                            _ => circuitbreaker::get_breakers_of_resource(&full).iter().map(|b| b.bound_rule().id.clone()).collect(),
                        };
                        format!("{}:{}", r, ids.join(","))
                    })
                    .collect();
                format!("ret={} held={}{}", ret, held.join("|"), self.take_events())
            }
            "clock" => format!("t={}", verif_clock::now_ns().unwrap()),
            "note" => "ok".into(),
            "adv" => {
                let ns = op.u_or("ns", 0) + op.u_or("ms", 0) * 1_000_000;
                verif_clock::advance_ns(ns);
                "ok".into()
            }
            "flow.load" => {
                let res = self.res(&op.s("res"));
                let mut rules = Vec::new();
                for spec in op.list("rules") {
                    let p: Vec<&str> = spec.split(':').collect();
                    // id:thr:ivl[:calc(d|w):ctl(r|t):period:cold:maxq]
                    let g = |i: usize, d: &str| -> String { p.get(i).map(|x| x.to_string()).unwrap_or(d.to_string()) };
                    rules.push(Arc::new(flow::Rule {
                        id: p[0].to_string(),
                        resource: res.clone(),
                        threshold: parse_frac(p[1]),
                        stat_interval_ms: p[2].parse().unwrap(),
                        calculate_strategy: if g(3, "d") == "w" { flow::CalculateStrategy::WarmUp } else { flow::CalculateStrategy::Direct },
                        control_strategy: if g(4, "r") == "t" { flow::ControlStrategy::Throttling } else { flow::ControlStrategy::Reject },
                        warm_up_period_sec: g(5, "0").parse().unwrap(),
                        warm_up_cold_factor: g(6, "0").parse().unwrap(),
                        max_queueing_time_ms: g(7, "0").parse().unwrap(),
                        ..Default::default()
                    }));
                }
                let ret = flow::load_rules_of_resource(&res, rules);
                let ctrls = flow::get_traffic_controller_list_for(&res);
                let ids: Vec<String> = ctrls.iter().map(|c| c.rule().id.clone()).collect();
                // which statistic `generate_stat_for` gave each controller: the resource node's windows (g) or an own array (p)
                let kinds: Vec<&str> = ctrls.iter().map(|c| if c.stat().reuse_global() { "g" } else { "p" }).collect();
                format!("ret={} ctrls={} stats={}", ret.map(|b| b.to_string()).unwrap_or("err".into()), ids.join(","), kinds.join(","))
            }
            "iso.load" => {
                let res = self.res(&op.s("res"));
                let mut rules = Vec::new();
                for spec in op.list("rules") {
                    let p: Vec<&str> = spec.split(':').collect();
                    rules.push(Arc::new(isolation::Rule {
                        id: p[0].to_string(),
                        resource: res.clone(),
                        threshold: p[1].parse().unwrap(),
                        ..Default::default()
                    }));
                }
                let ret = isolation::load_rules_of_resource(&res, rules);
                let ids: Vec<String> = isolation::get_rules_of_resource(&res).iter().map(|r| r.id.clone()).collect();
                format!("ret={} rules={}", ret.map(|b| b.to_string()).unwrap_or("err".into()), ids.join(","))
            }
            "sys.load" => {
                let mut rules = Vec::new();
                for spec in op.list("rules") {
                    let p: Vec<&str> = spec.split(':').collect();
                    let metric = match p[1] {
                        "load" => system::MetricType::Load,
                        "avgrt" => system::MetricType::AvgRT,
                        "conc" => system::MetricType::Concurrency,
                        "qps" => system::MetricType::InboundQPS,
                        "cpu" => system::MetricType::CpuUsage,
                        _ => panic!("harness: bad metric"),
                    };
                    let strategy = if p[2] == "bbr" { system::AdaptiveStrategy::BBR } else { system::AdaptiveStrategy::NoAdaptive };
                    rules.push(Arc::new(system::Rule { id: p[0].to_string(), metric_type: metric, strategy, threshold: parse_frac(p[3]) }));
                }
                system::load_rules(rules);
                let ids: Vec<String> = system::get_rules().iter().map(|r| r.id.clone()).collect();
                format!("rules={}", ids.join(","))
            }
            "sys.set" => {
                if let Some(l) = op.get("load") {
                    sentinel_core::system_metric::verif::set_system_load(parse_frac(l));
                }
                if let Some(c) = op.get("cpu") {
                    sentinel_core::system_metric::verif::set_cpu_usage(parse_frac(c) as f32);
                }
                "ok".into()
            }
            "hs.load" => {
                let res = self.res(&op.s("res"));
                let mut rules = Vec::new();
                for spec in op.list("rules") {
                    // id;metric(c|q);strategy(r|t);idx;key;thr;maxq;burst;dur;cap;k=v|k=v
                    let p: Vec<&str> = spec.split(';').collect();
                    let mut specific = HashMap::new();
                    if p.len() > 10 && !p[10].is_empty() {
                        for kv in p[10].split('|') {
                            let (k, v) = kv.split_once('=').unwrap();
                            specific.insert(k.to_string(), v.parse::<u64>().unwrap());
                        }
                    }
                    rules.push(Arc::new(hotspot::Rule {
                        id: p[0].to_string(),
                        resource: res.clone(),
                        metric_type: if p[1] == "c" { hotspot::MetricType::Concurrency } else { hotspot::MetricType::QPS },
                        control_strategy: if p[2] == "t" { hotspot::ControlStrategy::Throttling } else { hotspot::ControlStrategy::Reject },
                        param_index: p[3].parse().unwrap(),
                        param_key: p[4].to_string(),
                        threshold: p[5].parse().unwrap(),
                        max_queueing_time_ms: p[6].parse().unwrap(),
                        burst_count: p[7].parse().unwrap(),
                        duration_in_sec: p[8].parse().unwrap(),
                        params_max_capacity: p[9].parse().unwrap(),
                        specific_items: specific,
                    }));
                }
                let ret = hotspot::load_rules_of_resource(&res, rules);
                let ids: Vec<String> =
                    hotspot::get_traffic_controller_list_for(&res).iter().map(|c| c.rule().id.clone()).collect();
                format!("ret={} ctrls={}", ret.map(|b| b.to_string()).unwrap_or("err".into()), ids.join(","))
            }
            "br.load" => {
                let res = self.res(&op.s("res"));
                let mut rules = Vec::new();
                for spec in op.list("rules") {
                    // id;strategy(s|r|c);retry;minreq;ivl;buckets;maxrt;thr
                    let p: Vec<&str> = spec.split(';').collect();
                    rules.push(Arc::new(circuitbreaker::Rule {
                        id: p[0].to_string(),
                        resource: res.clone(),
                        strategy: match p[1] {
                            "s" => circuitbreaker::BreakerStrategy::SlowRequestRatio,
                            "r" => circuitbreaker::BreakerStrategy::ErrorRatio,
                            _ => circuitbreaker::BreakerStrategy::ErrorCount,
                        },
                        retry_timeout_ms: p[2].parse().unwrap(),
                        min_request_amount: p[3].parse().unwrap(),
                        stat_interval_ms: p[4].parse().unwrap(),
                        stat_sliding_window_bucket_count: p[5].parse().unwrap(),
                        max_allowed_rt_ms: p[6].parse().unwrap(),
                        threshold: parse_frac(p[7]),
                    }));
                }
                let ret = circuitbreaker::load_rules_of_resource(&res, rules);
                let ids: Vec<String> = circuitbreaker::get_breakers_of_resource(&res)
                    .iter()
                    .map(|b| b.bound_rule().id.clone())
                    .collect();
                format!("ret={} breakers={}{}", ret.map(|b| b.to_string()).unwrap_or("err".into()), ids.join(","), self.take_events())
            }
            "br.state" => {
                let res = self.res(&op.s("res"));
                let v: Vec<String> = circuitbreaker::get_breakers_of_resource(&res)
                    .iter()
                    .map(|b| format!("{}:{:?}", b.bound_rule().id, b.current_state()))
                    .collect();
                format!("states={}", v.join(","))
            }
            "build" => {
                let res = self.res(&op.s("res"));
                let dir = if op.get("dir") == Some("in") { TrafficType::Inbound } else { TrafficType::Outbound };
                let mut b = EntryBuilder::new(res).with_traffic_type(dir).with_batch_count(op.u_or("batch", 1) as u32);
                if let Some(t) = op.get("rtype") {
                    // the resource classification must not influence any verdict or statistic
                    use sentinel_core::base::ResourceType as RT;
                    b = b.with_resource_type(match t {
                        "web" => RT::Web,
                        "rpc" => RT::RPC,
                        "api" => RT::APIGateway,
                        "db" => RT::DBSQL,
                        "cache" => RT::Cache,
                        "mq" => RT::MQ,
                        _ => RT::Common,
                    });
                }
                if op.get("args").is_some() {
                    b = b.with_args(Some(op.list("args")));
                }
                if op.get("atts").is_some() {
                    let mut m = HashMap::new();
                    for kv in op.list("atts") {
                        let (k, v) = kv.split_once(':').unwrap();
                        m.insert(k.to_string(), v.to_string());
                    }
                    b = b.with_attachments(Some(m));
                }
                let t0 = verif_clock::now_ns().unwrap();
                let r = b.build();
                let dt = verif_clock::now_ns().unwrap() - t0;
                match r {
                    Ok(e) => {
                        self.entries.insert(op.u("e"), e);
                        format!("pass dt={}{}", dt, self.take_events())
                    }
                    Err(err) => {
                        let (ty, rule, snap) = parse_block_full(&err.to_string());
                        format!("blocked type={} rule={} snap={} dt={}{}", ty, rule, snap_norm(&snap), dt, self.take_events())
                    }
                }
            }
            "exit" => match self.entries.remove(&op.u("e")) {
                Some(e) => {
                    if op.u_or("err", 0) == 1 {
                        e.set_err(sentinel_core::Error::msg("biz error"));
                    }
                    e.exit();
                    format!("ok{}", self.take_events())
                }
                None => "noentry".into(),
            },
            "node" => {
                let r = op.s("res");
                if r == "__inbound__" {
                    node_obs(&stat::inbound_node())
                } else {
                    match stat::get_resource_node(&self.res(&r)) {
                        Some(n) => node_obs(&n),
                        None => "none".into(),
                    }
                }
            }
            "ctrl" => {
                let res = self.res(&op.s("res"));
                let v: Vec<String> = flow::get_traffic_controller_list_for(&res)
                    .iter()
                    .map(|c| format!("{}:{}", c.rule().id, c.stat().read_only_metric().sum(MetricEvent::Pass)))
                    .collect();
                format!("sums={}", v.join(","))
            }
            _ => panic!("harness: unknown op {}", op.name),
        }
    }
    fn finish(&mut self) {
        // every passed entry is exited exactly once (precondition of the accounting properties)
        let ids: Vec<u64> = self.entries.keys().cloned().collect();
        for id in ids {
            if let Some(e) = self.entries.remove(&id) {
                let _ = std::panic::catch_unwind(std::panic::AssertUnwindSafe(|| e.exit()));
            }
        }
        clear_all_rules();
        circuitbreaker::clear_state_change_listeners();
    }
}
