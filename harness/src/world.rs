//! Entries through the real global slot chain with rules of the various families (C01, C04, C05, ...).
use crate::common::*;
use sentinel_core::api::EntryBuilder;
use sentinel_core::base::{ConcurrencyStat, EntryStrongPtr, MetricEvent, ReadStat, TrafficType};
use sentinel_core::utils::verif_clock;
use sentinel_core::{flow, isolation, stat, system};
use std::collections::HashMap;
use std::sync::Arc;

pub struct Exec {
    pub case_no: u64,
    pub entries: HashMap<u64, EntryStrongPtr>,
}

pub fn clear_all_rules() {
    flow::clear_rules();
    isolation::clear_rules();
    sentinel_core::system::clear_rules();
    sentinel_core::hotspot::clear_rules();
    sentinel_core::circuitbreaker::clear_rules();
}

impl Exec {
    pub fn new(case_no: u64) -> Self {
        clear_all_rules();
        // one virtual hour per case: the process-global inbound node's window is empty at case start
        verif_clock::enable(T0_NS + case_no * 3_600_000_000_000);
        sentinel_core::system_metric::verif::set_system_load(0.0);
        sentinel_core::system_metric::verif::set_cpu_usage(0.0);
        Exec { case_no, entries: HashMap::new() }
    }
    pub fn res(&self, r: &str) -> String {
        format!("{}#{}", r, self.case_no)
    }
}

pub fn node_obs(n: &Arc<stat::ResourceNode>) -> String {
    let s: Vec<String> = crate::c02::KINDS.iter().map(|k| n.sum(*k).to_string()).collect();
    format!(
        "s={} conc={} m={} q={} a={}",
        s.join(","),
        n.current_concurrency(),
        snap_norm(&format!("{}", n.min_rt())),
        f64_exact(n.qps(MetricEvent::Pass)),
        f64_exact(n.avg_rt())
    )
}

impl CaseExec for Exec {
    fn step(&mut self, op: &Op) -> String {
        match op.name.as_str() {
            "clock" => format!("t={}", verif_clock::now_ns().unwrap()),
            "adv" => {
                let ns = op.u_or("ns", 0) + op.u_or("ms", 0) * 1_000_000;
                verif_clock::advance_ns(ns);
                "ok".into()
            }
            "flow.load" => {
                let res = self.res(&op.s("res"));
                let mut rules = Vec::new();
                for spec in op.list("rules") {
                    let p: Vec<&str> = spec.split(':').collect();
                    rules.push(Arc::new(flow::Rule {
                        id: p[0].to_string(),
                        resource: res.clone(),
                        threshold: parse_frac(p[1]),
                        stat_interval_ms: p[2].parse().unwrap(),
                        calculate_strategy: flow::CalculateStrategy::Direct,
                        control_strategy: flow::ControlStrategy::Reject,
                        ..Default::default()
                    }));
                }
                let ret = flow::load_rules_of_resource(&res, rules);
                let ids: Vec<String> =
                    flow::get_traffic_controller_list_for(&res).iter().map(|c| c.rule().id.clone()).collect();
                format!("ret={} ctrls={}", ret.map(|b| b.to_string()).unwrap_or("err".into()), ids.join(","))
            }
            "iso.load" => {
                let res = self.res(&op.s("res"));
                let mut rules = Vec::new();
                for spec in op.list("rules") {
                    let p: Vec<&str> = spec.split(':').collect();
                    rules.push(Arc::new(isolation::Rule {
                        id: p[0].to_string(),
                        resource: res.clone(),
                        threshold: p[1].parse().unwrap(),
                        ..Default::default()
                    }));
                }
                let ret = isolation::load_rules_of_resource(&res, rules);
                let ids: Vec<String> = isolation::get_rules_of_resource(&res).iter().map(|r| r.id.clone()).collect();
                format!("ret={} rules={}", ret.map(|b| b.to_string()).unwrap_or("err".into()), ids.join(","))
            }
            "sys.load" => {
                let mut rules = Vec::new();
                for spec in op.list("rules") {
                    let p: Vec<&str> = spec.split(':').collect();
                    let metric = match p[1] {
                        "load" => system::MetricType::Load,
                        "avgrt" => system::MetricType::AvgRT,
                        "conc" => system::MetricType::Concurrency,
                        "qps" => system::MetricType::InboundQPS,
                        "cpu" => system::MetricType::CpuUsage,
                        _ => panic!("harness: bad metric"),
                    };
                    let strategy = if p[2] == "bbr" { system::AdaptiveStrategy::BBR } else { system::AdaptiveStrategy::NoAdaptive };
                    rules.push(Arc::new(system::Rule { id: p[0].to_string(), metric_type: metric, strategy, threshold: parse_frac(p[3]) }));
                }
                system::load_rules(rules);
                let ids: Vec<String> = system::get_rules().iter().map(|r| r.id.clone()).collect();
                format!("rules={}", ids.join(","))
            }
            "sys.set" => {
                if let Some(l) = op.get("load") {
                    sentinel_core::system_metric::verif::set_system_load(parse_frac(l));
                }
                if let Some(c) = op.get("cpu") {
                    sentinel_core::system_metric::verif::set_cpu_usage(parse_frac(c) as f32);
                }
                "ok".into()
            }
            "build" => {
                let res = self.res(&op.s("res"));
                let dir = if op.get("dir") == Some("in") { TrafficType::Inbound } else { TrafficType::Outbound };
                let b = EntryBuilder::new(res).with_traffic_type(dir).with_batch_count(op.u_or("batch", 1) as u32);
                match b.build() {
                    Ok(e) => {
                        self.entries.insert(op.u("e"), e);
                        "pass".into()
                    }
                    Err(err) => {
                        let (ty, rule, snap) = parse_block_full(&err.to_string());
                        format!("blocked type={} rule={} snap={}", ty, rule, snap_norm(&snap))
                    }
                }
            }
            "exit" => match self.entries.remove(&op.u("e")) {
                Some(e) => {
                    e.exit();
                    "ok".into()
                }
                None => "noentry".into(),
            },
            "node" => {
                let r = op.s("res");
                if r == "__inbound__" {
                    node_obs(&stat::inbound_node())
                } else {
                    match stat::get_resource_node(&self.res(&r)) {
                        Some(n) => node_obs(&n),
                        None => "none".into(),
                    }
                }
            }
            "ctrl" => {
                let res = self.res(&op.s("res"));
                let v: Vec<String> = flow::get_traffic_controller_list_for(&res)
                    .iter()
                    .map(|c| format!("{}:{}", c.rule().id, c.stat().read_only_metric().sum(MetricEvent::Pass)))
                    .collect();
                format!("sums={}", v.join(","))
            }
            _ => panic!("harness: unknown op {}", op.name),
        }
    }
    fn finish(&mut self) {
        // every passed entry is exited exactly once (precondition of the accounting properties)
        let ids: Vec<u64> = self.entries.keys().cloned().collect();
        for id in ids {
            if let Some(e) = self.entries.remove(&id) {
                let _ = std::panic::catch_unwind(std::panic::AssertUnwindSafe(|| e.exit()));
            }
        }
        clear_all_rules();
    }
}
