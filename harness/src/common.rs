#![allow(dead_code)]
use std::any::Any;

/// One parsed operation line: `name k=v k=v word ...`
#[derive(Debug, Clone)]
pub struct Op {
    pub name: String,
    pub kv: Vec<(String, String)>,
    pub words: Vec<String>,
}

impl Op {
    pub fn parse(line: &str) -> Op {
        let mut it = line.split_whitespace();
        let name = it.next().unwrap_or("").to_string();
        let mut kv = Vec::new();
        let mut words = Vec::new();
        for tok in it {
            match tok.find('=') {
                Some(i) => kv.push((tok[..i].to_string(), tok[i + 1..].to_string())),
                None => words.push(tok.to_string()),
            }
        }
        Op { name, kv, words }
    }
    pub fn get(&self, k: &str) -> Option<&str> {
        self.kv.iter().find(|(a, _)| a == k).map(|(_, v)| v.as_str())
    }
    pub fn s(&self, k: &str) -> String {
        self.get(k).unwrap_or_else(|| panic!("harness: missing key {}", k)).to_string()
    }
    pub fn u(&self, k: &str) -> u64 {
        self.s(k).parse().unwrap_or_else(|_| panic!("harness: bad number for {}", k))
    }
    pub fn u_or(&self, k: &str, d: u64) -> u64 {
        self.get(k).map(|v| v.parse().unwrap()).unwrap_or(d)
    }
    pub fn i(&self, k: &str) -> i64 {
        self.s(k).parse().unwrap()
    }
    /// a fraction `num/den` (or plain integer, or `-num/den`) turned into the f64 `num as f64 / den as f64`
    pub fn f(&self, k: &str) -> f64 {
        parse_frac(&self.s(k))
    }
    pub fn list(&self, k: &str) -> Vec<String> {
        match self.get(k) {
            None => vec![],
            Some("") => vec![],
            Some(v) => v.split(',').map(|x| x.to_string()).collect(),
        }
    }
}

pub fn parse_frac(s: &str) -> f64 {
    if s == "nan" {
        return f64::NAN;
    }
    if s == "inf" {
        return f64::INFINITY;
    }
    if s == "-inf" {
        return f64::NEG_INFINITY;
    }
    let (neg, s) = match s.strip_prefix('-') {
        Some(r) => (true, r),
        None => (false, s),
    };
    let v = match s.find('/') {
        Some(i) => {
            let n: f64 = s[..i].parse::<u64>().unwrap() as f64;
            let d: f64 = s[i + 1..].parse::<u64>().unwrap() as f64;
            n / d
        }
        None => s.parse::<u64>().unwrap() as f64,
    };
    if neg {
        -v
    } else {
        v
    }
}

/// exact rendering of a finite f64 as `[-]num/den` with den a power of two (or `nan`/`inf`)
pub fn f64_exact(x: f64) -> String {
    if x.is_nan() {
        return "nan".into();
    }
    if x.is_infinite() {
        return if x > 0.0 { "inf".into() } else { "-inf".into() };
    }
    if x == 0.0 {
        return "0/1".into();
    }
    let bits = x.to_bits();
    let neg = (bits >> 63) != 0;
    let exp = ((bits >> 52) & 0x7ff) as i64;
    let frac = bits & ((1u64 << 52) - 1);
    let (mut m, mut e) = if exp == 0 { (frac as u128, -1074i64) } else { ((frac | (1u64 << 52)) as u128, exp - 1075) };
    while m % 2 == 0 && e < 0 {
        m /= 2;
        e += 1;
    }
    let s = if e >= 0 {
        // m * 2^e ; only render when it fits
        if e < 60 {
            format!("{}/1", m << e)
        } else {
            format!("{}e2^{}/1", m, e)
        }
    } else if -e < 120 {
        format!("{}/{}", m, 1u128 << (-e))
    } else {
        format!("{}/2^{}", m, -e)
    };
    if neg {
        format!("-{}", s)
    } else {
        s
    }
}

pub trait CaseExec {
    fn step(&mut self, op: &Op) -> String;
    fn finish(&mut self) {}
}

pub fn panic_msg(p: &Box<dyn Any + Send>) -> String {
    if let Some(s) = p.downcast_ref::<&str>() {
        s.to_string()
    } else if let Some(s) = p.downcast_ref::<String>() {
        s.clone()
    } else {
        "?".to_string()
    }
}

pub const T0_NS: u64 = 1_700_000_000_000_000_000;

/// `EntryBuilder::build` reports a block as `TokenResult::Blocked: BlockError { block_type: X, block_msg: "m", .. }`;
/// extract (X, m). X is e.g. `Flow` or `Other(3)` (rendered as `3`).
pub fn parse_block_err(m: &str) -> (String, String) {
    let ty = m
        .split("block_type: ")
        .nth(1)
        .map(|x| x.split(", block_msg").next().unwrap_or("").to_string())
        .unwrap_or_default();
    let ty = if let Some(r) = ty.strip_prefix("Other(") { r.trim_end_matches(')').to_string() } else { ty };
    let msg = m
        .split("block_msg: \"")
        .nth(1)
        .map(|x| x.split("\", rule").next().unwrap_or("").to_string())
        .unwrap_or_default();
    (ty, msg)
}

/// (block type, rule id, snapshot text) out of the Debug rendering of a BlockError inside the error returned by `build`
pub fn parse_block_full(m: &str) -> (String, String, String) {
    let (ty, _) = parse_block_err(m);
    let rule = m
        .split("rule: Some(")
        .nth(1)
        .and_then(|x| x.split("id: \"").nth(1))
        .map(|x| x.split('"').next().unwrap_or("").to_string())
        .unwrap_or_else(|| "-".into());
    let snap = m
        .split("snapshot_value: Some(")
        .nth(1)
        .map(|x| x.split(')').next().unwrap_or("").to_string())
        .unwrap_or_else(|| "-".into());
    (ty, rule, snap)
}

/// "4.0" -> "4", "3" -> "3", "2.5" -> "5/2" (exact), used for snapshot values
pub fn snap_norm(s: &str) -> String {
    match s.parse::<f64>() {
        Ok(v) => {
            let e = f64_exact(v);
            match e.strip_suffix("/1") {
                Some(n) => n.to_string(),
                None => e,
            }
        }
        Err(_) => s.to_string(),
    }
}

pub fn hex(bytes: &[u8]) -> String {
    if bytes.is_empty() {
        return "-".into();
    }
    bytes.iter().map(|b| format!("{:02x}", b)).collect()
}

pub fn unhex(s: &str) -> Vec<u8> {
    if s == "-" {
        return Vec::new();
    }
    (0..s.len() / 2).map(|i| u8::from_str_radix(&s[2 * i..2 * i + 2], 16).unwrap()).collect()
}

pub fn unhex_str(s: &str) -> String {
    String::from_utf8(unhex(s)).unwrap()
}

/// clears the rules of all five families
pub fn clear_all_rules() {
    sentinel_core::flow::clear_rules();
    sentinel_core::isolation::clear_rules();
    sentinel_core::system::clear_rules();
    sentinel_core::hotspot::clear_rules();
    sentinel_core::circuitbreaker::clear_rules();
}
