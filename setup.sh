#!/bin/bash
# Builds the framework offline from files on disk: Lean models/proofs/driver and the Rust harness.
set -e
cd "$(dirname "$0")"
export CARGO_NET_OFFLINE=true
mkdir -p .work evidence replays
cp -f /repo/Cargo.lock harness/Cargo.lock 2>/dev/null || true
(cd harness && cargo build --offline)
# generated Lean instance for C15 (lock traces of the current source), then everything in Lean
python3 gen/C15_pre_lean.py
(cd lean && (lake build || lake build sentinel-model))
(cd harness-tower && cargo build --offline)
cp -f /repo/Cargo.lock harness-ds/Cargo.lock 2>/dev/null || true
(cd harness-ds && cargo build --offline)
cp -f /repo/Cargo.lock harness-mlog/Cargo.lock 2>/dev/null || true
(cd harness-mlog && cargo build --offline)
echo setup-ok
