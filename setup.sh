#!/bin/bash
# Builds the framework offline from files on disk: Lean models/proofs/driver and the Rust harness.
set -e
cd "$(dirname "$0")"
export CARGO_NET_OFFLINE=true
mkdir -p .work evidence replays
(cd lean && lake build)
cp -f /repo/Cargo.lock harness/Cargo.lock 2>/dev/null || true
(cd harness && cargo build --offline)
(cd harness-tower && cargo build --offline)
echo setup-ok
