import Sentinel.Driver

def main (args : List String) : IO UInt32 :=
  match args with
  | [prop] => Sentinel.runDriver prop
  | _ => do IO.eprintln "usage: sentinel-model <Cxx> < trace"; return 2
