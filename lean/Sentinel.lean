import Sentinel.Proto
import Sentinel.SlotChain
import Sentinel.Driver
