import SentinelProofs.Props.C13
