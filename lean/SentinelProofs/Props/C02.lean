import Sentinel.LeapArray
import SentinelProofs.Lemmas.Ring
import SentinelProofs.Lemmas.RingMore
/-!
# C02 — sliding-window statistics report exactly the events inside the window

Theorems about `Sentinel/LeapArray.lean`. Quantifiers: every geometry (`0 < n`, `0 < L`), every
history of events with non-decreasing time stamps (unbounded length, arbitrary gaps incl. idle
periods longer than the interval and exact multiples of `L`), every event kind and count, every
read time not earlier than the last write (and earlier ones under the residency condition).
Guards: `0 < start t` for every event (stamp 0 is the code's "never used" marker) and
`W ≤ start now` (`end - interval + bucket_len` must not wrap in `u64`).
-/
set_option autoImplicit false
namespace Sentinel

abbrev BInv (g : Geo) (r : BRing) (evs : List TEv) (tl : Nat) : Prop :=
  RingInv Ev.apply MetricBucket.zero g r evs tl

/-! ## helper lemmas about `MetricBucket` -/

theorem get_apply (b : MetricBucket) (e : Ev) (k : Kind) : (e.apply b).get k = b.get k + e.amount k := by
  cases e with
  | add k' c =>
    cases k' <;> cases k <;> simp [Ev.apply, MetricBucket.add, MetricBucket.get, Ev.amount]
  | conc c =>
    simp only [Ev.apply, MetricBucket.updateConcurrency, Ev.amount]
    split <;> cases k <;> simp [MetricBucket.get]

theorem get_zero (k : Kind) : MetricBucket.zero.get k = 0 := by cases k <;> rfl

theorem get_bucketVal (g : Geo) (evs : List TEv) (b : Nat) (k : Kind) :
    (bucketVal Ev.apply MetricBucket.zero g evs b).get k
      = ((evs.filter (fun e => g.start e.1 = b)).map (fun e => e.2.amount k)).sum := by
  unfold bucketVal
  induction evs.filter (fun e => g.start e.1 = b) with
  | nil => simp [get_zero]
  | cons e l ih => simp only [List.foldr_cons, List.map_cons, List.sum_cons, get_apply, ih]; omega

theorem minRt_apply (b : MetricBucket) (e : Ev) (hb : b.minRt ≤ 60000) :
    (e.apply b).minRt = min e.rtVal b.minRt := by
  cases e with
  | add k' c =>
    cases k' <;> simp only [Ev.apply, MetricBucket.add, Ev.rtVal] <;> first | omega | (split <;> omega)
  | conc c =>
    simp only [Ev.apply, MetricBucket.updateConcurrency, Ev.rtVal]
    split <;> first | omega | (simp; omega)

theorem minRt_bucketVal (g : Geo) (evs : List TEv) (b : Nat) :
    (bucketVal Ev.apply MetricBucket.zero g evs b).minRt
      = minOver ((evs.filter (fun e => g.start e.1 = b)).map (fun e => e.2.rtVal)) := by
  unfold bucketVal
  induction evs.filter (fun e => g.start e.1 = b) with
  | nil => rfl
  | cons e l ih =>
    simp only [List.foldr_cons, List.map_cons, minOver_cons]
    rw [minRt_apply _ _ (by rw [ih]; exact minOver_le _), ih]

theorem windowMinRt_eq (L : Nat) (evs : List TEv) (lo hi : Nat) :
    windowMinRt L evs lo hi
      = minOver ((evs.filter (fun e => lo ≤ e.1 - e.1 % L && e.1 - e.1 % L ≤ hi)).map (fun e => e.2.rtVal)) := rfl

theorem inWin_iff (g : Geo) (W now s : Nat) : inWin g W now s = true ↔
    (¬ (now > s ∧ now - s > g.interval)) ∧ g.start now - W + g.L ≤ s ∧ s ≤ g.start now := by
  simp [inWin, deprecated]
  omega

/-! ## property theorems -/

/-- `LeapArray::new` accepts exactly the non-zero, dividing bucket counts -/
theorem leap_new_ok_iff (n iv : Nat) : leapNewOk n iv = true ↔ n ≠ 0 ∧ iv % n = 0 := by
  simp [leapNewOk]

/-- the reuse check accepts exactly the tiling read windows -/
theorem checkReuse_iff (sc iv psc piv : Nat) :
    checkReuse sc iv psc piv = 0 ↔
      (iv ≠ 0 ∧ sc ≠ 0 ∧ iv % sc = 0) ∧ (piv ≠ 0 ∧ psc ≠ 0 ∧ piv % psc = 0) ∧
      piv % iv = 0 ∧ (iv / sc) % (piv / psc) = 0 := by
  unfold checkReuse statOk
  by_cases h1 : iv = 0 <;> by_cases h2 : sc = 0 <;> by_cases h3 : iv % sc = 0 <;>
  by_cases h4 : piv = 0 <;> by_cases h5 : psc = 0 <;> by_cases h6 : piv % psc = 0 <;>
  by_cases h7 : piv % iv = 0 <;> by_cases h8 : (iv / sc) % (piv / psc) = 0 <;> simp [*]

/-- an accepted read window is a whole number of inner buckets, at least one bucket and at most the
whole inner interval — exactly what the read theorem needs -/
theorem checkReuse_tiles (sc iv psc piv : Nat) (h : checkReuse sc iv psc piv = 0) :
    iv % (piv / psc) = 0 ∧ piv / psc ≤ iv ∧ iv ≤ piv := by
  obtain ⟨⟨h1, h2, h3⟩, ⟨h4, h5, h6⟩, h7, h8⟩ := (checkReuse_iff sc iv psc piv).mp h
  have hsc : 0 < sc := Nat.pos_of_ne_zero h2
  have hiv : 0 < iv := Nat.pos_of_ne_zero h1
  have hpiv : 0 < piv := Nat.pos_of_ne_zero h4
  have e1 : iv = sc * (iv / sc) := by have := Nat.mod_add_div iv sc; omega
  have d1 : (piv / psc) ∣ (iv / sc) := Nat.dvd_of_mod_eq_zero h8
  have d2 : (piv / psc) ∣ iv := by rw [e1]; exact Nat.dvd_mul_left_of_dvd d1 sc
  have hle : iv ≤ piv := Nat.le_of_dvd hpiv (Nat.dvd_of_mod_eq_zero h7)
  refine ⟨Nat.mod_eq_zero_of_dvd d2, Nat.le_of_dvd hiv d2, hle⟩

theorem ring_inv_init' (g : Geo) (t0 : Nat) : BInv g (ringInit MetricBucket.zero g) [] t0 :=
  ring_inv_init _ _ g t0

/-- recording an event at a time not earlier than the last one succeeds and keeps the invariant -/
theorem ring_inv_record (g : Geo) (hn : 0 < g.n) (hL : 0 < g.L) (r : BRing) (evs : List TEv) (tl t : Nat) (x : Ev)
    (hinv : BInv g r evs tl) (ht : tl ≤ t) (hpos : 0 < g.start t) :
    ∃ r', r.record g t x = some r' ∧ BInv g r' ((t, x) :: evs) t :=
  ring_inv_write Ev.apply MetricBucket.zero g hn hL r evs tl t x hinv ht hpos

/-- running a whole history (oldest first) from a fresh ring -/
def runHistory (g : Geo) : List TEv → Option BRing
  | [] => some (ringInit MetricBucket.zero g)
  | e :: older => (runHistory g older).bind (fun r => r.record g e.1 e.2)

/-- a history is admissible when time stamps do not decrease (newest first) and are past the first bucket -/
def Admissible (g : Geo) : List TEv → Prop
  | [] => True
  | e :: older => 0 < g.start e.1 ∧ (∀ o ∈ older, o.1 ≤ e.1) ∧ Admissible g older

/-- every admissible history, of any length, can be recorded and leaves the ring in the invariant -/
theorem run_inv (g : Geo) (hn : 0 < g.n) (hL : 0 < g.L) (evs : List TEv) (h : Admissible g evs) :
    ∃ r tl, runHistory g evs = some r ∧ BInv g r evs tl ∧ (∀ e ∈ evs, e.1 ≤ tl) ∧
      (evs = [] ∨ ∃ e ∈ evs, tl = e.1) := by
  induction evs with
  | nil => exact ⟨_, 0, rfl, ring_inv_init' g 0, by simp, Or.inl rfl⟩
  | cons e older ih =>
    obtain ⟨hpos, hmono, hadm⟩ := h
    obtain ⟨r, tl, hrun, hinv, htl, hlast⟩ := ih hadm
    have htle : tl ≤ e.1 ∨ older = [] := by
      rcases hlast with h | ⟨o, ho, rfl⟩
      · exact Or.inr h
      · exact Or.inl (hmono o ho)
    have hinv' : BInv g r older (min tl e.1) := by
      rcases htle with h | h
      · rw [Nat.min_eq_left h]; exact hinv
      · subst h
        simp only [runHistory, Option.some.injEq] at hrun
        subst hrun
        exact ring_inv_init' g _
    obtain ⟨r', hw, hinv''⟩ := ring_inv_record g hn hL r older (min tl e.1) e.1 e.2 hinv' (Nat.min_le_right _ _) hpos
    refine ⟨r', e.1, ?_, hinv'', ?_, Or.inr ⟨e, List.mem_cons_self, rfl⟩⟩
    · simp only [runHistory, hrun, Option.bind_some]; exact hw
    · intro x hx
      rcases List.mem_cons.mp hx with rfl | hx
      · exact Nat.le_refl _
      · exact hmono x hx

/-- **Read theorem (sum).** For a ring in the invariant and a read at `now` whose window's buckets are all
still resident (`start tl < lo + interval`; automatically true when `tl ≤ now`), the sliding-window sum is the sum of the
recorded amounts of exactly the events whose bucket lies in `[start now - W + L, start now]`. -/
theorem sliding_sum_eq_resident (g : Geo) (hn : 0 < g.n) (hL : 0 < g.L) (r : BRing) (evs : List TEv) (tl : Nat)
    (rd : Reader) (now : Nat) (k : Kind) (hinv : BInv g r evs tl)
    (hWL : g.L ≤ rd.iv) (hWn : rd.iv ≤ g.interval) (hguard : rd.iv ≤ g.start now)
    (hres : g.start tl < (g.start now - rd.iv + g.L) + g.interval) :
    r.sumWithTime g rd now k = windowSum g.L evs (g.start now - rd.iv + g.L) (g.start now) k := by
  unfold BRing.sumWithTime foldSlots windowSum
  have hfold := foldl_cond_add (List.range g.n)
    (fun i => inWin g rd.iv now (slotAt MetricBucket.zero r i).stamp)
    (fun i => (slotAt MetricBucket.zero r i).val.get k) 0
  simp only [] at hfold ⊢
  rw [hfold, Nat.zero_add]
  have hnowL := g.lt_start_add hL now
  have hnowhi := g.start_le now
  have hst : ∀ e : TEv, e.1 - e.1 % g.L = g.start e.1 := fun _ => rfl
  rw [sum_partition g.n _ (fun e : TEv => g.idx e.1) (fun e : TEv => e.2.amount k) (by intro x _; exact g.idx_lt hn _)]
  apply sum_map_congr
  intro i hi'
  have hi'' : i < g.n := List.mem_range.mp hi'
  rw [List.filter_filter]
  by_cases hw : inWin g rd.iv now (slotAt MetricBucket.zero r i).stamp = true
  · simp only [hw, if_true]
    have hw' := (inWin_iff g rd.iv now _).mp hw
    have hne : (slotAt MetricBucket.zero r i).stamp ≠ 0 := by omega
    rw [hinv.val i hi'']; simp only [hne, if_false]
    rw [get_bucketVal]
    have hs := hinv.slot i hi'' hne
    congr 2
    apply List.filter_congr
    intro e he
    have hnw := hinv.newest e he
    by_cases hidx : g.idx e.1 = i
    · subst hidx
      simp only [decide_true, Bool.true_and, hst]
      by_cases heq : g.start e.1 = (slotAt MetricBucket.zero r (g.idx e.1)).stamp
      · have h1 := hw'.2.1; have h2 := hw'.2.2
        rw [← heq] at h1 h2
        simp [heq]
        rw [← heq]; exact ⟨h1, h2⟩
      · have hlt : g.start e.1 < (slotAt MetricBucket.zero r (g.idx e.1)).stamp := by omega
        have hgap := g.same_slot_gap (g.start_mod e.1) hs.1 (by rw [g.idx_start hL, hs.2.1]) hlt
        simp only [heq, decide_false]
        simp
        intro h1
        have := hw'.2.2
        omega
    · have : g.start e.1 ≠ (slotAt MetricBucket.zero r i).stamp := by
        intro heq; apply hidx; rw [← g.idx_start hL, heq, hs.2.1]
      simp [hidx, this]
  · rw [if_neg hw]
    symm
    apply sum_zero_of_all_zero
    intro x hx
    simp only [List.mem_map, List.mem_filter, Bool.and_eq_true, decide_eq_true_eq, hst] at hx
    obtain ⟨e, ⟨he, hidx, h1, h2⟩, rfl⟩ := hx
    exfalso
    have hnw := hinv.newest e he
    rw [hidx] at hnw
    have hne : (slotAt MetricBucket.zero r i).stamp ≠ 0 := by omega
    have hs := hinv.slot i hi'' hne
    by_cases heq : g.start e.1 = (slotAt MetricBucket.zero r i).stamp
    · apply hw
      rw [inWin_iff]
      refine ⟨?_, by omega, by omega⟩
      intro ⟨_, hd⟩
      omega
    · have hlt : g.start e.1 < (slotAt MetricBucket.zero r i).stamp := by omega
      have hgap := g.same_slot_gap (g.start_mod e.1) hs.1 (by rw [g.idx_start hL, hidx, hs.2.1]) hlt
      have := hs.2.2
      omega

/-- reads at or after the last write: no event older than the window is reported and none inside is missed -/
theorem sliding_sum_eq (g : Geo) (hn : 0 < g.n) (hL : 0 < g.L) (r : BRing) (evs : List TEv) (tl : Nat)
    (rd : Reader) (now : Nat) (k : Kind) (hinv : BInv g r evs tl) (hnow : tl ≤ now)
    (hWL : g.L ≤ rd.iv) (hWn : rd.iv ≤ g.interval) (hguard : rd.iv ≤ g.start now) :
    r.sumWithTime g rd now k = windowSum g.L evs (g.start now - rd.iv + g.L) (g.start now) k := by
  apply sliding_sum_eq_resident g hn hL r evs tl rd now k hinv hWL hWn hguard
  have := g.start_mono hnow
  omega

/-- **Read theorem (minimum response time).** -/
theorem sliding_min_rt_eq (g : Geo) (hn : 0 < g.n) (hL : 0 < g.L) (r : BRing) (evs : List TEv) (tl : Nat)
    (rd : Reader) (now : Nat) (hinv : BInv g r evs tl) (hnow : tl ≤ now)
    (hWL : g.L ≤ rd.iv) (hWn : rd.iv ≤ g.interval) (hguard : rd.iv ≤ g.start now) :
    r.minRt g rd now = windowMinRt g.L evs (g.start now - rd.iv + g.L) (g.start now) := by
  unfold BRing.minRt foldSlots
  rw [windowMinRt_eq]
  have hfold := foldl_cond_min (List.range g.n)
    (fun i => inWin g rd.iv now (slotAt MetricBucket.zero r i).stamp)
    (fun i => (slotAt MetricBucket.zero r i).val.minRt) 60000 (Nat.le_refl _)
  simp only [] at hfold ⊢
  rw [hfold]
  have hnowL := g.lt_start_add hL now
  have hnowhi := g.start_le now
  have hstl := g.start_mono hnow
  have hst : ∀ e : TEv, e.1 - e.1 % g.L = g.start e.1 := fun _ => rfl
  rw [min_partition g.n _ (fun e : TEv => g.idx e.1) (fun e : TEv => e.2.rtVal) (by intro x _; exact g.idx_lt hn _)]
  have hle := minOver_le ((List.range g.n).map (fun i => minOver
    (((evs.filter (fun e => decide (g.start now - rd.iv + g.L ≤ e.1 - e.1 % g.L) && decide (e.1 - e.1 % g.L ≤ g.start now))).filter
      (fun x => decide (g.idx x.1 = i))).map (fun e => e.2.rtVal))))
  suffices hs : (List.range g.n).map (fun i => if inWin g rd.iv now (slotAt MetricBucket.zero r i).stamp = true
        then (slotAt MetricBucket.zero r i).val.minRt else 60000)
      = (List.range g.n).map (fun i => minOver
        (((evs.filter (fun e => decide (g.start now - rd.iv + g.L ≤ e.1 - e.1 % g.L) && decide (e.1 - e.1 % g.L ≤ g.start now))).filter
          (fun x => decide (g.idx x.1 = i))).map (fun e => e.2.rtVal))) by
    rw [hs]; omega
  apply List.map_congr_left
  intro i hi'
  have hi'' : i < g.n := List.mem_range.mp hi'
  rw [List.filter_filter]
  by_cases hw : inWin g rd.iv now (slotAt MetricBucket.zero r i).stamp = true
  · simp only [hw, if_true]
    have hw' := (inWin_iff g rd.iv now _).mp hw
    have hne : (slotAt MetricBucket.zero r i).stamp ≠ 0 := by omega
    rw [hinv.val i hi'']; simp only [hne, if_false]
    rw [minRt_bucketVal]
    have hs := hinv.slot i hi'' hne
    congr 2
    apply List.filter_congr
    intro e he
    have hnw := hinv.newest e he
    by_cases hidx : g.idx e.1 = i
    · subst hidx
      simp only [decide_true, Bool.true_and, hst]
      by_cases heq : g.start e.1 = (slotAt MetricBucket.zero r (g.idx e.1)).stamp
      · have h1 := hw'.2.1; have h2 := hw'.2.2
        rw [← heq] at h1 h2
        simp [heq]
        rw [← heq]; exact ⟨h1, h2⟩
      · have hlt : g.start e.1 < (slotAt MetricBucket.zero r (g.idx e.1)).stamp := by omega
        have hgap := g.same_slot_gap (g.start_mod e.1) hs.1 (by rw [g.idx_start hL, hs.2.1]) hlt
        simp only [heq, decide_false]
        simp
        intro h1
        have := hw'.2.2
        omega
    · have : g.start e.1 ≠ (slotAt MetricBucket.zero r i).stamp := by
        intro heq; apply hidx; rw [← g.idx_start hL, heq, hs.2.1]
      simp [hidx, this]
  · rw [if_neg hw]
    symm
    apply minOver_all_default
    intro x hx
    simp only [List.mem_map, List.mem_filter, Bool.and_eq_true, decide_eq_true_eq, hst] at hx
    obtain ⟨e, ⟨he, hidx, h1, h2⟩, rfl⟩ := hx
    exfalso
    have hnw := hinv.newest e he
    rw [hidx] at hnw
    have hne : (slotAt MetricBucket.zero r i).stamp ≠ 0 := by omega
    have hs := hinv.slot i hi'' hne
    by_cases heq : g.start e.1 = (slotAt MetricBucket.zero r i).stamp
    · apply hw
      rw [inWin_iff]
      refine ⟨?_, by omega, by omega⟩
      intro ⟨_, hd⟩
      omega
    · have hlt : g.start e.1 < (slotAt MetricBucket.zero r i).stamp := by omega
      have hgap := g.same_slot_gap (g.start_mod e.1) hs.1 (by rw [g.idx_start hL, hidx, hs.2.1]) hlt
      have := hs.2.2
      omega

/-- per-second rate = the float expression of the exact window sum -/
theorem qps_eq (g : Geo) (hn : 0 < g.n) (hL : 0 < g.L) (r : BRing) (evs : List TEv) (tl : Nat)
    (rd : Reader) (now : Nat) (k : Kind) (hinv : BInv g r evs tl) (hnow : tl ≤ now)
    (hWL : g.L ≤ rd.iv) (hWn : rd.iv ≤ g.interval) (hguard : rd.iv ≤ g.start now) :
    r.qpsWithTime g rd now k
      = F64.div (F64.ofNat (windowSum g.L evs (g.start now - rd.iv + g.L) (g.start now) k)) rd.intervalS := by
  unfold BRing.qpsWithTime
  rw [sliding_sum_eq g hn hL r evs tl rd now k hinv hnow hWL hWn hguard]

/-- the previous-window rate (`qps_previous`, read one reader bucket earlier, possibly before the last
write) is exact whenever the earlier window is still resident -/
theorem qps_previous_eq (g : Geo) (hn : 0 < g.n) (hL : 0 < g.L) (r : BRing) (evs : List TEv) (tl : Nat)
    (rd : Reader) (now : Nat) (k : Kind) (hinv : BInv g r evs tl)
    (hWL : g.L ≤ rd.iv) (hWn : rd.iv ≤ g.interval) (hguard : rd.iv ≤ g.start (now - rd.bucketLen))
    (hres : g.start tl < (g.start (now - rd.bucketLen) - rd.iv + g.L) + g.interval) :
    r.qpsPrevious g rd now k
      = F64.div (F64.ofNat (windowSum g.L evs (g.start (now - rd.bucketLen) - rd.iv + g.L) (g.start (now - rd.bucketLen)) k)) rd.intervalS := by
  unfold BRing.qpsPrevious BRing.qpsWithTime
  rw [sliding_sum_eq_resident g hn hL r evs tl rd _ k hinv hWL hWn hguard hres]

/-- average response time = the float expression of the exact window sums -/
theorem avg_rt_eq (g : Geo) (hn : 0 < g.n) (hL : 0 < g.L) (r : BRing) (evs : List TEv) (tl : Nat)
    (rd : Reader) (now : Nat) (hinv : BInv g r evs tl) (hnow : tl ≤ now)
    (hWL : g.L ≤ rd.iv) (hWn : rd.iv ≤ g.interval) (hguard : rd.iv ≤ g.start now) :
    r.avgRt g rd now =
      (let c := windowSum g.L evs (g.start now - rd.iv + g.L) (g.start now) .complete
       if c = 0 then F64.zero
       else F64.div (F64.ofNat (windowSum g.L evs (g.start now - rd.iv + g.L) (g.start now) .rt)) (F64.ofNat c)) := by
  unfold BRing.avgRt
  rw [sliding_sum_eq g hn hL r evs tl rd now .complete hinv hnow hWL hWn hguard,
      sliding_sum_eq g hn hL r evs tl rd now .rt hinv hnow hWL hWn hguard]

/-- **End-to-end statement over histories**: for every admissible history of any length, recorded into a
fresh ring, and every accepted reader, the sum read at any later time is the Spec's sum. -/
theorem history_sum_eq (sc iv n piv : Nat) (evs : List TEv) (now : Nat) (k : Kind)
    (hnew : leapNewOk n piv = true) (hLpos : 0 < piv / n) (hreuse : checkReuse sc iv n piv = 0)
    (hadm : Admissible ⟨n, piv / n⟩ evs) (hnow : ∀ e ∈ evs, e.1 ≤ now) (hguard : iv ≤ Geo.start ⟨n, piv / n⟩ now) :
    ∃ r, runHistory ⟨n, piv / n⟩ evs = some r ∧
      BRing.sumWithTime ⟨n, piv / n⟩ r ⟨sc, iv⟩ now k
        = windowSum (piv / n) evs (Geo.start ⟨n, piv / n⟩ now - iv + piv / n) (Geo.start ⟨n, piv / n⟩ now) k := by
  have hn : 0 < n := Nat.pos_of_ne_zero ((leap_new_ok_iff n piv).mp hnew).1
  have hdiv : piv % n = 0 := ((leap_new_ok_iff n piv).mp hnew).2
  obtain ⟨r, tl, hrun, hinv, htl, hlast⟩ := run_inv ⟨n, piv / n⟩ hn hLpos evs hadm
  have hiv : n * (piv / n) = piv := by have := Nat.mod_add_div piv n; omega
  obtain ⟨_, t2, t3⟩ := checkReuse_tiles sc iv n piv hreuse
  refine ⟨r, hrun, ?_⟩
  rcases hlast with h | ⟨e, he, rfl⟩
  · subst h
    simp only [runHistory, Option.some.injEq] at hrun
    subst hrun
    exact sliding_sum_eq _ hn hLpos _ [] 0 ⟨sc, iv⟩ now k (ring_inv_init' _ 0) (Nat.zero_le _) t2 (by show iv ≤ n * (piv / n); omega) hguard
  · exact sliding_sum_eq _ hn hLpos r evs e.1 ⟨sc, iv⟩ now k hinv (hnow e he) t2 (by show iv ≤ n * (piv / n); omega) hguard

/-! ## maxima and the raw `is_deprecated` filter -/

theorem windowSum_single (g : Geo) (evs : List TEv) (b : Nat) (k : Kind) :
    windowSum g.L evs b b k = ((evs.filter (fun e => g.start e.1 = b)).map (fun e => e.2.amount k)).sum := by
  unfold windowSum
  congr 2
  apply List.filter_congr
  intro e _
  show (decide (b ≤ g.start e.1) && decide (g.start e.1 ≤ b)) = decide (g.start e.1 = b)
  by_cases h : g.start e.1 = b
  · simp [h]
  · simp only [h, decide_false]
    apply Bool.eq_false_iff.mpr
    intro hh
    simp only [Bool.and_eq_true, decide_eq_true_eq] at hh
    omega

theorem maxConc_apply (b : MetricBucket) (e : Ev) : (e.apply b).maxConc = max e.concVal b.maxConc := by
  cases e with
  | add k' c => cases k' <;> simp [Ev.apply, MetricBucket.add, Ev.concVal]
  | conc c =>
    simp only [Ev.apply, MetricBucket.updateConcurrency, Ev.concVal]
    split
    · show c = max c b.maxConc
      omega
    · omega

theorem maxConc_bucketVal (g : Geo) (evs : List TEv) (b : Nat) :
    (bucketVal Ev.apply MetricBucket.zero g evs b).maxConc
      = maxOver ((evs.filter (fun e => g.start e.1 = b)).map (fun e => e.2.concVal)) := by
  unfold bucketVal
  induction evs.filter (fun e => g.start e.1 = b) with
  | nil => rfl
  | cons e l ih => simp only [List.foldr_cons, List.map_cons, maxOver_cons, maxConc_apply, ih]

/-- what the two maximum theorems share: under the hypotheses of the read theorem, the in-window slots are exactly the
resident buckets of the window's events -/
theorem window_slots (g : Geo) (hn : 0 < g.n) (hL : 0 < g.L) (r : BRing) (evs : List TEv) (tl : Nat)
    (rd : Reader) (now : Nat) (hinv : BInv g r evs tl) (hnow : tl ≤ now)
    (hWL : g.L ≤ rd.iv) (hWn : rd.iv ≤ g.interval) (hguard : rd.iv ≤ g.start now) :
    (∀ i, i < g.n → inWin g rd.iv now (slotAt MetricBucket.zero r i).stamp = true →
        (slotAt MetricBucket.zero r i).val = bucketVal Ev.apply MetricBucket.zero g evs (slotAt MetricBucket.zero r i).stamp ∧
        g.start now - rd.iv + g.L ≤ (slotAt MetricBucket.zero r i).stamp ∧ (slotAt MetricBucket.zero r i).stamp ≤ g.start now) ∧
    (∀ e ∈ evs, g.start now - rd.iv + g.L ≤ g.start e.1 → g.start e.1 ≤ g.start now →
        (slotAt MetricBucket.zero r (g.idx e.1)).stamp = g.start e.1 ∧
        inWin g rd.iv now (slotAt MetricBucket.zero r (g.idx e.1)).stamp = true) := by
  have hnowL := g.lt_start_add hL now
  have hnowhi := g.start_le now
  have hstl := g.start_mono hnow
  constructor
  · intro i hi hw
    have hw' := (inWin_iff g rd.iv now _).mp hw
    have hne : (slotAt MetricBucket.zero r i).stamp ≠ 0 := by omega
    exact ⟨(slot_is_bucket _ _ g r evs tl hinv i hi hne).1, hw'.2.1, hw'.2.2⟩
  · intro e he h1 h2
    have hres := event_bucket_resident _ _ g hn hL r evs tl hinv e he (by omega)
    refine ⟨hres, ?_⟩
    rw [hres, inWin_iff]
    refine ⟨?_, h1, h2⟩
    intro ⟨_, hd⟩
    omega

/-- **Read theorem (`max_of_single_bucket`)**: the largest per-bucket total of `k` among the buckets of the window -/
theorem max_of_single_bucket_eq (g : Geo) (hn : 0 < g.n) (hL : 0 < g.L) (r : BRing) (evs : List TEv) (tl : Nat)
    (rd : Reader) (now : Nat) (k : Kind) (hinv : BInv g r evs tl) (hnow : tl ≤ now)
    (hWL : g.L ≤ rd.iv) (hWn : rd.iv ≤ g.interval) (hguard : rd.iv ≤ g.start now) :
    r.maxOfSingleBucket g rd now k = windowMaxBucket g.L evs (g.start now - rd.iv + g.L) (g.start now) k := by
  obtain ⟨hA, hB⟩ := window_slots g hn hL r evs tl rd now hinv hnow hWL hWn hguard
  unfold BRing.maxOfSingleBucket foldSlots windowMaxBucket
  have hfold := foldl_cond_max (List.range g.n)
    (fun i => inWin g rd.iv now (slotAt MetricBucket.zero r i).stamp)
    (fun i => (slotAt MetricBucket.zero r i).val.get k) 0
  simp only [] at hfold ⊢
  rw [hfold, Nat.zero_max]
  show maxOver _ = maxOver _
  have hst : ∀ e : TEv, e.1 - e.1 % g.L = g.start e.1 := fun _ => rfl
  apply maxOver_eq_of_dom
  · intro x hx
    simp only [List.mem_map, List.mem_range] at hx
    obtain ⟨i, hi, rfl⟩ := hx
    by_cases hw : inWin g rd.iv now (slotAt MetricBucket.zero r i).stamp = true
    · simp only [hw, if_true]
      obtain ⟨hv, hlo, hhi⟩ := hA i hi hw
      rw [hv, get_bucketVal]
      by_cases hz : ((evs.filter (fun e => g.start e.1 = (slotAt MetricBucket.zero r i).stamp)).map (fun e => e.2.amount k)).sum = 0
      · left; exact hz
      · right
        have hnil : evs.filter (fun e => g.start e.1 = (slotAt MetricBucket.zero r i).stamp) ≠ [] := by
          intro h; rw [h] at hz; exact hz rfl
        obtain ⟨e, hmem⟩ := List.exists_mem_of_ne_nil _ hnil
        simp only [List.mem_filter, decide_eq_true_eq] at hmem
        refine ⟨windowSum g.L evs (g.start e.1) (g.start e.1) k, ?_, ?_⟩
        · simp only [List.mem_map, List.mem_filter, Bool.and_eq_true, decide_eq_true_eq, hst]
          exact ⟨e, ⟨hmem.1, by omega, by omega⟩, rfl⟩
        · rw [windowSum_single, hmem.2]; exact Nat.le_refl _
    · left; simp [hw]
  · intro y hy
    simp only [List.mem_map, List.mem_filter, Bool.and_eq_true, decide_eq_true_eq, hst] at hy
    obtain ⟨e, ⟨he, h1, h2⟩, rfl⟩ := hy
    right
    obtain ⟨hres, hw⟩ := hB e he h1 h2
    refine ⟨_, List.mem_map.mpr ⟨g.idx e.1, List.mem_range.mpr (g.idx_lt hn _), rfl⟩, ?_⟩
    simp only [hw, if_true]
    obtain ⟨hv, _, _⟩ := hA _ (g.idx_lt hn _) hw
    rw [hv, get_bucketVal, windowSum_single, hres]; exact Nat.le_refl _

/-- **Read theorem (`max_concurrency`)**: the largest concurrency value recorded in the window -/
theorem max_concurrency_eq (g : Geo) (hn : 0 < g.n) (hL : 0 < g.L) (r : BRing) (evs : List TEv) (tl : Nat)
    (rd : Reader) (now : Nat) (hinv : BInv g r evs tl) (hnow : tl ≤ now)
    (hWL : g.L ≤ rd.iv) (hWn : rd.iv ≤ g.interval) (hguard : rd.iv ≤ g.start now) :
    r.maxConcurrency g rd now = windowMaxConc g.L evs (g.start now - rd.iv + g.L) (g.start now) := by
  obtain ⟨hA, hB⟩ := window_slots g hn hL r evs tl rd now hinv hnow hWL hWn hguard
  unfold BRing.maxConcurrency foldSlots windowMaxConc
  have hfold := foldl_cond_max (List.range g.n)
    (fun i => inWin g rd.iv now (slotAt MetricBucket.zero r i).stamp)
    (fun i => (slotAt MetricBucket.zero r i).val.maxConc) 0
  simp only [] at hfold ⊢
  rw [hfold, Nat.zero_max]
  show maxOver _ = maxOver _
  have hst : ∀ e : TEv, e.1 - e.1 % g.L = g.start e.1 := fun _ => rfl
  apply maxOver_eq_of_dom
  · intro x hx
    simp only [List.mem_map, List.mem_range] at hx
    obtain ⟨i, hi, rfl⟩ := hx
    by_cases hw : inWin g rd.iv now (slotAt MetricBucket.zero r i).stamp = true
    · simp only [hw, if_true]
      obtain ⟨hv, hlo, hhi⟩ := hA i hi hw
      rw [hv, maxConc_bucketVal]
      rcases maxOver_mem_or_zero ((evs.filter (fun e => g.start e.1 = (slotAt MetricBucket.zero r i).stamp)).map (fun e => e.2.concVal)) with h0 | hm
      · left; exact h0
      · right
        simp only [List.mem_map, List.mem_filter, decide_eq_true_eq] at hm
        obtain ⟨e, ⟨he, hse⟩, hce⟩ := hm
        refine ⟨e.2.concVal, ?_, by rw [hce]; exact Nat.le_refl _⟩
        simp only [List.mem_map, List.mem_filter, Bool.and_eq_true, decide_eq_true_eq, hst]
        exact ⟨e, ⟨he, by omega, by omega⟩, rfl⟩
    · left; simp [hw]
  · intro y hy
    simp only [List.mem_map, List.mem_filter, Bool.and_eq_true, decide_eq_true_eq, hst] at hy
    obtain ⟨e, ⟨he, h1, h2⟩, rfl⟩ := hy
    right
    obtain ⟨hres, hw⟩ := hB e he h1 h2
    refine ⟨_, List.mem_map.mpr ⟨g.idx e.1, List.mem_range.mpr (g.idx_lt hn _), rfl⟩, ?_⟩
    simp only [hw, if_true]
    obtain ⟨hv, _, _⟩ := hA _ (g.idx_lt hn _) hw
    rw [hv, maxConc_bucketVal, hres]
    apply le_maxOver
    exact List.mem_map.mpr ⟨e, List.mem_filter.mpr ⟨he, by simp⟩, rfl⟩

/-- **`count_with_time`, exactly** (raw `is_deprecated` filter, any read time not before the last write): the total of
the events whose bucket start is `≥ now − interval` and whose bucket has not been overwritten -/
theorem count_with_time_resident (g : Geo) (hn : 0 < g.n) (hL : 0 < g.L) (r : BRing) (evs : List TEv) (tl now : Nat) (k : Kind)
    (hinv : BInv g r evs tl) (hnow : tl ≤ now) :
    r.countWithTime g now k = windowSumIf g.L evs
      (fun b => decide ((slotAt MetricBucket.zero r (g.idx b)).stamp = b) && decide (now - g.interval ≤ b)) k := by
  unfold BRing.countWithTime foldSlots windowSumIf
  have hstl := g.start_mono hnow
  have hnowhi := g.start_le now
  have h := ring_pred_sum Ev.apply MetricBucket.zero g hn hL r evs tl (fun b => b.get k) (fun e => e.amount k)
    (get_zero k) (fun b e => get_apply b e k) hinv (validAt g now)
    (fun b => decide ((slotAt MetricBucket.zero r (g.idx b)).stamp = b) && decide (now - g.interval ≤ b))
    (by
      intro i hi hc hne
      have hs := hinv.slot i hi hne
      simp only [validAt, deprecated, Bool.not_eq_true', Bool.and_eq_false_iff, decide_eq_false_iff_not] at hc
      simp only [Bool.and_eq_true, decide_eq_true_eq]
      refine ⟨by rw [hs.2.1], ?_⟩
      omega)
    (by
      intro e he hp
      simp only [Bool.and_eq_true, decide_eq_true_eq] at hp
      rw [g.idx_start hL] at hp
      refine ⟨hp.1, ?_⟩
      simp only [validAt, deprecated, Bool.not_eq_true', Bool.and_eq_false_iff, decide_eq_false_iff_not]
      omega)
  simp only [] at h ⊢
  exact h

/-- nothing older than one interval is ever reported -/
theorem count_with_time_upper (g : Geo) (hn : 0 < g.n) (hL : 0 < g.L) (r : BRing) (evs : List TEv) (tl now : Nat) (k : Kind)
    (hinv : BInv g r evs tl) (hnow : tl ≤ now) :
    r.countWithTime g now k ≤ windowSum g.L evs (now - g.interval) (g.start now) k := by
  rw [count_with_time_resident g hn hL r evs tl now k hinv hnow]
  unfold windowSumIf windowSum
  apply sum_filter_mono
  intro e he hp
  have hst : e.1 - e.1 % g.L = g.start e.1 := rfl
  simp only [Bool.and_eq_true, decide_eq_true_eq, hst] at hp ⊢
  have := g.start_mono (Nat.le_trans (hinv.times e he) hnow)
  exact ⟨hp.2, this⟩

/-- every event of the `n` newest buckets is always reported -/
theorem count_with_time_lower (g : Geo) (hn : 0 < g.n) (hL : 0 < g.L) (r : BRing) (evs : List TEv) (tl now : Nat) (k : Kind)
    (hinv : BInv g r evs tl) (hnow : tl ≤ now) :
    windowSum g.L evs (g.start now - g.interval + g.L) (g.start now) k ≤ r.countWithTime g now k := by
  rw [count_with_time_resident g hn hL r evs tl now k hinv hnow]
  unfold windowSumIf windowSum
  apply sum_filter_mono
  intro e he hp
  have hst : e.1 - e.1 % g.L = g.start e.1 := rfl
  simp only [Bool.and_eq_true, decide_eq_true_eq, hst] at hp ⊢
  have hstl := g.start_mono hnow
  have hnowL := g.lt_start_add hL now
  have hres := event_bucket_resident _ _ g hn hL r evs tl hinv e he (by show g.start tl < g.start e.1 + g.interval; omega)
  refine ⟨?_, ?_⟩
  · show (slotAt MetricBucket.zero r (g.idx (g.start e.1))).stamp = g.start e.1
    rw [g.idx_start hL]; exact hres
  · show now - g.interval ≤ g.start e.1
    omega

/-- off the one boundary the ring cannot represent (a read exactly on a bucket start at which something has just been
written), `count_with_time` is exactly the total of the events whose bucket start is `≥ now − interval` -/
theorem count_with_time_eq (g : Geo) (hn : 0 < g.n) (hL : 0 < g.L) (r : BRing) (evs : List TEv) (tl now : Nat) (k : Kind)
    (hinv : BInv g r evs tl) (hnow : tl ≤ now) (hoff : now % g.L ≠ 0 ∨ g.start tl < now) :
    r.countWithTime g now k = windowSum g.L evs (now - g.interval) (g.start now) k := by
  apply Nat.le_antisymm (count_with_time_upper g hn hL r evs tl now k hinv hnow)
  rw [count_with_time_resident g hn hL r evs tl now k hinv hnow]
  unfold windowSumIf windowSum
  apply sum_filter_mono
  intro e he hp
  have hst : e.1 - e.1 % g.L = g.start e.1 := rfl
  simp only [Bool.and_eq_true, decide_eq_true_eq, hst] at hp ⊢
  have hstl := g.start_mono hnow
  have hnowL := g.lt_start_add hL now
  have hnowhi := g.start_le now
  have hse : g.start e.1 % g.L = 0 := g.start_mod e.1
  have hsn : g.start now % g.L = 0 := g.start_mod now
  have hIL : g.interval % g.L = 0 := by unfold Geo.interval; exact Nat.mul_mod_left _ _
  have hres : g.start tl < g.start e.1 + g.interval := by
    rcases hoff with h | h
    · -- `now` is strictly inside its bucket: an aligned start `≥ now − interval` is `≥ start now − interval + L`
      have hlt : g.start now < now := by
        show now - now % g.L < now
        have := Nat.pos_of_ne_zero h
        have := Nat.mod_le now g.L
        omega
      -- start e + interval is a multiple of L that is > start now
      have h1 : g.start now < g.start e.1 + g.interval := by omega
      omega
    · omega
  have hr := event_bucket_resident _ _ g hn hL r evs tl hinv e he hres
  refine ⟨?_, hp.1⟩
  show (slotAt MetricBucket.zero r (g.idx (g.start e.1))).stamp = g.start e.1
  rw [g.idx_start hL]; exact hr

/-! ## non-vacuity -/

/-- a concrete 4×500 ms ring: two events in different buckets, then one that rolls slot 0 over -/
def exHistory : List TEv :=
  [(1700000002100, .add .pass 7), (1700000000600, .add .rt 30), (1700000000100, .add .pass 3)]

example : Admissible ⟨4, 500⟩ exHistory := by
  refine ⟨by decide, by decide, by decide, by decide, by decide, by decide, trivial⟩
example : leapNewOk 4 2000 = true ∧ checkReuse 2 1000 4 2000 = 0 := by decide
example : (runHistory ⟨4, 500⟩ exHistory).isSome = true := by decide
example : windowSum 500 exHistory (1700000002000 - 1000 + 500) 1700000002000 .pass = 7 := by decide

/-- a history with concurrency samples and two pass events in one bucket -/
def exHistory2 : List TEv :=
  [(1700000002100, .conc 4), (1700000001700, .add .pass 5), (1700000001600, .add .pass 2), (1700000001200, .conc 9),
   (1700000000100, .add .pass 30)]
example : Admissible ⟨4, 500⟩ exHistory2 := by
  refine ⟨by decide, by decide, by decide, by decide, by decide, by decide, by decide, by decide, by decide, by decide, trivial⟩
-- the 2 s window ending in bucket 1700000002000 excludes the bucket of the 30 (it shares the slot of the newest bucket)
example : windowMaxBucket 500 exHistory2 (1700000002000 - 2000 + 500) 1700000002000 .pass = 7 := by decide
example : windowMaxConc 500 exHistory2 (1700000002000 - 2000 + 500) 1700000002000 = 9 := by decide
example : windowMaxConc 500 exHistory2 (1700000002000 - 1000 + 500) 1700000002000 = 4 := by decide
example : (runHistory ⟨4, 500⟩ exHistory2).map (fun r => (r.maxOfSingleBucket ⟨4, 500⟩ ⟨4, 2000⟩ 1700000002100 .pass,
    r.maxConcurrency ⟨4, 500⟩ ⟨4, 2000⟩ 1700000002100, r.countWithTime ⟨4, 500⟩ 1700000002100 .pass)) = some (7, 9, 7) := by decide
-- the excluded boundary of `count_with_time_eq` is real: read exactly on a bucket start at which something was just written
example : (runHistory ⟨2, 500⟩ [(1700000001000, .add .pass 1), (1700000000000, .add .pass 8)]).map
    (fun r => r.countWithTime ⟨2, 500⟩ 1700000001000 .pass) = some 1 ∧
    windowSum 500 [(1700000001000, .add .pass 1), (1700000000000, .add .pass 8)] (1700000001000 - 1000) 1700000001000 .pass = 9 := by decide

end Sentinel
