import Sentinel.World
import SentinelProofs.Props.C01
/-!
# C04 — every entry is accounted exactly once

World-level theorems: what `World.build` / `World.exit` do to the statistics nodes (exactly one of
pass/block with the batch count on the resource's node, mirrored on the inbound node iff inbound,
other resources untouched; exit = one completion + response time; blocked entries leave no trace in
concurrency or completion). Node-level theorem: after any sequence of such recordings, what the node
reports is the sum over the entries' history, and the in-flight count is the number of open entries.
-/
set_option autoImplicit false
namespace Sentinel

/-! ## association-list lemmas -/

theorem lookup_update_same {α : Type} (l : List (String × α)) (k : String) (v : α) :
    World.lookup (World.update l k v) k = some v := by
  simp [World.update, World.lookup]

theorem find_filter_ne {α : Type} (l : List (String × α)) (k k' : String) (hne : k ≠ k') :
    (l.filter (fun p => p.1 != k)).find? (fun p => p.1 == k') = l.find? (fun p => p.1 == k') := by
  induction l with
  | nil => rfl
  | cons a l ih =>
    by_cases hak : a.1 = k
    · have h1 : (a.1 != k) = false := by simp [hak]
      have h2 : (a.1 == k') = false := by simp [hak, hne]
      rw [List.filter_cons, List.find?_cons]
      simp only [h1, h2]
      exact ih
    · have h1 : (a.1 != k) = true := by simp [hak]
      rw [List.filter_cons]
      simp only [h1, if_true, List.find?_cons]
      split
      · rfl
      · exact ih

theorem lookup_update_other {α : Type} (l : List (String × α)) (k k' : String) (v : α) (hne : k ≠ k') :
    World.lookup (World.update l k v) k' = World.lookup l k' := by
  unfold World.update World.lookup
  have h1 : ((k == k') = false) := by simpa using hne
  rw [List.find?_cons]
  simp only [h1]
  rw [find_filter_ne l k k' hne]

/-! ## what build and exit do to the nodes -/

/-- **pass xor block, with the batch count, on the resource's node; mirrored on the inbound node iff inbound.**
`tc` is the time at which the rule-check slots finished (later than the call time only when a throttling rule
made the caller wait). -/
theorem build_accounts_once (w : World) (eid : Nat) (res : String) (batch : Nat) (inbound : Bool)
    (args : Option (List String)) (atts : Option (List (String × String))) :
    let tc := (w.runChecks res batch inbound args atts).nowNs / 1000000
    ((w.build eid res batch inbound args atts).2 = .pass ∧
        (w.build eid res batch inbound args atts).1.node res = (w.node res).recordPass tc batch ∧
        (w.build eid res batch inbound args atts).1.inbound = (if inbound then w.inbound.recordPass tc batch else w.inbound)) ∨
    ((∃ ty rule snap, (w.build eid res batch inbound args atts).2 = .blocked ty rule snap) ∧
        (w.build eid res batch inbound args atts).1.node res = (w.node res).recordBlock tc batch ∧
        (w.build eid res batch inbound args atts).1.inbound = (if inbound then w.inbound.recordBlock tc batch else w.inbound)) := by
  unfold World.build
  simp only []
  cases hv : (w.runChecks res batch inbound args atts).res with
  | pass =>
    left
    simp only [World.node, lookup_update_same, Option.getD_some, and_self]
  | blocked ty rule snap =>
    right
    simp only [World.node, lookup_update_same, Option.getD_some, and_self, and_true]
    exact ⟨_, _, _, rfl⟩

/-- other resources' nodes are untouched by a build -/
theorem build_frame (w : World) (eid : Nat) (res res' : String) (batch : Nat) (inbound : Bool)
    (args : Option (List String)) (atts : Option (List (String × String))) (hne : res ≠ res') :
    (w.build eid res batch inbound args atts).1.node res' = w.node res' := by
  unfold World.build
  simp only []
  cases hv : (w.runChecks res batch inbound args atts).res <;>
  simp only [World.node, lookup_update_other _ _ _ _ hne]

/-- outbound entries are never mirrored on the inbound totals -/
theorem outbound_not_mirrored (w : World) (eid : Nat) (res : String) (batch : Nat)
    (args : Option (List String)) (atts : Option (List (String × String))) :
    (w.build eid res batch false args atts).1.inbound = w.inbound := by
  rcases build_accounts_once w eid res batch false args atts with ⟨_, _, h⟩ | ⟨_, _, h⟩ <;> simpa using h

/-- a blocked entry changes neither the in-flight count nor the completion statistics of its node -/
theorem blocked_leaves_no_trace (n : Node) (now batch : Nat) :
    (n.recordBlock now batch).conc = n.conc ∧
    (∀ L lo hi, windowSum L (n.recordBlock now batch).hist lo hi .complete = windowSum L n.hist lo hi .complete) ∧
    (∀ L lo hi, windowSum L (n.recordBlock now batch).hist lo hi .rt = windowSum L n.hist lo hi .rt) ∧
    (∀ L lo hi, windowSum L (n.recordBlock now batch).hist lo hi .pass = windowSum L n.hist lo hi .pass) := by
  unfold Node.recordBlock Node.addCount Node.record
  cases n.ring.record globalGeo now (.add .block batch) with
  | none => simp
  | some r =>
    simp only [true_and]
    refine ⟨?_, ?_, ?_⟩ <;> intro L lo hi <;> rw [windowSum_cons] <;> simp [Ev.amount]

/-- exit of a passed entry: one completion of the batch count and its response time on the resource's node,
mirrored on the inbound node iff the entry was inbound; the entry is closed -/
theorem exit_records_completion (w : World) (eid : Nat) (e : Entry)
    (h : w.entries.find? (fun p => p.1 == eid) = some (eid, e)) :
    ∃ w', w.exit eid = some w' ∧
      w'.node e.res = (w.node e.res).recordComplete w.nowMs e.batch (w.nowMs - e.startMs) ∧
      w'.inbound = (if e.inbound then w.inbound.recordComplete w.nowMs e.batch (w.nowMs - e.startMs) else w.inbound) ∧
      w'.entries = w.entries.filter (fun p => p.1 != eid) := by
  unfold World.exit
  rw [h]
  refine ⟨_, rfl, ?_, rfl, rfl⟩
  simp only [World.node, lookup_update_same, Option.getD_some]

/-! ## node-level accounting over arbitrary histories -/

inductive NOp where
  | pass (t n : Nat)
  | block (t n : Nat)
  | complete (t n rt : Nat)

def NOp.time : NOp → Nat
  | .pass t _ => t
  | .block t _ => t
  | .complete t _ _ => t

def Node.apply (n : Node) : NOp → Node
  | .pass t b => n.recordPass t b
  | .block t b => n.recordBlock t b
  | .complete t b rt => n.recordComplete t b rt

def Node.runOps : List NOp → Node
  | [] => {}
  | op :: older => (Node.runOps older).apply op

/-- Spec: the amount an entry-level operation contributes to statistic `k` -/
def NOp.amount (k : Kind) : NOp → Nat
  | .pass _ n => if k = .pass then n else 0
  | .block _ n => if k = .block then n else 0
  | .complete _ n rt => if k = .complete then n else if k = .rt then rt else 0

/-- Spec: total of `k` over the operations whose time bucket lies in `[lo, hi]` -/
def opsSum (L : Nat) (ops : List NOp) (lo hi : Nat) (k : Kind) : Nat :=
  ((ops.filter (fun o => lo ≤ o.time - o.time % L && o.time - o.time % L ≤ hi)).map (NOp.amount k)).sum

def opsOpen : List NOp → Nat
  | [] => 0
  | .pass _ _ :: older => opsOpen older + 1
  | .block _ _ :: older => opsOpen older
  | .complete _ _ _ :: older => opsOpen older - 1

def NOpsOk : List NOp → Prop
  | [] => True
  | op :: older => (∀ o ∈ older, o.time ≤ op.time) ∧ 0 < globalGeo.start op.time ∧ NOpsOk older

theorem opsSum_cons (L : Nat) (o : NOp) (ops : List NOp) (lo hi : Nat) (k : Kind) :
    opsSum L (o :: ops) lo hi k =
      (if lo ≤ o.time - o.time % L ∧ o.time - o.time % L ≤ hi then o.amount k else 0) + opsSum L ops lo hi k := by
  unfold opsSum
  rw [List.filter_cons]
  by_cases h : lo ≤ o.time - o.time % L ∧ o.time - o.time % L ≤ hi
  · have hd : (decide (lo ≤ o.time - o.time % L) && decide (o.time - o.time % L ≤ hi)) = true := by
      simp only [Bool.and_eq_true, decide_eq_true_eq]; exact h
    rw [if_pos hd, if_pos h, List.map_cons, List.sum_cons]
  · have hd : ¬ ((decide (lo ≤ o.time - o.time % L) && decide (o.time - o.time % L ≤ hi)) = true) := by
      simp only [Bool.and_eq_true, decide_eq_true_eq]; exact h
    rw [if_neg hd, if_neg h, Nat.zero_add]

theorem acct_key (c : Prop) [Decidable c] (a1 a2 b S : Nat) (h : a1 + a2 = b) :
    (if c then a1 else 0) + ((if c then a2 else 0) + S) = (if c then b else 0) + S := by
  split <;> omega

theorem acct_key1 (c : Prop) [Decidable c] (a1 b S : Nat) (h : a1 = b) :
    (if c then a1 else 0) + S = (if c then b else 0) + S := by
  rw [h]

/-- invariant: ring refinement, history sums agree with the Spec for every kind, in-flight = open entries -/
structure AcctOk (n : Node) (ops : List NOp) (tl : Nat) : Prop where
  inv : BInv globalGeo n.ring n.hist tl
  agree : ∀ L lo hi k, windowSum L n.hist lo hi k = opsSum L ops lo hi k
  conc : n.conc = opsOpen ops

theorem node_record' (n : Node) (tl t : Nat) (e : Ev)
    (h : BInv globalGeo n.ring n.hist tl) (ht : tl ≤ t) (hpos : 0 < globalGeo.start t) :
    BInv globalGeo (n.record t e).ring (n.record t e).hist t ∧ (n.record t e).hist = (t, e) :: n.hist ∧
      (n.record t e).conc = n.conc := by
  obtain ⟨r', hw, hinv⟩ := ring_inv_record globalGeo globalGeo_n globalGeo_L n.ring n.hist tl t e h ht hpos
  unfold Node.record
  rw [hw]
  exact ⟨hinv, rfl, rfl⟩

/-- **Every entry is accounted exactly once**: after any admissible sequence of pass / block / completion
recordings (any length, any interleaving), the node is in the ring invariant, its history agrees with the Spec
for every statistic and every window, and its in-flight count is the number of passed, un-exited entries. -/
theorem run_acctOk (ops : List NOp) (h : NOpsOk ops) :
    ∃ tl, AcctOk (Node.runOps ops) ops tl ∧ (ops = [] ∨ ∃ o ∈ ops, tl = o.time) := by
  induction ops with
  | nil => exact ⟨0, ⟨ring_inv_init' _ 0, fun _ _ _ _ => rfl, rfl⟩, Or.inl rfl⟩
  | cons op older ih =>
    obtain ⟨hmono, hpos, hold⟩ := h
    obtain ⟨tl, hok, hlast⟩ := ih hold
    have hinv : BInv globalGeo (Node.runOps older).ring (Node.runOps older).hist (min tl op.time) := by
      rcases hlast with h | ⟨o, ho, rfl⟩
      · subst h; exact ring_inv_init' _ _
      · rw [Nat.min_eq_left (hmono o ho)]; exact hok.inv
    have hle : min tl op.time ≤ op.time := Nat.min_le_right _ _
    refine ⟨op.time, ?_, Or.inr ⟨op, List.mem_cons_self, rfl⟩⟩
    simp only [Node.runOps]
    cases op with
    | pass t b =>
      simp only [NOp.time] at hpos hle hinv
      simp only [Node.apply, Node.recordPass, Node.increaseConcurrency, Node.addCount]
      obtain ⟨i1, e1, c1⟩ := node_record' ({ (Node.runOps older) with conc := (Node.runOps older).conc + 1 }) _ t
        (.conc ((Node.runOps older).conc + 1)) hinv hle hpos
      obtain ⟨i2, e2, c2⟩ := node_record' _ t t (.add .pass b) i1 (Nat.le_refl _) hpos
      refine ⟨i2, ?_, ?_⟩
      · intro L lo hi k
        rw [e2, e1, windowSum_cons, windowSum_cons, opsSum_cons, hok.agree L lo hi k]
        exact acct_key _ _ _ _ _ (by cases k <;> simp [Ev.amount, NOp.amount])
      · rw [c2, c1]; simp only [opsOpen]; rw [hok.conc]
    | block t b =>
      simp only [NOp.time] at hpos hle hinv
      simp only [Node.apply, Node.recordBlock, Node.addCount]
      obtain ⟨i1, e1, c1⟩ := node_record' (Node.runOps older) _ t (.add .block b) hinv hle hpos
      refine ⟨i1, ?_, ?_⟩
      · intro L lo hi k
        rw [e1, windowSum_cons, opsSum_cons, hok.agree L lo hi k]
        exact acct_key1 _ _ _ _ (by cases k <;> simp [Ev.amount, NOp.amount])
      · rw [c1]; simp only [opsOpen]; exact hok.conc
    | complete t b rt =>
      simp only [NOp.time] at hpos hle hinv
      simp only [Node.apply, Node.recordComplete, Node.addCount, Node.decreaseConcurrency]
      obtain ⟨i1, e1, c1⟩ := node_record' (Node.runOps older) _ t (.add .rt rt) hinv hle hpos
      obtain ⟨i2, e2, c2⟩ := node_record' _ t t (.add .complete b) i1 (Nat.le_refl _) hpos
      refine ⟨i2, ?_, ?_⟩
      · intro L lo hi k
        show windowSum L (((Node.runOps older).record t (.add .rt rt)).record t (.add .complete b)).hist lo hi k = _
        rw [e2, e1, windowSum_cons, windowSum_cons, opsSum_cons, hok.agree L lo hi k]
        exact acct_key _ _ _ _ _ (by cases k <;> simp [Ev.amount, NOp.amount])
      · show (((Node.runOps older).record t (.add .rt rt)).record t (.add .complete b)).conc - 1 = _
        rw [c2, c1]; simp only [opsOpen]; rw [hok.conc]

/-- what the node reports through its default metric is the Spec's total over the window (every kind), read at
any time not earlier than the last recording -/
theorem node_reads_eq (ops : List NOp) (h : NOpsOk ops) (now : Nat) (k : Kind)
    (hnow : ∀ o ∈ ops, o.time ≤ now) (hguard : 1000 ≤ globalGeo.start now) :
    (Node.runOps ops).sum defaultReader now k
      = opsSum 500 ops (globalGeo.start now - 1000 + 500) (globalGeo.start now) k := by
  obtain ⟨tl, hok, hlast⟩ := run_acctOk ops h
  have hinv : BInv globalGeo (Node.runOps ops).ring (Node.runOps ops).hist (min tl now) := by
    rcases hlast with h | ⟨o, ho, rfl⟩
    · subst h; exact ring_inv_init' _ _
    · rw [Nat.min_eq_left (hnow o ho)]; exact hok.inv
  unfold Node.sum
  rw [sliding_sum_eq globalGeo globalGeo_n globalGeo_L _ _ (min tl now) defaultReader now k hinv (Nat.min_le_right _ _)
    (by decide) (by decide) hguard]
  exact hok.agree _ _ _ _

/-- the in-flight count equals the number of passed, not yet exited entries -/
theorem concurrency_eq_open_passed (ops : List NOp) (h : NOpsOk ops) :
    (Node.runOps ops).conc = opsOpen ops := by
  obtain ⟨_, hok, _⟩ := run_acctOk ops h
  exact hok.conc

/-! ## non-vacuity -/
example : NOpsOk [.complete 1700000000900 2 400, .block 1700000000600 1, .pass 1700000000500 2] := by
  refine ⟨by decide, by decide, by decide, by decide, by decide, by decide, trivial⟩
example : opsSum 500 [.complete 1700000000900 2 400, .block 1700000000600 1, .pass 1700000000500 2]
    (1700000000500 - 1000 + 500) 1700000000500 .rt = 400 := by decide

/-- **A traced error does not change the accounting**: whether or not an error was attached to the entry (`Entry::set_err`,
`api::trace_error`), its exit leaves the same node statistics, inbound totals, hotspot in-flight counters and set of open
entries; only the circuit breakers (and their notifications) see the error. -/
theorem exit_error_does_not_change_accounting (w : World) (eid : Nat) :
    (w.exit eid true).map (fun w' => (w'.nodes, w'.inbound, w'.hs, w'.entries)) =
    (w.exit eid false).map (fun w' => (w'.nodes, w'.inbound, w'.hs, w'.entries)) := by
  unfold World.exit
  cases w.entries.find? (fun p => p.1 == eid) with
  | none => rfl
  | some p => rfl

end Sentinel
