import SentinelProofs.Lemmas.MetricLog
/-!
# C19 — metric log: written items can be searched back; a torn tail loses one line

Model: `Sentinel/MetricLog.lean` (writer actions on an explicit directory, index search, readers, searcher with its cache).
Abstraction used by the theorems (`SentinelProofs/Lemmas/MetricLog.lean`): a log file is a list of *groups* — one per index
entry: the second and the items whose lines follow that entry (`AFile`); `Rep fs al` says the directory `fs` holds exactly
the files `al` (bytes: `groupsBytes`, `idxOf`), `WF al` what the writer guarantees about them.
-/
namespace Sentinel.MLog
open Sentinel

/-- **Search by time range and resource returns exactly the items the log holds for that window, in write order**, for every
well-formed directory (any number of files, any roll-over points, any seconds incl. one second continuing in the next file),
every window and resource, on a searcher without a cached position. -/
theorem search_range_finds_all (fs : FS) (al : List AFile) (hrep : Rep fs al) (hwf : WF al)
    (hlive : ∀ f ∈ al, f.tail = [] ∧ f.idxTail = []) (b e : Nat) (res : List Char) :
    (searchRange fs {} b e res).2 = some (specRange ((al.flatMap AFile.items).map stored) b e res) := by
  unfold searchRange
  have hstart : startFiles fs {} b = al.map (·.id) := by simp [startFiles, cacheOk, hrep.listing]
  rw [hstart, findStart_spec fs al (b / 1000) (fun f hf => idx_lookup fs f _ (hrep.idxs f hf) (hwf.small f hf) (hwf.tails f hf).2)]
  cases hd : al.dropWhile (fun f => (firstOffset f.groups (b / 1000)).isNone) with
  | nil =>
    simp only []
    have hearly : ∀ it ∈ al.flatMap AFile.items, secOf it < b / 1000 := by
      intro it hit
      obtain ⟨f, hf, hif⟩ := List.mem_flatMap.mp hit
      obtain ⟨g, hg, hig⟩ := List.mem_flatMap.mp hif
      have hnone := dropWhile_nil_all _ _ hd f hf
      rw [hwf.secs f hf g hg it hig]
      exact firstOffset_none f.groups _ (by simpa using hnone) g hg
    have := assemble (al.flatMap AFile.items) [] b e res hearly (by simp) (by simp)
    simp only [List.append_nil, List.map_nil, List.takeWhile_nil, List.filter_nil] at this
    rw [this]
  | cons f B =>
    have hal : al = al.takeWhile (fun f => (firstOffset f.groups (b / 1000)).isNone) ++ f :: B := by
      rw [← hd, List.takeWhile_append_dropWhile]
    generalize hA : al.takeWhile (fun f => (firstOffset f.groups (b / 1000)).isNone) = A at hal
    have hAearly : ∀ x ∈ A, (firstOffset x.groups (b / 1000)) = none := by
      intro x hx
      have := takeWhile_all_mem _ _ x (hA ▸ hx)
      simpa using this
    have hfsome := dropWhile_head_not _ _ _ _ hd
    simp only [Option.isNone_eq_false_iff, Option.isSome_iff_exists] at hfsome
    obtain ⟨⟨sec, off⟩, hfo⟩ := hfsome
    obtain ⟨pre, g, post, hgs, hpre, hg, hsec, hoff⟩ := firstOffset_some f.groups _ sec off hfo
    have hfmem : f ∈ al := by rw [hal]; simp
    have hBmem : ∀ x ∈ B, x ∈ al := by intro x hx; rw [hal]; simp [hx]
    have hAmem : ∀ x ∈ A, x ∈ al := by intro x hx; rw [hal]; simp [hx]
    simp only [hfo, Option.map_some, List.head?_cons]
    -- the read
    unfold readRange
    simp only [hrep.logs f hfmem]
    have hlog : f.log = groupsBytes f.groups := by simp [AFile.log, (hlive f hfmem).1]
    have hgoodpost : ∀ it ∈ groupsItems (g :: post), GoodItem it := by
      intro it hit
      obtain ⟨g', hg', hig⟩ := List.mem_flatMap.mp hit
      exact hwf.good f hfmem g' (by rw [hgs]; simp [List.mem_cons.mp hg']) it hig
    have hallitems : al.flatMap AFile.items = (A.flatMap AFile.items ++ groupsItems pre) ++ (groupsItems (g :: post) ++ B.flatMap AFile.items) := by
      rw [hal]
      simp only [List.flatMap_append, List.flatMap_cons, AFile.items, hgs, groupsItems, List.append_assoc]
    have hcap := hwf.cap
    rw [hallitems] at hcap
    simp only [List.length_append] at hcap
    have hr := rangeOneFile_live f.groups pre (g :: post) hgs (b / 1000) (e / 1000) res 0 hgoodpost (by omega)
    rw [hlog, hoff, hr]
    -- early / from
    have hearly : ∀ it ∈ A.flatMap AFile.items ++ groupsItems pre, secOf it < b / 1000 := by
      intro it hit
      rcases List.mem_append.mp hit with h | h
      · obtain ⟨x, hx, hix⟩ := List.mem_flatMap.mp h
        obtain ⟨g', hg', hig⟩ := List.mem_flatMap.mp hix
        rw [hwf.secs x (hAmem x hx) g' hg' it hig]
        exact firstOffset_none x.groups _ (hAearly x hx) g' hg'
      · obtain ⟨g', hg', hig⟩ := List.mem_flatMap.mp h
        rw [hwf.secs f hfmem g' (by rw [hgs]; simp [hg']) it hig]
        exact hpre g' hg'
    -- group seconds from the start group on
    have hsortedAll := hwf.sorted
    rw [hal] at hsortedAll
    simp only [List.flatMap_append, List.flatMap_cons, hgs, List.map_append, List.map_cons] at hsortedAll
    have hsub : ((g :: post) ++ B.flatMap (·.groups)).map (·.1) = g.1 :: (post.map (·.1) ++ B.flatMap (fun f => f.groups.map (·.1))) := by
      simp [List.map_flatMap]
    have hsortedFrom : (((g :: post) ++ B.flatMap (·.groups)).map (·.1)).Pairwise (· ≤ ·) := by
      rw [hsub]
      have h1 := (List.pairwise_append.mp hsortedAll).2.1
      have h2 := (List.pairwise_append.mp h1).1
      have h3 := (List.pairwise_append.mp h2).2.1
      -- h3 : (g.1 :: post.map fst) pairwise ; need with B part: use h1 directly restructured
      have h4 : ((pre.map (·.1) ++ g.1 :: post.map (·.1)) ++ B.flatMap (fun f => f.groups.map (·.1))).Pairwise (· ≤ ·) := h1
      rw [List.append_assoc] at h4
      exact (List.pairwise_append.mp h4).2.1
    have hsecsFrom : ∀ g' ∈ (g :: post) ++ B.flatMap (·.groups), ∀ it ∈ g'.2, secOf it = g'.1 := by
      intro g' hg' it hit
      rcases List.mem_append.mp hg' with h | h
      · exact hwf.secs f hfmem g' (by rw [hgs]; simp [List.mem_cons.mp h]) it hit
      · obtain ⟨x, hx, hgx⟩ := List.mem_flatMap.mp h
        exact hwf.secs x (hBmem x hx) g' hgx it hit
    have hfromEq : groupsItems (g :: post) ++ B.flatMap AFile.items = groupsItems ((g :: post) ++ B.flatMap (·.groups)) := by
      rw [items_flatMap_groups]; simp [groupsItems]
    have hsortedItems := groupsItems_sorted _ hsecsFrom hsortedFrom
    have hlo : ∀ it ∈ groupsItems ((g :: post) ++ B.flatMap (·.groups)), b / 1000 ≤ secOf it := by
      intro it hit
      obtain ⟨g', hg', hig⟩ := List.mem_flatMap.mp hit
      rw [hsecsFrom g' hg' it hig]
      rw [hsub] at hsortedFrom
      rcases List.mem_append.mp hg' with h | h
      · rcases List.mem_cons.mp h with e | e
        · rw [e]; exact hg
        · have := (List.pairwise_cons.mp hsortedFrom).1 g'.1 (List.mem_append.mpr (Or.inl (List.mem_map.mpr ⟨g', e, rfl⟩)))
          omega
      · obtain ⟨x, hx, hgx⟩ := List.mem_flatMap.mp h
        have := (List.pairwise_cons.mp hsortedFrom).1 g'.1 (List.mem_append.mpr (Or.inr (List.mem_flatMap.mpr ⟨x, hx, List.mem_map.mpr ⟨g', hgx, rfl⟩⟩)))
        omega
    have hspec := assemble (A.flatMap AFile.items ++ groupsItems pre) (groupsItems ((g :: post) ++ B.flatMap (·.groups))) b e res hearly hlo hsortedItems
    rw [hallitems, hfromEq, hspec]
    -- the model's answer
    simp only []
    by_cases hall : ((groupsItems (g :: post)).map stored).all (inWin (b / 1000) (e / 1000)) = true
    · simp only [hall, if_true]
      have hle : (List.filter (resMatch res) (List.takeWhile (inWin (b / 1000) (e / 1000)) (List.map stored (groupsItems (g :: post))))).length ≤ (groupsItems (g :: post)).length := by
        refine Nat.le_trans (List.length_filter_le _ _) (Nat.le_trans (length_takeWhile_le' _ _) (by simp))
      rw [rangeRest_live fs B (fun x hx => hrep.logs x (hBmem x hx)) (fun x hx => (hlive x (hBmem x hx)).1)
        (fun x hx it hit => by
          obtain ⟨g', hg', hig⟩ := List.mem_flatMap.mp hit
          exact hwf.good x (hBmem x hx) g' hg' it hig) _ _ _ _ (by omega)]
      rw [← hfromEq, List.map_append, takeWhile_append_pos _ _ _ hall, takeWhile_all _ _ hall]
      simp [List.filter_append]
    · have hall' : ((groupsItems (g :: post)).map stored).all (inWin (b / 1000) (e / 1000)) = false := by simpa using hall
      simp only [hall', Bool.false_eq_true, if_false]
      rw [← hfromEq, List.map_append, takeWhile_append_neg _ _ _ hall']



/-- **the line-limited search returns the first lines from the begin time on: at least `n` of them when there are that many,
whole seconds, nothing from later seconds** (live directory, fresh searcher, `n ≥ 1`) -/
theorem search_lines_ok (fs : FS) (al : List AFile) (hrep : Rep fs al) (hwf : WF al)
    (hlive : ∀ f ∈ al, f.tail = [] ∧ f.idxTail = []) (b n : Nat) (hn : 1 ≤ n) :
    ∃ R, (searchLines fs {} b n).2 = some R ∧ specLinesOk ((al.flatMap AFile.items).map stored) b n R = true := by
  unfold searchLines
  have hstart : startFiles fs {} b = al.map (·.id) := by simp [startFiles, cacheOk, hrep.listing]
  rw [hstart]
  rcases start_decomp fs al hrep hwf b with ⟨hnone, hearly⟩ | ⟨A, f, B, pre, g, post, hal, hgs, hfs, hitems, hearly, hlo, hsorted⟩
  · rw [hnone]
    refine ⟨[], rfl, ?_⟩
    have := fromSec_assemble (al.flatMap AFile.items) [] b hearly (by simp)
    simp only [List.append_nil, List.map_nil] at this
    exact specLinesOk_of _ [] [] b n hn this (by simp) (List.prefix_refl _) (Or.inr rfl) (whole_nil n)
  · rw [hfs]
    have hfmem : f ∈ al := by rw [hal]; simp
    have hBmem : ∀ x ∈ B, x ∈ al := by intro x hx; rw [hal]; simp [hx]
    have hgoodpost : ∀ it ∈ groupsItems (g :: post), GoodItem it := by
      intro it hit
      obtain ⟨g', hg', hig⟩ := List.mem_flatMap.mp hit
      exact hwf.good f hfmem g' (by rw [hgs]; simp [List.mem_cons.mp hg']) it hig
    have hfrom := fromSec_assemble _ _ b hearly hlo
    rw [← hitems] at hfrom
    have hsortedS : ((groupsItems (g :: post) ++ B.flatMap AFile.items).map stored).Pairwise (fun x y => secOf x ≤ secOf y) :=
      List.Pairwise.map stored (fun x y h => h) hsorted
    unfold readLines
    simp only [hrep.logs f hfmem]
    have hlog : f.log = groupsBytes f.groups := by simp [AFile.log, (hlive f hfmem).1]
    rw [hlog, linesOneFile_live f.groups pre (g :: post) hgs n 0 0 hgoodpost]
    obtain ⟨Q1, q1, q2, q3, q4, q5⟩ := absLines_spec n 0 hn ((groupsItems (g :: post)).map stored) [] rfl 0 [] (by simp) (by simpa using whole_nil n)
    simp only [List.reverse_nil, List.nil_append, List.append_nil] at q1 q3 q4 q5
    by_cases hc : (absLines n 0 ((groupsItems (g :: post)).map stored) 0 []).cont = true
    · rw [if_pos hc, q1]
      obtain ⟨e, _⟩ := q4 hc
      obtain ⟨Q2, r1, r2, r3, r4⟩ := linesRest_spec fs n hn B (fun x hx => hrep.logs x (hBmem x hx)) (fun x hx => (hlive x (hBmem x hx)).1)
        (fun x hx it hit => by
          obtain ⟨g', hg', hig⟩ := List.mem_flatMap.mp hit
          exact hwf.good x (hBmem x hx) g' hg' it hig) Q1 q3
      refine ⟨Q1 ++ Q2, r1, ?_⟩
      apply specLinesOk_of _ _ _ b n hn hfrom hsortedS
      · rw [e, List.map_append]; exact (List.prefix_append_right_inj _).mpr r2
      · rcases r4 with h | h
        · exact Or.inl h
        · right; rw [e, h, List.map_append]
      · exact r3
    · rw [if_neg hc, q1]
      have hc' : (absLines n 0 ((groupsItems (g :: post)).map stored) 0 []).cont = false := by simpa using hc
      refine ⟨Q1, rfl, ?_⟩
      apply specLinesOk_of _ _ _ b n hn hfrom hsortedS
      · rw [List.map_append]; exact List.IsPrefix.trans q2 (List.prefix_append _ _)
      · exact Or.inl (q5 hc')
      · exact q3


/-- **Every write history leaves a well-formed directory** (`WInv` is established by `Writer.new` - `new_inv` - and kept by every
`write` - `write_inv`: any timestamps incl. repeated, older and day-changing seconds, empty batches, any size limit and file
count), **and a time-range search on it returns exactly the accepted items that retention has not removed, in write order.**
`held` is a suffix of the accepted items: retention removes whole oldest files only (`roll_spec`: a roll-over keeps the newest
`maxFiles - 1` files and adds the new one). -/
theorem written_items_are_found (maxSize maxFiles nowMs : Nat) (hist : List (Nat × List MItem)) (w0 : Writer) (acts : List Act)
    (hnew : Writer.new {} maxSize maxFiles nowMs = some (w0, acts))
    (hgood : ∀ p ∈ hist, ∀ it ∈ p.2, GoodItem { it with ts := p.1 })
    (hts : nowMs / 1000 < 18446744073709551616 ∧ ∀ p ∈ hist, p.1 / 1000 < 18446744073709551616)
    (hbytes : histBytes hist < 18446744073709551616) (hitems : histItems hist < MAX_ITEM_AMOUNT) :
    ∃ k, ∀ b e res,
      (searchRange (runWrites w0 (({} : FS).applyAll acts) hist).2.1 {} b e res).2 =
        some (specRange (((runWrites w0 (({} : FS).applyAll acts) hist).2.2.drop k).map stored) b e res) := by
  obtain ⟨al0, hinv0, hitems0⟩ := new_inv maxSize maxFiles nowMs w0 acts hnew
  obtain ⟨al, hinv, k, hk⟩ := run_inv hist w0 _ al0 0 0 hinv0 hgood
  have hl0 : w0.latest = nowMs / 1000 := by
    unfold Writer.new at hnew
    split at hnew
    · simp at hnew
    · simp only [Option.some.injEq, Prod.mk.injEq] at hnew
      rw [← hnew.1]
  have hlatest : (runWrites w0 (({} : FS).applyAll acts) hist).1.latest ≤ 18446744073709551615 :=
    run_latest_le hist w0 _ 18446744073709551615 (by rw [hl0]; omega) (fun p hp => by have := hts.2 p hp; omega)
  obtain ⟨hrep, hwf, hlive⟩ := winv_rep_wf _ _ al _ _ hinv (by omega) (by omega) (by omega)
  refine ⟨k, fun b e res => ?_⟩
  rw [search_range_finds_all _ al hrep hwf hlive b e res, hk, hitems0, List.nil_append]

/-- the same for the line-limited search: for every write history, begin time and limit `n ≥ 1` the search returns a prefix of the
held items from the begin second on - at least `n` when there are that many, extended to the end of the second in which
the limit was reached, and never beyond it (`specLinesOk`) -/
theorem written_items_are_found_by_lines (maxSize maxFiles nowMs : Nat) (hist : List (Nat × List MItem)) (w0 : Writer) (acts : List Act)
    (hnew : Writer.new {} maxSize maxFiles nowMs = some (w0, acts))
    (hgood : ∀ p ∈ hist, ∀ it ∈ p.2, GoodItem { it with ts := p.1 })
    (hts : nowMs / 1000 < 18446744073709551616 ∧ ∀ p ∈ hist, p.1 / 1000 < 18446744073709551616)
    (hbytes : histBytes hist < 18446744073709551616) (hitems : histItems hist < MAX_ITEM_AMOUNT) :
    ∃ k, ∀ b n, 1 ≤ n → ∃ R,
      (searchLines (runWrites w0 (({} : FS).applyAll acts) hist).2.1 {} b n).2 = some R ∧
      specLinesOk (((runWrites w0 (({} : FS).applyAll acts) hist).2.2.drop k).map stored) b n R = true := by
  obtain ⟨al0, hinv0, hitems0⟩ := new_inv maxSize maxFiles nowMs w0 acts hnew
  obtain ⟨al, hinv, k, hk⟩ := run_inv hist w0 _ al0 0 0 hinv0 hgood
  have hl0 : w0.latest = nowMs / 1000 := by
    unfold Writer.new at hnew
    split at hnew
    · simp at hnew
    · simp only [Option.some.injEq, Prod.mk.injEq] at hnew
      rw [← hnew.1]
  have hlatest : (runWrites w0 (({} : FS).applyAll acts) hist).1.latest ≤ 18446744073709551615 :=
    run_latest_le hist w0 _ 18446744073709551615 (by rw [hl0]; omega) (fun p hp => by have := hts.2 p hp; omega)
  obtain ⟨hrep, hwf, hlive⟩ := winv_rep_wf _ _ al _ _ hinv (by omega) (by omega) (by omega)
  refine ⟨k, fun b n hn => ?_⟩
  obtain ⟨R, h1, h2⟩ := search_lines_ok _ al hrep hwf hlive b n hn
  refine ⟨R, h1, ?_⟩
  rw [hk, hitems0, List.nil_append] at h2
  exact h2

/-- **Search on a crash state** (the directory is any well-formed one whose last file may end in a torn line, a torn index
entry, or still lack its index file): the time-range search returns every held item of the window, in order, followed by at
most one more item (the torn line misread), and it does not fail. -/
theorem search_range_crash (fs : FS) (al : List AFile) (hrep : Rep fs al) (hwf : WF al)
    (hcap : (al.flatMap AFile.items).length + 1 < MAX_ITEM_AMOUNT)
    (htorn : ∀ f ∈ al.dropLast, f.tail = []) (b e : Nat) (res : List Char) :
    ∃ extra, extra.length ≤ 1 ∧
      (searchRange fs {} b e res).2 = some (specRange ((al.flatMap AFile.items).map stored) b e res ++ extra) := by
  unfold searchRange
  have hstart : startFiles fs {} b = al.map (·.id) := by simp [startFiles, cacheOk, hrep.listing]
  rw [hstart]
  rcases start_decomp fs al hrep hwf b with ⟨hnone, hearly⟩ | ⟨A, f, B, pre, g, post, hal, hgs, hfs, hitems, hearly, hlo, hsorted⟩
  · rw [hnone]
    refine ⟨[], by simp, ?_⟩
    have := assemble (al.flatMap AFile.items) [] b e res hearly (by simp) (by simp)
    simp only [List.append_nil, List.map_nil, List.takeWhile_nil, List.filter_nil] at this
    rw [this]; rfl
  · rw [hfs]
    simp only []
    have hfmem : f ∈ al := by rw [hal]; simp
    have hBmem : ∀ x ∈ B, x ∈ al := by intro x hx; rw [hal]; simp [hx]
    have hgoodpost : ∀ it ∈ groupsItems (g :: post), GoodItem it := by
      intro it hit
      obtain ⟨g', hg', hig⟩ := List.mem_flatMap.mp hit
      exact hwf.good f hfmem g' (by rw [hgs]; simp [List.mem_cons.mp hg']) it hig
    have hspec := assemble _ _ b e res hearly hlo hsorted
    rw [hitems, hspec]
    rw [hitems] at hcap
    simp only [List.length_append] at hcap
    unfold readRange
    simp only [hrep.logs f hfmem]
    cases B with
    | nil =>
      obtain ⟨extra, c, he, hr, _⟩ := rangeOneFile_torn f.groups pre (g :: post) hgs f.tail (hwf.tails f hfmem).1 (b / 1000) (e / 1000) res 0
        hgoodpost (by omega)
      refine ⟨extra, he, ?_⟩
      simp only [AFile.log, hr, List.map_nil, rangeRest, ite_self, List.flatMap_nil, List.append_nil]
    | cons g2 more =>
      have hdl : (A ++ f :: g2 :: more).dropLast = A ++ f :: (g2 :: more).dropLast := dropLast_append_cons A f (g2 :: more) (by simp)
      have hflive : f.tail = [] := htorn f (by rw [hal, hdl]; simp)
      have hlog : f.log = groupsBytes f.groups := by simp [AFile.log, hflive]
      have hr := rangeOneFile_live f.groups pre (g :: post) hgs (b / 1000) (e / 1000) res 0 hgoodpost (by omega)
      rw [hlog, hr]
      simp only []
      by_cases hall : ((groupsItems (g :: post)).map stored).all (inWin (b / 1000) (e / 1000)) = true
      · simp only [hall, if_true]
        have hle : (List.filter (resMatch res) (List.takeWhile (inWin (b / 1000) (e / 1000)) (List.map stored (groupsItems (g :: post))))).length ≤ (groupsItems (g :: post)).length := by
          refine Nat.le_trans (List.length_filter_le _ _) (Nat.le_trans (length_takeWhile_le' _ _) (by simp))
        obtain ⟨extra, he, hrr⟩ := rangeRest_torn fs (g2 :: more) (fun x hx => hrep.logs x (hBmem x hx))
          (fun x hx => htorn x (by rw [hal, hdl]; simp [hx]))
          (fun x hx => (hwf.tails x (hBmem x hx)).1)
          (fun x hx it hit => by
            obtain ⟨g', hg', hig⟩ := List.mem_flatMap.mp hit
            exact hwf.good x (hBmem x hx) g' hg' it hig) (b / 1000) (e / 1000) res
          (List.filter (resMatch res) (List.takeWhile (inWin (b / 1000) (e / 1000)) (List.map stored (groupsItems (g :: post))))) (by omega)
        refine ⟨extra, he, ?_⟩
        rw [hrr, List.map_append, takeWhile_append_pos _ _ _ hall, takeWhile_all _ _ hall]
        simp [List.filter_append]
      · have hall' : ((groupsItems (g :: post)).map stored).all (inWin (b / 1000) (e / 1000)) = false := by simpa using hall
        simp only [hall', Bool.false_eq_true, if_false]
        refine ⟨[], by simp, ?_⟩
        rw [List.map_append, takeWhile_append_neg _ _ _ hall', List.append_nil]


/-- **Line-limited search on a crash state** (same directories as `search_range_crash`): the answer is a list `R` that meets the
line-limited Spec on the held items (a prefix from the begin second on, at least `n` when there are that many, whole seconds,
nothing beyond the second in which the limit was reached), followed by at most one more item (the torn line misread); the search
does not fail. -/
theorem search_lines_crash (fs : FS) (al : List AFile) (hrep : Rep fs al) (hwf : WF al)
    (htorn : ∀ f ∈ al.dropLast, f.tail = []) (b n : Nat) (hn : 1 ≤ n) :
    ∃ R extra, extra.length ≤ 1 ∧ (searchLines fs {} b n).2 = some (R ++ extra) ∧
      specLinesOk ((al.flatMap AFile.items).map stored) b n R = true := by
  unfold searchLines
  have hstart : startFiles fs {} b = al.map (·.id) := by simp [startFiles, cacheOk, hrep.listing]
  rw [hstart]
  rcases start_decomp fs al hrep hwf b with ⟨hnone, hearly⟩ | ⟨A, f, B, pre, g, post, hal, hgs, hfs, hitems, hearly, hlo, hsorted⟩
  · rw [hnone]
    refine ⟨[], [], by simp, rfl, ?_⟩
    have := fromSec_assemble (al.flatMap AFile.items) [] b hearly (by simp)
    simp only [List.append_nil, List.map_nil] at this
    exact specLinesOk_of _ [] [] b n hn this (by simp) (List.prefix_refl _) (Or.inr rfl) (whole_nil n)
  · rw [hfs]
    have hfmem : f ∈ al := by rw [hal]; simp
    have hBmem : ∀ x ∈ B, x ∈ al := by intro x hx; rw [hal]; simp [hx]
    have hgoodpost : ∀ it ∈ groupsItems (g :: post), GoodItem it := by
      intro it hit
      obtain ⟨g', hg', hig⟩ := List.mem_flatMap.mp hit
      exact hwf.good f hfmem g' (by rw [hgs]; simp [List.mem_cons.mp hg']) it hig
    have hfrom := fromSec_assemble _ _ b hearly hlo
    rw [← hitems] at hfrom
    have hsortedS : ((groupsItems (g :: post) ++ B.flatMap AFile.items).map stored).Pairwise (fun x y => secOf x ≤ secOf y) :=
      List.Pairwise.map stored (fun x y h => h) hsorted
    unfold readLines
    simp only [hrep.logs f hfmem]
    obtain ⟨Q1, q1, q2, q3, q4, q5⟩ := absLines_spec n 0 hn ((groupsItems (g :: post)).map stored) [] rfl 0 [] (by simp) (by simpa using whole_nil n)
    simp only [List.reverse_nil, List.nil_append, List.append_nil] at q1 q3 q4 q5
    by_cases hB : B = []
    · -- the start file is the last one: it may end in a torn line
      subst hB
      obtain ⟨extra, c, he, hr⟩ := linesOneFile_torn f.groups pre (g :: post) hgs f.tail (hwf.tails f hfmem).1 n 0 0 hgoodpost
      refine ⟨Q1, extra, he, ?_, ?_⟩
      · simp only [AFile.log, hr, q1, List.map_nil, linesRest, ite_self]
      · apply specLinesOk_of _ _ _ b n hn hfrom hsortedS
        · simpa using q2
        · by_cases hc : (absLines n 0 ((groupsItems (g :: post)).map stored) 0 []).cont = true
          · right; rw [(q4 hc).1]; simp
          · left; exact q5 (by simpa using hc)
        · exact q3
    · have hdl : (A ++ f :: B).dropLast = A ++ f :: B.dropLast := dropLast_append_cons A f B hB
      have hflive : f.tail = [] := htorn f (by rw [hal, hdl]; simp)
      have hlog : f.log = groupsBytes f.groups := by simp [AFile.log, hflive]
      rw [hlog, linesOneFile_live f.groups pre (g :: post) hgs n 0 0 hgoodpost]
      by_cases hc : (absLines n 0 ((groupsItems (g :: post)).map stored) 0 []).cont = true
      · rw [if_pos hc, q1]
        obtain ⟨e, _⟩ := q4 hc
        obtain ⟨Q2, extra, he, r1, r2, r3, r4⟩ := linesRest_torn fs n hn B (fun x hx => hrep.logs x (hBmem x hx))
          (fun x hx => htorn x (by rw [hal, hdl]; simp [hx])) (fun x hx => (hwf.tails x (hBmem x hx)).1)
          (fun x hx it hit => by
            obtain ⟨g', hg', hig⟩ := List.mem_flatMap.mp hit
            exact hwf.good x (hBmem x hx) g' hg' it hig) Q1 q3
        refine ⟨Q1 ++ Q2, extra, he, r1, ?_⟩
        apply specLinesOk_of _ _ _ b n hn hfrom hsortedS
        · rw [e, List.map_append]; exact (List.prefix_append_right_inj _).mpr r2
        · rcases r4 with h | h
          · exact Or.inl h
          · right; rw [e, h, List.map_append]
        · exact r3
      · rw [if_neg hc, q1]
        have hc' : (absLines n 0 ((groupsItems (g :: post)).map stored) 0 []).cont = false := by simpa using hc
        refine ⟨Q1, [], by simp, by simp, ?_⟩
        apply specLinesOk_of _ _ _ b n hn hfrom hsortedS
        · rw [List.map_append]; exact List.IsPrefix.trans q2 (List.prefix_append _ _)
        · exact Or.inl (q5 hc')
        · exact q3


/-- **Crash anywhere in a write.** After any history `pre` of complete writes, let the writer die at any byte of the action
stream of the next `write` call (`k` complete actions and `j` bytes of the next one: inside the removals or creations of a
roll-over, inside the 16 bytes of an index entry, inside a line, ...). A time-range search by a fresh searcher on what is on
disk does not fail and returns, for every window and resource, exactly the held items of the window in write order - what was
held before plus the first `m` items of the interrupted call (those whose lines are complete), minus whole files removed by
retention - followed by at most one more item (the torn line misread). -/
theorem search_after_crash (maxSize maxFiles nowMs : Nat) (pre : List (Nat × List MItem)) (ts : Nat) (items : List MItem)
    (w0 : Writer) (acts : List Act) (hnew : Writer.new {} maxSize maxFiles nowMs = some (w0, acts))
    (hgoodPre : ∀ p ∈ pre, ∀ it ∈ p.2, GoodItem { it with ts := p.1 }) (hgood : ∀ it ∈ items, GoodItem { it with ts := ts })
    (hts : nowMs / 1000 < 18446744073709551616 ∧ (∀ p ∈ pre, p.1 / 1000 < 18446744073709551616) ∧ ts / 1000 < 18446744073709551616)
    (hbytes : histBytes pre + ((stamp ts items).flatMap lineBytes).length < 18446744073709551616)
    (hitems : histItems pre + items.length + 1 < MAX_ITEM_AMOUNT) (k j : Nat) :
    ∃ d m, ∀ b e res, ∃ extra : List MItem, extra.length ≤ 1 ∧
      (searchRange ((runWrites w0 (({} : FS).applyAll acts) pre).2.1.applyAll
          (crashPrefix ((runWrites w0 (({} : FS).applyAll acts) pre).1.write (runWrites w0 (({} : FS).applyAll acts) pre).2.1 ts items).2.1 k j))
        {} b e res).2 =
        some (specRange ((((runWrites w0 (({} : FS).applyAll acts) pre).2.2 ++
          (accepted (runWrites w0 (({} : FS).applyAll acts) pre).1 ts items).take m).drop d).map stored) b e res ++ extra) := by
  obtain ⟨al0, hinv0, hitems0⟩ := new_inv maxSize maxFiles nowMs w0 acts hnew
  obtain ⟨al, hinv, k0, hk0⟩ := run_inv pre w0 _ al0 0 0 hinv0 hgoodPre
  have hl0 : w0.latest = nowMs / 1000 := by
    unfold Writer.new at hnew
    split at hnew
    · simp at hnew
    · simp only [Option.some.injEq, Prod.mk.injEq] at hnew
      rw [← hnew.1]
  have hlatest : (runWrites w0 (({} : FS).applyAll acts) pre).1.latest ≤ 18446744073709551615 :=
    run_latest_le pre w0 _ 18446744073709551615 (by rw [hl0]; omega) (fun p hp => by have := hts.2.1 p hp; omega)
  obtain ⟨d, m, al', hrep, hwf, hcap, htorn, hheld⟩ := crash_in_write _ _ al _ _ ts items hinv hgood (by omega) (by omega) ⟨by omega, hts.2.2⟩ k j
  rw [hk0, hitems0, List.nil_append] at hheld
  refine ⟨min k0 (runWrites w0 (({} : FS).applyAll acts) pre).2.2.length + d, m, fun b e res => ?_⟩
  obtain ⟨extra, he, hs⟩ := search_range_crash _ al' hrep hwf hcap htorn b e res
  refine ⟨extra, he, ?_⟩
  rw [hs, hheld, drop_min (runWrites w0 (({} : FS).applyAll acts) pre).2.2 k0, drop_append_drop _ _ _ _ (Nat.min_le_right _ _)]

/-- the same for the **line-limited search**: after any history, with the writer dead at any byte of the next `write`, the search
returns a list that meets the line-limited Spec on what is held (what was held before plus the complete lines of the interrupted call,
minus whole files removed by retention), followed by at most one torn item; it does not fail -/
theorem search_lines_after_crash (maxSize maxFiles nowMs : Nat) (pre : List (Nat × List MItem)) (ts : Nat) (items : List MItem)
    (w0 : Writer) (acts : List Act) (hnew : Writer.new {} maxSize maxFiles nowMs = some (w0, acts))
    (hgoodPre : ∀ p ∈ pre, ∀ it ∈ p.2, GoodItem { it with ts := p.1 }) (hgood : ∀ it ∈ items, GoodItem { it with ts := ts })
    (hts : nowMs / 1000 < 18446744073709551616 ∧ (∀ p ∈ pre, p.1 / 1000 < 18446744073709551616) ∧ ts / 1000 < 18446744073709551616)
    (hbytes : histBytes pre + ((stamp ts items).flatMap lineBytes).length < 18446744073709551616)
    (hitems : histItems pre + items.length + 1 < MAX_ITEM_AMOUNT) (k j : Nat) :
    ∃ d m, ∀ b n, 1 ≤ n → ∃ R extra : List MItem, extra.length ≤ 1 ∧
      (searchLines ((runWrites w0 (({} : FS).applyAll acts) pre).2.1.applyAll
          (crashPrefix ((runWrites w0 (({} : FS).applyAll acts) pre).1.write (runWrites w0 (({} : FS).applyAll acts) pre).2.1 ts items).2.1 k j))
        {} b n).2 = some (R ++ extra) ∧
      specLinesOk ((((runWrites w0 (({} : FS).applyAll acts) pre).2.2 ++
          (accepted (runWrites w0 (({} : FS).applyAll acts) pre).1 ts items).take m).drop d).map stored) b n R = true := by
  obtain ⟨al0, hinv0, hitems0⟩ := new_inv maxSize maxFiles nowMs w0 acts hnew
  obtain ⟨al, hinv, k0, hk0⟩ := run_inv pre w0 _ al0 0 0 hinv0 hgoodPre
  have hl0 : w0.latest = nowMs / 1000 := by
    unfold Writer.new at hnew
    split at hnew
    · simp at hnew
    · simp only [Option.some.injEq, Prod.mk.injEq] at hnew
      rw [← hnew.1]
  have hlatest : (runWrites w0 (({} : FS).applyAll acts) pre).1.latest ≤ 18446744073709551615 :=
    run_latest_le pre w0 _ 18446744073709551615 (by rw [hl0]; omega) (fun p hp => by have := hts.2.1 p hp; omega)
  obtain ⟨d, m, al', hrep, hwf, hcap, htorn, hheld⟩ := crash_in_write _ _ al _ _ ts items hinv hgood (by omega) (by omega) ⟨by omega, hts.2.2⟩ k j
  rw [hk0, hitems0, List.nil_append] at hheld
  refine ⟨min k0 (runWrites w0 (({} : FS).applyAll acts) pre).2.2.length + d, m, fun b n hn => ?_⟩
  obtain ⟨R, extra, he, hs, hok⟩ := search_lines_crash _ al' hrep hwf htorn b n hn
  refine ⟨R, extra, he, hs, ?_⟩
  rw [hheld, drop_min (runWrites w0 (({} : FS).applyAll acts) pre).2.2 k0, drop_append_drop _ _ _ _ (Nat.min_le_right _ _)] at hok
  exact hok

/-- **Crash while the writer is being created** (`DefaultMetricLogWriter::new` on an empty directory issues two creations: the log
file, then its index file): whatever prefix of them has happened - nothing, the log file without its index, both - both searches
by a fresh searcher answer with the empty list and do not fail. -/
theorem search_after_crash_in_new (maxSize maxFiles nowMs : Nat) (w0 : Writer) (acts : List Act)
    (hnew : Writer.new {} maxSize maxFiles nowMs = some (w0, acts)) (k j : Nat) :
    (∀ b e res, (searchRange (({} : FS).applyAll (crashPrefix acts k j)) {} b e res).2 = some []) ∧
    (∀ b n, 1 ≤ n → (searchLines (({} : FS).applyAll (crashPrefix acts k j)) {} b n).2 = some []) := by
  have hacts : acts = (rollActs {} maxFiles nowMs).2 := by
    unfold Writer.new at hnew
    split at hnew
    · simp at hnew
    · simp only [Option.some.injEq, Prod.mk.injEq] at hnew
      exact hnew.2.symm
  subst hacts
  obtain ⟨al', q, hrep, hal⟩ := roll_prefix_state ({} : FS) [] ⟨rfl, rfl⟩ (by simp [IdsSorted]) maxFiles nowMs (by simp) k j
  simp only [List.drop_nil, List.nil_append] at hal
  have hitems : al'.flatMap AFile.items = [] := by
    rcases hal with h | h <;> simp [h, AFile.new, AFile.items, groupsItems]
  have hlive : ∀ f ∈ al', f.tail = [] ∧ f.idxTail = [] := by
    rcases hal with h | h
    · simp [h]
    · intro f hf; rw [h] at hf; simp only [List.mem_singleton] at hf; subst hf; simp [AFile.new]
  have hgroups : ∀ f ∈ al', f.groups = [] := by
    rcases hal with h | h
    · simp [h]
    · intro f hf; rw [h] at hf; simp only [List.mem_singleton] at hf; subst hf; simp [AFile.new]
  have hwf : WF al' := by
    refine ⟨?_, ?_, ?_, ?_, ?_, ?_⟩
    · have : al'.flatMap (fun f => f.groups.map (·.1)) = [] := by
        rw [List.flatMap_eq_nil_iff]; intro f hf; simp [hgroups f hf]
      rw [this]; exact List.Pairwise.nil
    · intro f hf g hg; rw [hgroups f hf] at hg; simp at hg
    · intro f hf g hg; rw [hgroups f hf] at hg; simp at hg
    · intro f hf; rw [hgroups f hf]; simp [groupsBytes]
    · intro f hf; rw [(hlive f hf).1, (hlive f hf).2]; simp
    · rw [hitems]; simp [MAX_ITEM_AMOUNT]
  constructor
  · intro b e res
    rw [search_range_finds_all _ al' hrep hwf hlive b e res, hitems]; rfl
  · intro b n hn
    obtain ⟨R, h1, h2⟩ := search_lines_ok _ al' hrep hwf hlive b n hn
    rw [hitems] at h2
    have hR : R = [] := by
      unfold specLinesOk at h2
      simp only [List.map_nil, fromSec, List.filter_nil, List.take_nil, Bool.and_eq_true, beq_iff_eq] at h2
      exact h2.1.1
    rw [h1, hR]

/-! ### a long-lived searcher (cached position) -/

/-- what a program does with one writer and one long-lived searcher -/
inductive Step
  | write (ts : Nat) (items : List MItem)
  | range (b e : Nat) (res : List Char)
  | lines (b n : Nat)

/-- every search of the session, answered through the searcher's cached position, gives the answer a fresh searcher would give -/
def sessionOk (w : Writer) (fs : FS) (c : Cache) : List Step → Prop
  | [] => True
  | .write ts items :: rest => sessionOk (w.write fs ts items).1 (fs.applyAll (w.write fs ts items).2.1) c rest
  | .range b e res :: rest =>
    (searchRange fs c b e res).2 = (searchRange fs {} b e res).2 ∧ sessionOk w fs (searchRange fs c b e res).1 rest
  | .lines b n :: rest =>
    (searchLines fs c b n).2 = (searchLines fs {} b n).2 ∧ sessionOk w fs (searchLines fs c b n).1 rest

def stepsBytes : List Step → Nat
  | [] => 0
  | .write ts items :: rest => ((stamp ts items).flatMap lineBytes).length + stepsBytes rest
  | _ :: rest => stepsBytes rest

def stepsItems : List Step → Nat
  | [] => 0
  | .write _ items :: rest => items.length + stepsItems rest
  | _ :: rest => stepsItems rest

def stepsGood (M : Nat) : List Step → Prop
  | [] => True
  | .write ts items :: rest => (∀ it ∈ items, GoodItem { it with ts := ts }) ∧ ts / 1000 ≤ M ∧ stepsGood M rest
  | _ :: rest => stepsGood M rest

theorem session_inv (steps : List Step) (w : Writer) (fs : FS) (al : List AFile) (B N M : Nat) (c : Cache)
    (h : WInv w fs al B N) (hc : CacheInv al c) (hgood : stepsGood M steps) (hM : w.latest ≤ M ∧ M < 18446744073709551616)
    (hB : B + stepsBytes steps < 18446744073709551616) (hN : N + stepsItems steps < MAX_ITEM_AMOUNT) :
    sessionOk w fs c steps := by
  induction steps generalizing w fs al B N c with
  | nil => trivial
  | cons st rest ih =>
    cases st with
    | write ts items =>
      simp only [sessionOk, stepsGood, stepsBytes, stepsItems] at hgood hB hN ⊢
      obtain ⟨al', hinv', _, hcache⟩ := write_inv w fs al B N ts items h hgood.1
      refine ih _ _ al' _ _ c hinv' (hcache c hc) hgood.2.2 ⟨write_latest_le w fs ts items M hM.1 hgood.2.1, hM.2⟩ ?_ ?_
      · simp only [stamp] at hB; omega
      · omega
    | range b e res =>
      simp only [sessionOk, stepsGood, stepsBytes, stepsItems] at hgood hB hN ⊢
      obtain ⟨hrep, hwf, hlive⟩ := winv_rep_wf w fs al B N h (by omega) (by omega) (by omega)
      obtain ⟨h1, h2, _, _⟩ := cached_search_eq_fresh fs al hrep hwf hlive h.ids c hc b e res 0
      exact ⟨h1, ih w fs al B N _ h h2 hgood hM hB hN⟩
    | lines b n =>
      simp only [sessionOk, stepsGood, stepsBytes, stepsItems] at hgood hB hN ⊢
      obtain ⟨hrep, hwf, hlive⟩ := winv_rep_wf w fs al B N h (by omega) (by omega) (by omega)
      obtain ⟨_, _, h3, h4⟩ := cached_search_eq_fresh fs al hrep hwf hlive h.ids c hc b 0 [] n
      exact ⟨h3, ih w fs al B N _ h h4 hgood hM hB hN⟩

/-- **A long-lived searcher answers like a fresh one.** Create a writer and a searcher; interleave any writes with any searches
of both kinds through that one searcher (whose cached position is updated by every search): each search returns exactly what a
fresh searcher returns on the directory of that moment - which, by `written_items_are_found` / `..._by_lines`, is the Spec. -/
theorem long_lived_searcher (maxSize maxFiles nowMs M : Nat) (steps : List Step) (w0 : Writer) (acts : List Act)
    (hnew : Writer.new {} maxSize maxFiles nowMs = some (w0, acts))
    (hgood : stepsGood M steps) (hM : nowMs / 1000 ≤ M ∧ M < 18446744073709551616)
    (hB : stepsBytes steps < 18446744073709551616) (hN : stepsItems steps < MAX_ITEM_AMOUNT) :
    sessionOk w0 (({} : FS).applyAll acts) {} steps := by
  obtain ⟨al0, hinv0, _⟩ := new_inv maxSize maxFiles nowMs w0 acts hnew
  have hl0 : w0.latest = nowMs / 1000 := by
    unfold Writer.new at hnew
    split at hnew
    · simp at hnew
    · simp only [Option.some.injEq, Prod.mk.injEq] at hnew
      rw [← hnew.1]
  exact session_inv steps w0 _ al0 0 0 M {} hinv0 (cacheInv_empty al0) hgood ⟨by rw [hl0]; exact hM.1, hM.2⟩ (by omega) (by omega)

/-- retention: a roll-over keeps the newest `maxFiles - 1` files (all of them while there are fewer) -/
theorem retention_keeps_newest (n maxFiles : Nat) (h : 0 < maxFiles) : n - dropCount n maxFiles = min n (maxFiles - 1) := by
  unfold dropCount; split <;> omega

/-! non-vacuity: a concrete history (two seconds, a roll-over by size, retention of two files) meets the hypotheses, and the
model's answer on it is the expected one -/
def exItem (r : String) (p : Nat) : MItem :=
  { resource := r.toList, rtype := 1, ts := 0, pass := p, block := 0, complete := p, error := 0, rt := 3, occupied := 0, conc := 1 }
def exHist : List (Nat × List MItem) :=
  [(1700000001000, [exItem "a" 1, exItem "b" 2]), (1700000001500, [exItem "a" 3]), (1700000002000, [exItem "c" 4])]

example : ∀ p ∈ exHist, ∀ it ∈ p.2, GoodItem { it with ts := p.1 } := by
  intro p hp it hit
  simp only [exHist, List.mem_cons, List.not_mem_nil, or_false] at hp
  rcases hp with rfl | rfl | rfl <;> simp only [List.mem_cons, List.not_mem_nil, or_false] at hit <;>
    (try rcases hit with rfl | rfl) <;> (try subst hit) <;>
    refine ⟨by simp [MItem.inRange, exItem, u64MaxL, u32MaxL], fun c hc => ?_⟩ <;>
    simp [exItem] at hc <;> subst hc <;> simp [plainC]


/-- the model executed on that history (a test, labelled as such): a 100-byte size limit rolls the file after the second write -/
def exRun := match Writer.new {} 100 2 1700000000500 with
  | some (w, acts) => some (runWrites w (({} : FS).applyAll acts) exHist)
  | none => none

example : (exRun.map (fun r => (r.2.1.listLogs, (searchRange r.2.1 {} 1700000001500 1700000002999 "a".toList).2.map (·.map (fun it => (it.ts, it.pass)))))) =
    some ([⟨19675, 0⟩, ⟨19675, 1⟩], some [(1700000001000, 1), (1700000001500, 3)]) := by decide +kernel

/-! the clauses the end-to-end theorem rests on, under the names used in DESIGN.md -/

/-- index entries are read back as written -/
theorem index_entry_roundtrip (n : Nat) (rest : Bytes) (h : n < 18446744073709551616) : unbe64 (be64 n ++ rest) = some n :=
  unbe64_be64 n rest h

/-- the index search finds the first group at or after the begin second and the byte offset of its first line; a torn last
entry (fewer than 16 bytes) never changes the answer -/
theorem index_search_first_entry (gs : List Group) (b : Nat) (torn : Bytes) (ht : torn.length < 16)
    (hs : ∀ g ∈ gs, g.1 < 18446744073709551616) (ho : (groupsBytes gs).length < 18446744073709551616) :
    findEntry (idxOf 0 gs ++ torn) b = firstOffset gs b := by
  rw [findEntry_idxOf gs 0 b torn ht hs (by omega)]
  unfold firstOffset
  split <;> simp_all

/-- every character survives the UTF-8 round trip of the model's own encoder/decoder -/
theorem utf8_roundtrip (cs : List Char) : decodeUtf8 (utf8Encode cs) = some cs := decodeUtf8_encode cs

/-- a written line is one line and reads back as the stored form of the item -/
theorem written_line_reads_back (it : MItem) (h : GoodItem it) : 10 ∉ lineOf it ∧ parseLine (lineOf it) = some (stored it) :=
  ⟨lineOf_no_nl it h, parseLine_lineOf it h⟩

/-- creating the writer establishes the invariant -/
theorem new_writer_well_formed (maxSize maxFiles nowMs : Nat) (w : Writer) (acts : List Act)
    (h : Writer.new {} maxSize maxFiles nowMs = some (w, acts)) :
    ∃ al, WInv w (({} : FS).applyAll acts) al 0 0 ∧ al.flatMap AFile.items = [] := new_inv maxSize maxFiles nowMs w acts h

/-- every `write` keeps it: the directory stays, file for file, the abstract log; the log gains exactly the accepted items and
loses only whole oldest files -/
theorem write_keeps_well_formed (w : Writer) (fs : FS) (al : List AFile) (B N ts : Nat) (items : List MItem) (h : WInv w fs al B N)
    (hgood : ∀ it ∈ items, GoodItem { it with ts := ts }) :
    ∃ al', WInv (w.write fs ts items).1 (fs.applyAll (w.write fs ts items).2.1) al'
      (B + ((items.map (fun it => { it with ts := ts })).flatMap lineBytes).length) (N + items.length) ∧
      (∃ k, al'.flatMap AFile.items = (al.flatMap AFile.items ++ accepted w ts items).drop k) ∧
      ∀ c, CacheInv al c → CacheInv al' c := write_inv w fs al B N ts items h hgood

/-- a roll-over removes the oldest files beyond the limit, adds a new empty file whose name sorts after all others -/
theorem rollover_spec (fs : FS) (al : List AFile) (h : RepL fs al) (hs : IdsSorted (al.map (·.id))) (maxFiles tsMs : Nat)
    (hd : ∀ f ∈ al, f.id.day ≤ dayOfSec (tsMs / 1000)) :
    RepL (fs.applyAll (rollActs fs maxFiles tsMs).2) (al.drop (dropCount al.length maxFiles) ++ [AFile.new (rollActs fs maxFiles tsMs).1]) ∧
    IdsSorted ((al.drop (dropCount al.length maxFiles) ++ [AFile.new (rollActs fs maxFiles tsMs).1]).map (·.id)) ∧
    (rollActs fs maxFiles tsMs).1.day = dayOfSec (tsMs / 1000) := roll_spec fs al h hs maxFiles tsMs hd

end Sentinel.MLog
