import SentinelProofs.Lemmas.MetricLog
/-!
# C19 — metric log: written items can be searched back; a torn tail loses one line

Model: `Sentinel/MetricLog.lean` (writer actions on an explicit directory, index search, readers, searcher with its cache).
Abstraction used by the theorems (`SentinelProofs/Lemmas/MetricLog.lean`): a log file is a list of *groups* — one per index
entry: the second and the items whose lines follow that entry (`AFile`); `Rep fs al` says the directory `fs` holds exactly
the files `al` (bytes: `groupsBytes`, `idxOf`), `WF al` what the writer guarantees about them.
-/
namespace Sentinel.MLog
open Sentinel

/-- **Search by time range and resource returns exactly the items the log holds for that window, in write order**, for every
well-formed directory (any number of files, any roll-over points, any seconds incl. one second continuing in the next file),
every window and resource, on a searcher without a cached position. -/
theorem search_range_finds_all (fs : FS) (al : List AFile) (hrep : Rep fs al) (hwf : WF al)
    (hlive : ∀ f ∈ al, f.tail = [] ∧ f.idxTail = []) (b e : Nat) (res : List Char) :
    (searchRange fs {} b e res).2 = some (specRange ((al.flatMap AFile.items).map stored) b e res) := by
  unfold searchRange
  have hstart : startFiles fs {} b = al.map (·.id) := by simp [startFiles, cacheOk, hrep.listing]
  rw [hstart, findStart_spec fs al (b / 1000) (fun f hf => idx_lookup fs f _ (hrep.idxs f hf) (hwf.small f hf) (hwf.tails f hf).2)]
  cases hd : al.dropWhile (fun f => (firstOffset f.groups (b / 1000)).isNone) with
  | nil =>
    simp only []
    have hearly : ∀ it ∈ al.flatMap AFile.items, secOf it < b / 1000 := by
      intro it hit
      obtain ⟨f, hf, hif⟩ := List.mem_flatMap.mp hit
      obtain ⟨g, hg, hig⟩ := List.mem_flatMap.mp hif
      have hnone := dropWhile_nil_all _ _ hd f hf
      rw [hwf.secs f hf g hg it hig]
      exact firstOffset_none f.groups _ (by simpa using hnone) g hg
    have := assemble (al.flatMap AFile.items) [] b e res hearly (by simp) (by simp)
    simp only [List.append_nil, List.map_nil, List.takeWhile_nil, List.filter_nil] at this
    rw [this]
  | cons f B =>
    have hal : al = al.takeWhile (fun f => (firstOffset f.groups (b / 1000)).isNone) ++ f :: B := by
      rw [← hd, List.takeWhile_append_dropWhile]
    generalize hA : al.takeWhile (fun f => (firstOffset f.groups (b / 1000)).isNone) = A at hal
    have hAearly : ∀ x ∈ A, (firstOffset x.groups (b / 1000)) = none := by
      intro x hx
      have := takeWhile_all_mem _ _ x (hA ▸ hx)
      simpa using this
    have hfsome := dropWhile_head_not _ _ _ _ hd
    simp only [Option.isNone_eq_false_iff, Option.isSome_iff_exists] at hfsome
    obtain ⟨⟨sec, off⟩, hfo⟩ := hfsome
    obtain ⟨pre, g, post, hgs, hpre, hg, hsec, hoff⟩ := firstOffset_some f.groups _ sec off hfo
    have hfmem : f ∈ al := by rw [hal]; simp
    have hBmem : ∀ x ∈ B, x ∈ al := by intro x hx; rw [hal]; simp [hx]
    have hAmem : ∀ x ∈ A, x ∈ al := by intro x hx; rw [hal]; simp [hx]
    simp only [hfo, Option.map_some, List.head?_cons]
    -- the read
    unfold readRange
    simp only [hrep.logs f hfmem]
    have hlog : f.log = groupsBytes f.groups := by simp [AFile.log, (hlive f hfmem).1]
    have hgoodpost : ∀ it ∈ groupsItems (g :: post), GoodItem it := by
      intro it hit
      obtain ⟨g', hg', hig⟩ := List.mem_flatMap.mp hit
      exact hwf.good f hfmem g' (by rw [hgs]; simp [List.mem_cons.mp hg']) it hig
    have hallitems : al.flatMap AFile.items = (A.flatMap AFile.items ++ groupsItems pre) ++ (groupsItems (g :: post) ++ B.flatMap AFile.items) := by
      rw [hal]
      simp only [List.flatMap_append, List.flatMap_cons, AFile.items, hgs, groupsItems, List.append_assoc]
    have hcap := hwf.cap
    rw [hallitems] at hcap
    simp only [List.length_append] at hcap
    have hr := rangeOneFile_live f.groups pre (g :: post) hgs (b / 1000) (e / 1000) res 0 hgoodpost (by omega)
    rw [hlog, hoff, hr]
    -- early / from
    have hearly : ∀ it ∈ A.flatMap AFile.items ++ groupsItems pre, secOf it < b / 1000 := by
      intro it hit
      rcases List.mem_append.mp hit with h | h
      · obtain ⟨x, hx, hix⟩ := List.mem_flatMap.mp h
        obtain ⟨g', hg', hig⟩ := List.mem_flatMap.mp hix
        rw [hwf.secs x (hAmem x hx) g' hg' it hig]
        exact firstOffset_none x.groups _ (hAearly x hx) g' hg'
      · obtain ⟨g', hg', hig⟩ := List.mem_flatMap.mp h
        rw [hwf.secs f hfmem g' (by rw [hgs]; simp [hg']) it hig]
        exact hpre g' hg'
    -- group seconds from the start group on
    have hsortedAll := hwf.sorted
    rw [hal] at hsortedAll
    simp only [List.flatMap_append, List.flatMap_cons, hgs, List.map_append, List.map_cons] at hsortedAll
    have hsub : ((g :: post) ++ B.flatMap (·.groups)).map (·.1) = g.1 :: (post.map (·.1) ++ B.flatMap (fun f => f.groups.map (·.1))) := by
      simp [List.map_flatMap]
    have hsortedFrom : (((g :: post) ++ B.flatMap (·.groups)).map (·.1)).Pairwise (· ≤ ·) := by
      rw [hsub]
      have h1 := (List.pairwise_append.mp hsortedAll).2.1
      have h2 := (List.pairwise_append.mp h1).1
      have h3 := (List.pairwise_append.mp h2).2.1
      -- h3 : (g.1 :: post.map fst) pairwise ; need with B part: use h1 directly restructured
      have h4 : ((pre.map (·.1) ++ g.1 :: post.map (·.1)) ++ B.flatMap (fun f => f.groups.map (·.1))).Pairwise (· ≤ ·) := h1
      rw [List.append_assoc] at h4
      exact (List.pairwise_append.mp h4).2.1
    have hsecsFrom : ∀ g' ∈ (g :: post) ++ B.flatMap (·.groups), ∀ it ∈ g'.2, secOf it = g'.1 := by
      intro g' hg' it hit
      rcases List.mem_append.mp hg' with h | h
      · exact hwf.secs f hfmem g' (by rw [hgs]; simp [List.mem_cons.mp h]) it hit
      · obtain ⟨x, hx, hgx⟩ := List.mem_flatMap.mp h
        exact hwf.secs x (hBmem x hx) g' hgx it hit
    have hfromEq : groupsItems (g :: post) ++ B.flatMap AFile.items = groupsItems ((g :: post) ++ B.flatMap (·.groups)) := by
      rw [items_flatMap_groups]; simp [groupsItems]
    have hsortedItems := groupsItems_sorted _ hsecsFrom hsortedFrom
    have hlo : ∀ it ∈ groupsItems ((g :: post) ++ B.flatMap (·.groups)), b / 1000 ≤ secOf it := by
      intro it hit
      obtain ⟨g', hg', hig⟩ := List.mem_flatMap.mp hit
      rw [hsecsFrom g' hg' it hig]
      rw [hsub] at hsortedFrom
      rcases List.mem_append.mp hg' with h | h
      · rcases List.mem_cons.mp h with e | e
        · rw [e]; exact hg
        · have := (List.pairwise_cons.mp hsortedFrom).1 g'.1 (List.mem_append.mpr (Or.inl (List.mem_map.mpr ⟨g', e, rfl⟩)))
          omega
      · obtain ⟨x, hx, hgx⟩ := List.mem_flatMap.mp h
        have := (List.pairwise_cons.mp hsortedFrom).1 g'.1 (List.mem_append.mpr (Or.inr (List.mem_flatMap.mpr ⟨x, hx, List.mem_map.mpr ⟨g', hgx, rfl⟩⟩)))
        omega
    have hspec := assemble (A.flatMap AFile.items ++ groupsItems pre) (groupsItems ((g :: post) ++ B.flatMap (·.groups))) b e res hearly hlo hsortedItems
    rw [hallitems, hfromEq, hspec]
    -- the model's answer
    simp only []
    by_cases hall : ((groupsItems (g :: post)).map stored).all (inWin (b / 1000) (e / 1000)) = true
    · simp only [hall, if_true]
      have hle : (List.filter (resMatch res) (List.takeWhile (inWin (b / 1000) (e / 1000)) (List.map stored (groupsItems (g :: post))))).length ≤ (groupsItems (g :: post)).length := by
        refine Nat.le_trans (List.length_filter_le _ _) (Nat.le_trans (length_takeWhile_le' _ _) (by simp))
      rw [rangeRest_live fs B (fun x hx => hrep.logs x (hBmem x hx)) (fun x hx => (hlive x (hBmem x hx)).1)
        (fun x hx it hit => by
          obtain ⟨g', hg', hig⟩ := List.mem_flatMap.mp hit
          exact hwf.good x (hBmem x hx) g' hg' it hig) _ _ _ _ (by omega)]
      rw [← hfromEq, List.map_append, takeWhile_append_pos _ _ _ hall, takeWhile_all _ _ hall]
      simp [List.filter_append]
    · have hall' : ((groupsItems (g :: post)).map stored).all (inWin (b / 1000) (e / 1000)) = false := by simpa using hall
      simp only [hall', Bool.false_eq_true, if_false]
      rw [← hfromEq, List.map_append, takeWhile_append_neg _ _ _ hall']


end Sentinel.MLog
