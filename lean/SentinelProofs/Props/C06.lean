import Sentinel.Hotspot
import SentinelProofs.Lemmas.Lru
/-!
# C06 — hotspot QPS limiting is a per-parameter token bucket with no cross-talk

Two layers.
* `Bucket`: what `RejectChecker::do_check` does for ONE parameter value, as a function of that value's
  two counter cells only (last refill time, remaining tokens). Theorems about every arrival sequence of
  any length: the token bound, "rejected only when insufficient", first-request behaviour.
* LRU layer: while the number of distinct values stays within the capacity, `Lru` behaves like a finite map
  (`peek` of other keys is never changed, nothing is evicted), and `HsCtrl.checkReject` for value `v` reads and
  writes exactly `v`'s two cells as `Bucket.step` prescribes (`checkReject_refines_bucket`). Hence no cross-talk.
-/
set_option autoImplicit false
namespace Sentinel

/-! ## the per-value token bucket -/

/-- one value's cells: `none` = never seen; `some (lastRefillMs, tokens)` -/
abbrev Bucket := Option (Nat × Nat)

inductive BRes where
  | pass | zeroThreshold | batchTooBig | insufficient
  deriving Repr, DecidableEq

/-- `RejectChecker::do_check` for one value with threshold `q` (override already applied), burst `b`,
duration `D = d*1000` ms -/
def Bucket.step (q b D : Nat) (s : Bucket) (now batch : Nat) : Bucket × BRes :=
  if q = 0 then (s, .zeroThreshold) else
  let maxCount := q + b
  if batch > maxCount then (s, .batchTooBig) else
  match s with
  | none => (some (now, maxCount - batch), .pass)
  | some (last, rest) =>
    if now > last + D then
      let toAdd := (now - last) * q / D
      if toAdd + rest > maxCount then (some (now, maxCount - batch), .pass)
      else if toAdd + rest < batch then (some (last, rest), .insufficient)
      else (some (now, toAdd + rest - batch), .pass)
    else
      if rest ≥ batch then (some (last, rest - batch), .pass) else (some (last, rest), .insufficient)

/-- time at which the value's cells were created (its first admitted request) -/
def firstAfter (first : Option Nat) (s' : Bucket) (t : Nat) : Option Nat :=
  match first with
  | some f => some f
  | none => match s' with | some _ => some t | none => none

/-- run a list of arrivals `(time, batch)` (newest first) for one value; returns the cells, the time of the first
request and the tokens admitted so far -/
def Bucket.run (q b D : Nat) : List (Nat × Nat) → Bucket × Option Nat × Nat
  | [] => (none, none, 0)
  | (t, n) :: older =>
    let (s, first, adm) := Bucket.run q b D older
    let (s', r) := Bucket.step q b D s t n
    (s', firstAfter first s' t, if r = .pass then adm + n else adm)

def TimesOk : List (Nat × Nat) → Prop
  | [] => True
  | a :: older => (∀ o ∈ older, o.1 ≤ a.1) ∧ TimesOk older

/-- the last-refill time of the cells is not in the future -/
def Bucket.lastLe (s : Bucket) (now : Nat) : Prop := ∀ last rest, s = some (last, rest) → last ≤ now

/-- invariant: `admitted + remaining ≤ q + b + q·(lastRefill − first)/D`, stated without division -/
def BucketInv (q b D : Nat) (s : Bucket) (first : Option Nat) (adm : Nat) : Prop :=
  match s, first with
  | none, none => adm = 0
  | some (last, rest), some f => f ≤ last ∧ (adm + rest) * D ≤ (q + b) * D + q * (last - f)
  | _, _ => False

theorem bucket_step_inv (q b D : Nat) (s : Bucket) (first : Option Nat) (adm now batch : Nat)
    (hinv : BucketInv q b D s first adm) (hnow : s.lastLe now) :
    BucketInv q b D (Bucket.step q b D s now batch).1 (firstAfter first (Bucket.step q b D s now batch).1 now)
      (if (Bucket.step q b D s now batch).2 = .pass then adm + batch else adm) := by
  unfold Bucket.step firstAfter
  by_cases hq : q = 0
  · simp only [hq, if_true]
    cases s with
    | none =>
      cases first with
      | none => simp only [BucketInv] at hinv ⊢; subst hinv; rfl
      | some f => exact hinv.elim
    | some p =>
      obtain ⟨last, rest⟩ := p
      cases first with
      | none => exact hinv.elim
      | some f => simpa [BucketInv, hq] using hinv
  · simp only [hq, if_false]
    by_cases hb : batch > q + b
    · simp only [hb, if_true]
      cases s with
      | none =>
        cases first with
        | none => simp only [BucketInv] at hinv ⊢; subst hinv; rfl
        | some f => exact hinv.elim
      | some p =>
        obtain ⟨last, rest⟩ := p
        cases first with
        | none => exact hinv.elim
        | some f => simpa [BucketInv] using hinv
    · simp only [hb, if_false]
      cases s with
      | none =>
        cases first with
        | some f => exact hinv.elim
        | none =>
          simp only [BucketInv] at hinv
          subst hinv
          simp only [BucketInv, if_true, Nat.le_refl, true_and, Nat.sub_self, Nat.mul_zero, Nat.add_zero, Nat.zero_add]
          apply Nat.mul_le_mul_right; omega
      | some p =>
        obtain ⟨last, rest⟩ := p
        cases first with
        | none => exact hinv.elim
        | some f =>
          simp only [BucketInv] at hinv ⊢
          have hnow : last ≤ now := hnow last rest rfl
          obtain ⟨hfl, hI⟩ := hinv
          by_cases hre : now > last + D
          · simp only [hre, if_true]
            have hdiv : (now - last) * q / D * D ≤ (now - last) * q := Nat.div_mul_le_self _ _
            by_cases h1 : (now - last) * q / D + rest > q + b
            · simp only [h1, if_true]
              refine ⟨by omega, ?_⟩
              have e : adm + batch + (q + b - batch) = adm + (q + b) := by omega
              rw [e]
              have hI' : adm * D + rest * D ≤ (q + b) * D + q * (last - f) := by rw [← Nat.add_mul]; exact hI
              rcases Nat.eq_zero_or_pos D with hD0 | hD
              · subst hD0; simp
              · have h1' : (q + b) * D < ((now - last) * q / D + rest) * D := Nat.mul_lt_mul_of_pos_right h1 hD
                rw [Nat.add_mul ((now - last) * q / D) rest D] at h1'
                have hsplit : q * (now - f) = q * (last - f) + q * (now - last) := by
                  rw [← Nat.mul_add]; congr 1; omega
                rw [Nat.add_mul adm (q + b) D, hsplit, Nat.mul_comm q (now - last)]
                omega
            · simp only [h1, if_false]
              by_cases h2 : (now - last) * q / D + rest < batch
              · simp only [h2, if_true]
                exact ⟨hfl, hI⟩
              · simp only [h2, if_false, if_true]
                refine ⟨by omega, ?_⟩
                have e : adm + batch + ((now - last) * q / D + rest - batch) = adm + rest + (now - last) * q / D := by omega
                rw [e, Nat.add_mul]
                have hsplit : q * (now - f) = q * (last - f) + q * (now - last) := by
                  rw [← Nat.mul_add]; congr 1; omega
                rw [hsplit, Nat.mul_comm q (now - last)]
                omega
          · simp only [hre, if_false]
            by_cases h3 : rest ≥ batch
            · simp only [h3, if_true]
              refine ⟨hfl, ?_⟩
              have e : adm + batch + (rest - batch) = adm + rest := by omega
              rw [e]; exact hI
            · simp only [h3, if_false]
              exact ⟨hfl, hI⟩

/-- the last-refill time never runs ahead of the clock -/
theorem bucket_step_last_le (q b D : Nat) (s : Bucket) (now batch : Nat) (hnow : s.lastLe now) :
    (Bucket.step q b D s now batch).1.lastLe now := by
  unfold Bucket.step
  by_cases hq : q = 0
  · simp only [hq, if_true]; exact hnow
  · simp only [hq, if_false]
    by_cases hb : batch > q + b
    · simp only [hb, if_true]; exact hnow
    · simp only [hb, if_false]
      cases s with
      | none => intro l r h; simp only [Option.some.injEq, Prod.mk.injEq] at h; omega
      | some p =>
        obtain ⟨last, rest⟩ := p
        have hl : last ≤ now := hnow last rest rfl
        simp only []
        intro l r h
        split at h
        · split at h
          · simp only [Option.some.injEq, Prod.mk.injEq] at h; omega
          · split at h <;> simp only [Option.some.injEq, Prod.mk.injEq] at h <;> omega
        · split at h <;> simp only [Option.some.injEq, Prod.mk.injEq] at h <;> omega

/-- **Invariant over every arrival sequence** -/
theorem bucket_run_inv (q b D : Nat) (arr : List (Nat × Nat)) (h : TimesOk arr) :
    BucketInv q b D (Bucket.run q b D arr).1 (Bucket.run q b D arr).2.1 (Bucket.run q b D arr).2.2 ∧
    (∀ t, (∀ o ∈ arr, o.1 ≤ t) → (Bucket.run q b D arr).1.lastLe t) := by
  induction arr with
  | nil => exact ⟨rfl, fun _ _ l r h => by cases h⟩
  | cons a older ih =>
    obtain ⟨t, n⟩ := a
    obtain ⟨hmono, hold⟩ := h
    obtain ⟨hinv, hlast⟩ := ih hold
    have hnow := hlast t hmono
    simp only [Bucket.run]
    refine ⟨bucket_step_inv q b D _ _ _ t n hinv hnow, ?_⟩
    intro t' ht' l r h
    have h2 := bucket_step_last_le q b D _ t n hnow l r h
    exact Nat.le_trans h2 (ht' (t, n) List.mem_cons_self)

/-- **Token bound.** For every arrival sequence for one value, the tokens admitted from its first request up to any
time `t` not earlier than the last arrival satisfy `admitted ≤ q + b + q·(t − first)/d` (×D to avoid division). -/
theorem token_bound (q b D : Nat) (arr : List (Nat × Nat)) (h : TimesOk arr) (t f : Nat)
    (ht : ∀ o ∈ arr, o.1 ≤ t) (hf : (Bucket.run q b D arr).2.1 = some f) :
    (Bucket.run q b D arr).2.2 * D ≤ (q + b) * D + q * (t - f) := by
  obtain ⟨hinv, hlast⟩ := bucket_run_inv q b D arr h
  cases hs : (Bucket.run q b D arr).1 with
  | none => rw [hs, hf] at hinv; exact hinv.elim
  | some p =>
    obtain ⟨last, rest⟩ := p
    rw [hs, hf] at hinv
    simp only [BucketInv] at hinv
    have hl := hlast t ht last rest hs
    have hmono : q * (last - f) ≤ q * (t - f) := Nat.mul_le_mul_left _ (by omega)
    have : (Bucket.run q b D arr).2.2 * D ≤ ((Bucket.run q b D arr).2.2 + rest) * D := Nat.mul_le_mul_right _ (by omega)
    omega

/-- **A request is rejected only when the value's tokens are insufficient** (after the refill this call is entitled
to), or its threshold is 0, or the batch exceeds `q + b` -/
theorem reject_only_if_insufficient (q b D : Nat) (s : Bucket) (now batch : Nat)
    (h : (Bucket.step q b D s now batch).2 ≠ .pass) :
    q = 0 ∨ batch > q + b ∨
      ∃ last rest, s = some (last, rest) ∧
        (if now > last + D then min ((now - last) * q / D + rest) (q + b) else rest) < batch := by
  unfold Bucket.step at h
  by_cases hq : q = 0
  · exact Or.inl hq
  · simp only [hq, if_false] at h
    by_cases hb : batch > q + b
    · exact Or.inr (Or.inl hb)
    · simp only [hb, if_false] at h
      right; right
      cases s with
      | none => simp at h
      | some p =>
        obtain ⟨last, rest⟩ := p
        refine ⟨last, rest, rfl, ?_⟩
        simp only [] at h
        by_cases hre : now > last + D
        · simp only [hre, if_true] at h ⊢
          by_cases h1 : (now - last) * q / D + rest > q + b
          · simp [h1] at h
          · simp only [h1, if_false] at h
            by_cases h2 : (now - last) * q / D + rest < batch
            · omega
            · simp [h2] at h
        · simp only [hre, if_false] at h ⊢
          by_cases h3 : rest ≥ batch
          · simp [h3] at h
          · omega

/-- the first request for a value is admitted whenever `q > 0` and the batch fits `q + b` -/
theorem first_request_admitted (q b D now batch : Nat) (hq : q ≠ 0) (hb : batch ≤ q + b) :
    (Bucket.step q b D none now batch).2 = .pass := by
  unfold Bucket.step
  have : ¬ batch > q + b := by omega
  simp [hq, this]

/-- threshold 0 (rule threshold or a per-value override of 0) always rejects -/
theorem zero_threshold_rejects (b D : Nat) (s : Bucket) (now batch : Nat) :
    (Bucket.step 0 b D s now batch).2 = .zeroThreshold := by
  simp [Bucket.step]

/-! ## LRU layer: the controller touches only the requested value's cells -/

/-- the two cells of value `arg` seen as a bucket -/
def cellOf (c : HsCtrl) (arg : String) : Bucket :=
  match c.time.peek arg, c.token.peek arg with
  | some t, some r => some (t, r)
  | _, _ => none

/-- both counters have room for `arg` and know it together -/
structure CellOk (c : HsCtrl) (arg : String) : Prop where
  roomT : c.time.Room arg
  roomK : c.token.Room arg
  sync : (c.time.peek arg).isSome = (c.token.peek arg).isSome

/-- **Frame / no cross-talk, one step**: a reject check for value `arg` leaves the cells of every other value untouched -/
theorem checkReject_frame (c : HsCtrl) (now : Nat) (arg other : String) (batch : Nat) (h : CellOk c arg) (hne : other ≠ arg) :
    (c.checkReject now arg batch).1.time.peek other = c.time.peek other ∧
    (c.checkReject now arg batch).1.token.peek other = c.token.peek other := by
  unfold HsCtrl.checkReject
  have hT := fun v => (Lru.peek_addIfAbsent c.time arg other v h.roomT).2
  have hK := fun v => (Lru.peek_addIfAbsent c.token arg other v h.roomK).2
  simp only [hne, if_false] at hT hK
  by_cases h0 : c.time.cap = 0 ∨ c.token.cap = 0
  · simp only [h0, if_true, and_self]
  · simp only [h0, if_false]
    split
    · exact ⟨rfl, rfl⟩
    · split
      · exact ⟨rfl, rfl⟩
      · cases hl : (c.time.addIfAbsent arg now).2 with
        | none =>
          have e : c.time.addIfAbsent arg now = ((c.time.addIfAbsent arg now).1, none) := by rw [← hl]
          rw [e]; simp only []
          exact ⟨hT now, hK _⟩
        | some lastT =>
          have e : c.time.addIfAbsent arg now = ((c.time.addIfAbsent arg now).1, some lastT) := by rw [← hl]
          rw [e]; simp only []
          split
          · cases ho : (c.token.addIfAbsent arg (c.rule.thrFor arg + c.rule.burst - batch)).2 with
            | none =>
              have e2 : c.token.addIfAbsent arg (c.rule.thrFor arg + c.rule.burst - batch)
                  = ((c.token.addIfAbsent arg (c.rule.thrFor arg + c.rule.burst - batch)).1, none) := by rw [← ho]
              rw [e2]; simp only []
              rw [Lru.peek_store]; simp only [hne, if_false]
              exact ⟨hT now, hK _⟩
            | some rest =>
              have e2 : c.token.addIfAbsent arg (c.rule.thrFor arg + c.rule.burst - batch)
                  = ((c.token.addIfAbsent arg (c.rule.thrFor arg + c.rule.burst - batch)).1, some rest) := by rw [← ho]
              rw [e2]; simp only []
              repeat' split
              all_goals first
                | exact ⟨hT now, hK _⟩
                | (simp only [Lru.peek_store, hne, if_false]; exact ⟨hT now, hK _⟩)
          · cases hg : (c.token.get arg).2 with
            | none =>
              have e2 : c.token.get arg = ((c.token.get arg).1, none) := by rw [← hg]
              rw [e2]; simp only []
              exact ⟨hT now, Lru.peek_get _ _ _⟩
            | some rest =>
              have e2 : c.token.get arg = ((c.token.get arg).1, some rest) := by rw [← hg]
              rw [e2]; simp only []
              split
              · simp only [Lru.peek_store, hne, if_false]
                exact ⟨hT now, Lru.peek_get _ _ _⟩
              · exact ⟨hT now, Lru.peek_get _ _ _⟩

/-- **Refinement / decision locality**: the verdict for value `arg` and the new contents of its two cells are exactly
what the per-value token bucket prescribes; they depend on nothing but `arg`'s own cells. Together with
`checkReject_frame` this is "no cross-talk while the number of distinct values stays within the capacity". -/
theorem checkReject_refines_bucket (c : HsCtrl) (now : Nat) (arg : String) (batch : Nat) (h : CellOk c arg) :
    ((c.checkReject now arg batch).2 = .pass ↔
        (Bucket.step (c.rule.thrFor arg) c.rule.burst (c.rule.durSec * 1000) (cellOf c arg) now batch).2 = .pass) ∧
    cellOf (c.checkReject now arg batch).1 arg =
        (Bucket.step (c.rule.thrFor arg) c.rule.burst (c.rule.durSec * 1000) (cellOf c arg) now batch).1 := by
  have hcapT : c.time.cap ≠ 0 := h.roomT.1
  have hcapK : c.token.cap ≠ 0 := h.roomK.1
  have h0 : ¬ (c.time.cap = 0 ∨ c.token.cap = 0) := by omega
  have hTa := fun v => Lru.peek_addIfAbsent c.time arg arg v h.roomT
  have hKa := fun v => Lru.peek_addIfAbsent c.token arg arg v h.roomK
  simp only [if_true] at hTa hKa
  unfold HsCtrl.checkReject Bucket.step
  simp only [h0, if_false]
  by_cases hq : c.rule.thrFor arg = 0
  · simp only [hq, if_true]
    refine ⟨?_, ?_⟩ <;> first | trivial | rfl | simp
  · simp only [hq, if_false]
    by_cases hb : batch > c.rule.thrFor arg + c.rule.burst
    · simp only [hb, if_true]
      refine ⟨?_, ?_⟩ <;> first | trivial | rfl | simp
    · simp only [hb, if_false]
      cases hpt : c.time.peek arg with
      | none =>
        have hpk : c.token.peek arg = none := by
          have := h.sync; rw [hpt] at this
          cases hk : c.token.peek arg with
          | none => rfl
          | some x => rw [hk] at this; cases this
        have hcell : cellOf c arg = none := by unfold cellOf; rw [hpt]
        have e : c.time.addIfAbsent arg now = ((c.time.addIfAbsent arg now).1, none) := by
          have := (hTa now).1; rw [hpt] at this; rw [← this]
        rw [e, hcell]; simp only []
        refine ⟨by first | trivial | exact ⟨fun _ => rfl, fun _ => rfl⟩ | simp, ?_⟩
        unfold cellOf
        simp only [(hTa now).2, (hKa _).2, hpt, hpk, Option.getD_none]
      | some lastT =>
        cases hpk : c.token.peek arg with
        | none =>
          have := h.sync; rw [hpt, hpk] at this; cases this
        | some rest =>
          have hcell : cellOf c arg = some (lastT, rest) := by unfold cellOf; rw [hpt, hpk]
          have e : c.time.addIfAbsent arg now = ((c.time.addIfAbsent arg now).1, some lastT) := by
            have := (hTa now).1; rw [hpt] at this; rw [← this]
          have hT1 : (c.time.addIfAbsent arg now).1.peek arg = some lastT := by rw [(hTa now).2, hpt]; rfl
          rw [e, hcell]; simp only []
          have hcmp : ((now : Int) - (lastT : Int) > ((c.rule.durSec * 1000 : Nat) : Int)) ↔ now > lastT + c.rule.durSec * 1000 := by omega
          by_cases hre : now > lastT + c.rule.durSec * 1000
          · have hre' := hcmp.mpr hre
            simp only [hre, hre', if_true]
            have e2 : c.token.addIfAbsent arg (c.rule.thrFor arg + c.rule.burst - batch)
                = ((c.token.addIfAbsent arg (c.rule.thrFor arg + c.rule.burst - batch)).1, some rest) := by
              have := (hKa (c.rule.thrFor arg + c.rule.burst - batch)).1; rw [hpk] at this; rw [← this]
            have hK1 : (c.token.addIfAbsent arg (c.rule.thrFor arg + c.rule.burst - batch)).1.peek arg = some rest := by
              rw [(hKa _).2, hpk]; rfl
            rw [e2]; simp only []
            have htn : ((now : Int) - (lastT : Int)).toNat = now - lastT := by omega
            rw [htn]
            by_cases h1 : (now - lastT) * c.rule.thrFor arg / (c.rule.durSec * 1000) + rest > c.rule.thrFor arg + c.rule.burst
            · simp only [h1, if_true]
              have hnn : ¬ (((c.rule.thrFor arg + c.rule.burst : Nat) : Int) - (batch : Int) < 0) := by omega
              simp only [hnn, if_false]
              refine ⟨by first | trivial | exact ⟨fun _ => rfl, fun _ => rfl⟩ | simp, ?_⟩
              unfold cellOf
              simp only [Lru.peek_store, if_true, hT1, hK1, Option.map_some]
              congr 2; omega
            · simp only [h1, if_false]
              by_cases h2 : (now - lastT) * c.rule.thrFor arg / (c.rule.durSec * 1000) + rest < batch
              · have hneg : (((now - lastT) * c.rule.thrFor arg / (c.rule.durSec * 1000) : Nat) : Int) + (rest : Int) - (batch : Int) < 0 := by omega
                simp only [h2, hneg, if_true]
                refine ⟨by first | trivial | (constructor <;> (intro hh; cases hh)) | simp, ?_⟩
                unfold cellOf; simp only [hT1, hK1]
              · have hnn : ¬ ((((now - lastT) * c.rule.thrFor arg / (c.rule.durSec * 1000) : Nat) : Int) + (rest : Int) - (batch : Int) < 0) := by omega
                simp only [h2, hnn, if_false]
                refine ⟨by first | trivial | exact ⟨fun _ => rfl, fun _ => rfl⟩ | simp, ?_⟩
                unfold cellOf
                simp only [Lru.peek_store, if_true, hT1, hK1, Option.map_some]
                congr 2; omega
          · have hre' : ¬ ((now : Int) - (lastT : Int) > ((c.rule.durSec * 1000 : Nat) : Int)) := fun x => hre (hcmp.mp x)
            simp only [hre, hre', if_false]
            have e2 : c.token.get arg = ((c.token.get arg).1, some rest) := by
              have := Lru.get_snd c.token arg; rw [hpk] at this; rw [← this]
            have hK1 : (c.token.get arg).1.peek arg = some rest := by rw [Lru.peek_get, hpk]
            rw [e2]; simp only []
            by_cases h3 : rest ≥ batch
            · simp only [h3, if_true]
              refine ⟨by first | trivial | exact ⟨fun _ => rfl, fun _ => rfl⟩ | simp, ?_⟩
              unfold cellOf
              simp only [Lru.peek_store, if_true, hT1, hK1, Option.map_some]
            · simp only [h3, if_false]
              refine ⟨by first | trivial | (constructor <;> (intro hh; cases hh)) | simp, ?_⟩
              unfold cellOf; simp only [hT1, hK1]

/-! ## non-vacuity -/
example : (Bucket.run 2 1 1000 [(2500, 1), (1400, 1), (1001, 1), (1000, 3), (0, 3)]).2.2 = 6 := by decide
example : TimesOk [(2500, 1), (1400, 1), (1001, 1), (1000, 3), (0, 3)] := by
  refine ⟨by decide, by decide, by decide, by decide, by decide, trivial⟩

/-! ## every history: no eviction and no cross-talk while the distinct values fit the capacity -/

/-- one check for `arg` changes both counters only by `LruStep`s -/
theorem checkReject_step (c : HsCtrl) (now : Nat) (arg : String) (batch : Nat) (h : CellOk c arg) :
    LruStep c.time (c.checkReject now arg batch).1.time arg ∧ LruStep c.token (c.checkReject now arg batch).1.token arg := by
  unfold HsCtrl.checkReject
  have sT := fun v => LruStep.add c.time arg v h.roomT
  have sK := fun v => LruStep.add c.token arg v h.roomK
  have sG := LruStep.get c.token arg
  by_cases h0 : c.time.cap = 0 ∨ c.token.cap = 0
  · simp only [h0, if_true]; exact ⟨LruStep.same _ _, LruStep.same _ _⟩
  · simp only [h0, if_false]
    split
    · exact ⟨LruStep.same _ _, LruStep.same _ _⟩
    · split
      · exact ⟨LruStep.same _ _, LruStep.same _ _⟩
      · cases hl : (c.time.addIfAbsent arg now).2 with
        | none =>
          have e : c.time.addIfAbsent arg now = ((c.time.addIfAbsent arg now).1, none) := by rw [← hl]
          rw [e]; simp only []
          exact ⟨sT now, sK _⟩
        | some lastT =>
          have e : c.time.addIfAbsent arg now = ((c.time.addIfAbsent arg now).1, some lastT) := by rw [← hl]
          rw [e]; simp only []
          split
          · cases ho : (c.token.addIfAbsent arg (c.rule.thrFor arg + c.rule.burst - batch)).2 with
            | none =>
              have e2 : c.token.addIfAbsent arg (c.rule.thrFor arg + c.rule.burst - batch)
                  = ((c.token.addIfAbsent arg (c.rule.thrFor arg + c.rule.burst - batch)).1, none) := by rw [← ho]
              rw [e2]; simp only []
              exact ⟨(sT now).store _ _, sK _⟩
            | some rest =>
              have e2 : c.token.addIfAbsent arg (c.rule.thrFor arg + c.rule.burst - batch)
                  = ((c.token.addIfAbsent arg (c.rule.thrFor arg + c.rule.burst - batch)).1, some rest) := by rw [← ho]
              rw [e2]; simp only []
              repeat' split
              all_goals first
                | exact ⟨sT now, sK _⟩
                | exact ⟨(sT now).store _ _, (sK _).store _ _⟩
          · cases hg : (c.token.get arg).2 with
            | none =>
              have e2 : c.token.get arg = ((c.token.get arg).1, none) := by rw [← hg]
              rw [e2]; simp only []
              exact ⟨sT now, sG⟩
            | some rest =>
              have e2 : c.token.get arg = ((c.token.get arg).1, some rest) := by rw [← hg]
              rw [e2]; simp only []
              split
              · exact ⟨sT now, sG.store _ _⟩
              · exact ⟨sT now, sG⟩

/-- the controller's invariant with respect to a universe `U` of parameter values that fits both counters -/
structure CtrlInv (c : HsCtrl) (U : List String) : Prop where
  capT : c.time.cap ≠ 0
  capK : c.token.cap ≠ 0
  fitT : U.length ≤ c.time.cap
  fitK : U.length ≤ c.token.cap
  subT : ∀ x ∈ c.time.keys, x ∈ U
  subK : ∀ x ∈ c.token.keys, x ∈ U
  ndT : c.time.keys.Nodup
  ndK : c.token.keys.Nodup
  sync : ∀ a, (c.time.peek a).isSome = (c.token.peek a).isSome

/-- under the invariant every value of the universe has its cells or room for them -/
theorem CtrlInv.cellOk {c : HsCtrl} {U : List String} (h : CtrlInv c U) (arg : String) (ha : arg ∈ U) : CellOk c arg :=
  ⟨Lru.room_of_universe c.time U arg h.capT h.fitT h.ndT h.subT ha,
   Lru.room_of_universe c.token U arg h.capK h.fitK h.ndK h.subK ha, h.sync arg⟩

/-- a freshly built controller (capacity at least the number of distinct values) satisfies it -/
theorem CtrlInv.fresh (r : HsRule) (U : List String) (hq : r.metric = .qps) (hcap : r.capacity ≠ 0) (hU : U.length ≤ r.capacity) :
    CtrlInv (HsCtrl.new r) U := by
  unfold HsCtrl.new
  rw [hq]
  exact ⟨hcap, hcap, hU, hU, by simp [Lru.keys], by simp [Lru.keys], by simp [Lru.keys], by simp [Lru.keys], fun a => by simp [Lru.peek]⟩

/-- the two counters keep knowing the same values -/
theorem checkReject_sync (c : HsCtrl) (now : Nat) (arg : String) (batch : Nat) (h : CellOk c arg)
    (hs : ∀ a, (c.time.peek a).isSome = (c.token.peek a).isSome) (a : String) :
    ((c.checkReject now arg batch).1.time.peek a).isSome = ((c.checkReject now arg batch).1.token.peek a).isSome := by
  by_cases ha : a = arg
  · subst ha
    have hTa := fun v => Lru.peek_addIfAbsent c.time a a v h.roomT
    have hKa := fun v => Lru.peek_addIfAbsent c.token a a v h.roomK
    simp only [if_true] at hTa hKa
    have hT1 : ∀ v, ((c.time.addIfAbsent a v).1.peek a).isSome = true := fun v => by rw [(hTa v).2]; rfl
    have hK1 : ∀ v, ((c.token.addIfAbsent a v).1.peek a).isSome = true := fun v => by rw [(hKa v).2]; rfl
    unfold HsCtrl.checkReject
    by_cases h0 : c.time.cap = 0 ∨ c.token.cap = 0
    · simp only [h0, if_true]; exact hs a
    · simp only [h0, if_false]
      split
      · exact hs a
      · split
        · exact hs a
        · cases hl : (c.time.addIfAbsent a now).2 with
          | none =>
            have e : c.time.addIfAbsent a now = ((c.time.addIfAbsent a now).1, none) := by rw [← hl]
            rw [e]; simp only []
            rw [hT1, hK1]
          | some lastT =>
            have e : c.time.addIfAbsent a now = ((c.time.addIfAbsent a now).1, some lastT) := by rw [← hl]
            have hpt : c.time.peek a = some lastT := by rw [← (hTa now).1, hl]
            have hKsome : (c.token.peek a).isSome = true := by rw [← hs a, hpt]; rfl
            have hG1 : ((c.token.get a).1.peek a).isSome = true := by rw [Lru.peek_get]; exact hKsome
            rw [e]; simp only []
            split
            · cases ho : (c.token.addIfAbsent a (c.rule.thrFor a + c.rule.burst - batch)).2 with
              | none =>
                have e2 : c.token.addIfAbsent a (c.rule.thrFor a + c.rule.burst - batch)
                    = ((c.token.addIfAbsent a (c.rule.thrFor a + c.rule.burst - batch)).1, none) := by rw [← ho]
                rw [e2]; simp only []
                simp [Lru.peek_store, hT1, hK1]
              | some rest =>
                have e2 : c.token.addIfAbsent a (c.rule.thrFor a + c.rule.burst - batch)
                    = ((c.token.addIfAbsent a (c.rule.thrFor a + c.rule.burst - batch)).1, some rest) := by rw [← ho]
                rw [e2]; simp only []
                repeat' split
                all_goals simp [Lru.peek_store, hT1, hK1]
            · cases hg : (c.token.get a).2 with
              | none =>
                have e2 : c.token.get a = ((c.token.get a).1, none) := by rw [← hg]
                rw [e2]; simp only []
                rw [hT1, hG1]
              | some rest =>
                have e2 : c.token.get a = ((c.token.get a).1, some rest) := by rw [← hg]
                rw [e2]; simp only []
                split
                · simp [Lru.peek_store, hT1, hG1]
                · rw [hT1, hG1]
  · obtain ⟨f1, f2⟩ := checkReject_frame c now arg a batch h ha
    rw [f1, f2]; exact hs a

/-- **the invariant is kept by every check for a value of the universe** -/
theorem checkReject_inv (c : HsCtrl) (U : List String) (now : Nat) (arg : String) (batch : Nat) (h : CtrlInv c U) (ha : arg ∈ U) :
    CtrlInv (c.checkReject now arg batch).1 U := by
  have hc := h.cellOk arg ha
  obtain ⟨⟨t1, t2, t3⟩, ⟨k1, k2, k3⟩⟩ := checkReject_step c now arg batch hc
  refine ⟨by rw [t3]; exact h.capT, by rw [k3]; exact h.capK, by rw [t3]; exact h.fitT, by rw [k3]; exact h.fitK, ?_, ?_,
    t2 h.ndT, k2 h.ndK, checkReject_sync c now arg batch hc h.sync⟩
  · intro x hx
    rcases t1 x hx with rfl | hx'
    · exact ha
    · exact h.subT x hx'
  · intro x hx
    rcases k1 x hx with rfl | hx'
    · exact ha
    · exact h.subK x hx'

/-- run a sequence of checks `(time, value, batch)` (oldest first) through the controller, collecting the verdicts -/
def HsCtrl.runReject (c : HsCtrl) : List (Nat × String × Nat) → HsCtrl × List Bool
  | [] => (c, [])
  | (t, v, n) :: rest =>
    let (c1, r) := c.checkReject t v n
    let (c2, rs) := c1.runReject rest
    (c2, (r == .pass) :: rs)

/-- the same sequence seen by the per-value buckets: every value has its own bucket, a request touches only its own -/
def bucketsRun (rule : HsRule) (cells : String → Bucket) : List (Nat × String × Nat) → (String → Bucket) × List Bool
  | [] => (cells, [])
  | (t, v, n) :: rest =>
    let (s', r) := Bucket.step (rule.thrFor v) rule.burst (rule.durSec * 1000) (cells v) t n
    let (cells2, rs) := bucketsRun rule (fun x => if x = v then s' else cells x) rest
    (cells2, (r == .pass) :: rs)

theorem checkReject_rule (c : HsCtrl) (now : Nat) (arg : String) (batch : Nat) : (c.checkReject now arg batch).1.rule = c.rule := by
  unfold HsCtrl.checkReject
  split
  · rfl
  · simp only []
    split
    · rfl
    · split
      · rfl
      · generalize c.time.addIfAbsent arg now = p
        obtain ⟨time', last⟩ := p
        generalize c.token.addIfAbsent arg (c.rule.thrFor arg + c.rule.burst - batch) = pk
        obtain ⟨tok', old⟩ := pk
        generalize c.token.get arg = pg
        obtain ⟨tokg, oldg⟩ := pg
        cases last <;> cases old <;> cases oldg <;> simp only [] <;> (repeat' split) <;> rfl

/-- **No cross-talk, every history**: for every sequence of requests, of any length, whose parameter values all belong to a
set of distinct values no larger than the rule's capacity, the controller's verdicts are exactly those of independent per-value
token buckets - each request is decided by its own value's bucket alone (and, by `token_bound`, each value gets at most
`q + b + q·(t − first)/d` tokens whatever the other values do). Nothing is ever evicted along the way (`CtrlInv`). -/
theorem run_refines_buckets (c : HsCtrl) (U : List String) (reqs : List (Nat × String × Nat)) (h : CtrlInv c U)
    (hU : ∀ r ∈ reqs, r.2.1 ∈ U) :
    (c.runReject reqs).2 = (bucketsRun c.rule (cellOf c) reqs).2 ∧
    CtrlInv (c.runReject reqs).1 U ∧
    (∀ v, cellOf (c.runReject reqs).1 v = (bucketsRun c.rule (cellOf c) reqs).1 v) := by
  induction reqs generalizing c with
  | nil => exact ⟨rfl, h, fun _ => rfl⟩
  | cons r rest ih =>
    obtain ⟨t, v, n⟩ := r
    have hv : v ∈ U := hU (t, v, n) (by simp)
    have hc := h.cellOk v hv
    obtain ⟨hdec, hcell⟩ := checkReject_refines_bucket c t v n hc
    have hinv := checkReject_inv c U t v n h hv
    have hrule := checkReject_rule c t v n
    have hcells : cellOf (c.checkReject t v n).1 =
        (fun x => if x = v then (Bucket.step (c.rule.thrFor v) c.rule.burst (c.rule.durSec * 1000) (cellOf c v) t n).1 else cellOf c x) := by
      funext x
      by_cases hx : x = v
      · subst hx; simp only [if_true]; exact hcell
      · simp only [hx, if_false]
        obtain ⟨f1, f2⟩ := checkReject_frame c t v x n hc hx
        unfold cellOf; rw [f1, f2]
    obtain ⟨i1, i2, i3⟩ := ih (c.checkReject t v n).1 hinv (fun r hr => hU r (by simp [hr]))
    rw [hrule, hcells] at i1 i3
    simp only [HsCtrl.runReject, bucketsRun]
    refine ⟨?_, i2, i3⟩
    rw [i1]
    congr 1
    rw [Bool.eq_iff_iff]
    simp only [beq_iff_eq]
    exact hdec

/-- tokens admitted to value `v`: the batch counts of its admitted requests -/
def admittedTo (v : String) : List (Nat × String × Nat) → List Bool → Nat
  | (_, x, n) :: rest, ok :: oks => (if x = v ∧ ok = true then n else 0) + admittedTo v rest oks
  | _, _ => 0

/-- request times do not decrease, starting from `t0` -/
def TimesFrom (t0 : Nat) : List (Nat × String × Nat) → Prop
  | [] => True
  | (t, _, _) :: rest => t0 ≤ t ∧ TimesFrom t rest

theorem TimesFrom.ge {t0 : Nat} {reqs : List (Nat × String × Nat)} (h : TimesFrom t0 reqs) : ∀ r ∈ reqs, t0 ≤ r.1 := by
  induction reqs generalizing t0 with
  | nil => intro r hr; cases hr
  | cons a rest ih =>
    obtain ⟨t, x, n⟩ := a
    intro r hr
    rcases List.mem_cons.mp hr with rfl | hr
    · exact h.1
    · exact Nat.le_trans h.1 (ih h.2 r hr)

/-- the per-value invariant along the run of all buckets: requests of other values leave `v`'s cells, first time and tally alone;
requests of `v` are `Bucket.step`s (`bucket_step_inv`) -/
theorem buckets_value_inv (rule : HsRule) (v : String) (cells : String → Bucket) (first : Option Nat) (adm t0 : Nat)
    (reqs : List (Nat × String × Nat))
    (hinv : BucketInv (rule.thrFor v) rule.burst (rule.durSec * 1000) (cells v) first adm) (hlast : (cells v).lastLe t0)
    (hs : TimesFrom t0 reqs) :
    ∃ first', BucketInv (rule.thrFor v) rule.burst (rule.durSec * 1000) ((bucketsRun rule cells reqs).1 v) first'
        (adm + admittedTo v reqs (bucketsRun rule cells reqs).2) ∧
      (∀ t, t0 ≤ t → (∀ r ∈ reqs, r.1 ≤ t) → ((bucketsRun rule cells reqs).1 v).lastLe t) ∧
      (first' = first ∨ ∃ r ∈ reqs, r.2.1 = v ∧ first' = some r.1) := by
  induction reqs generalizing cells first adm t0 with
  | nil =>
    refine ⟨first, by simpa [bucketsRun, admittedTo] using hinv, ?_, Or.inl rfl⟩
    intro t ht _ l r h
    exact Nat.le_trans (hlast l r h) ht
  | cons a rest ih =>
    obtain ⟨t, x, n⟩ := a
    obtain ⟨ht0, hrest⟩ := hs
    simp only [bucketsRun, admittedTo]
    by_cases hx : x = v
    · subst hx
      have hnow : (cells x).lastLe t := fun l r h => Nat.le_trans (hlast l r h) ht0
      have hstep := bucket_step_inv (rule.thrFor x) rule.burst (rule.durSec * 1000) (cells x) first adm t n hinv hnow
      have hl2 : ((Bucket.step (rule.thrFor x) rule.burst (rule.durSec * 1000) (cells x) t n).1).lastLe t :=
        bucket_step_last_le _ _ _ _ t n hnow
      obtain ⟨first', i1, i2, i3⟩ := ih
        (fun y => if y = x then (Bucket.step (rule.thrFor x) rule.burst (rule.durSec * 1000) (cells x) t n).1 else cells y)
        (firstAfter first (Bucket.step (rule.thrFor x) rule.burst (rule.durSec * 1000) (cells x) t n).1 t)
        (if (Bucket.step (rule.thrFor x) rule.burst (rule.durSec * 1000) (cells x) t n).2 = .pass then adm + n else adm) t
        (by simpa using hstep) (by simpa using hl2) hrest
      refine ⟨first', ?_, ?_, ?_⟩
      · have e : (if (Bucket.step (rule.thrFor x) rule.burst (rule.durSec * 1000) (cells x) t n).2 = BRes.pass then adm + n else adm) +
            admittedTo x rest (bucketsRun rule (fun y => if y = x then (Bucket.step (rule.thrFor x) rule.burst (rule.durSec * 1000) (cells x) t n).1 else cells y) rest).2
            = adm + ((if x = x ∧ ((Bucket.step (rule.thrFor x) rule.burst (rule.durSec * 1000) (cells x) t n).2 == BRes.pass) = true then n else 0) +
              admittedTo x rest (bucketsRun rule (fun y => if y = x then (Bucket.step (rule.thrFor x) rule.burst (rule.durSec * 1000) (cells x) t n).1 else cells y) rest).2) := by
          by_cases hp : (Bucket.step (rule.thrFor x) rule.burst (rule.durSec * 1000) (cells x) t n).2 = BRes.pass
          · simp [hp]; omega
          · simp [hp]
        rw [← e]; exact i1
      · intro t' ht' hall
        exact i2 t' (hall (t, x, n) (by simp)) (fun r hr => hall r (by simp [hr]))
      · rcases i3 with h | ⟨r, hr, h1, h2⟩
        · rw [h]
          unfold firstAfter
          cases first with
          | some f => exact Or.inl rfl
          | none =>
            cases hc : (Bucket.step (rule.thrFor x) rule.burst (rule.durSec * 1000) (cells x) t n).1 with
            | none => exact Or.inl rfl
            | some p => exact Or.inr ⟨(t, x, n), by simp, rfl, rfl⟩
        · exact Or.inr ⟨r, by simp [hr], h1, h2⟩
    · have hvx : ¬ v = x := fun e => hx e.symm
      obtain ⟨first', i1, i2, i3⟩ := ih
        (fun y => if y = x then (Bucket.step (rule.thrFor x) rule.burst (rule.durSec * 1000) (cells x) t n).1 else cells y)
        first adm t (by simp only [hvx, if_false]; exact hinv)
        (by simp only [hvx, if_false]; exact fun l r h => Nat.le_trans (hlast l r h) ht0) hrest
      refine ⟨first', ?_, ?_, ?_⟩
      · simp only [hx, false_and, if_false, Nat.zero_add]; exact i1
      · intro t' ht' hall
        exact i2 t' (hall (t, x, n) (by simp)) (fun r hr => hall r (by simp [hr]))
      · rcases i3 with h | ⟨r, hr, h1, h2⟩
        · exact Or.inl h
        · exact Or.inr ⟨r, by simp [hr], h1, h2⟩

/-- **Token bound for every value, every history, through the real controller model.** A controller that has not seen value `v`
yet (in particular a fresh one) and any sequence of requests with non-decreasing times over at most `capacity` distinct values:
the tokens admitted to `v` never exceed `q_v + b + q_v·(t − f)/d`, where `f` is the time of one of `v`'s requests (so at least the
time of its first one) and `t` any time from the last request on - whatever the other values do. (×D to avoid division.) -/
theorem controller_token_bound (c : HsCtrl) (U : List String) (reqs : List (Nat × String × Nat)) (v : String) (t0 : Nat)
    (h : CtrlInv c U) (hU : ∀ r ∈ reqs, r.2.1 ∈ U) (hnew : cellOf c v = none) (hs : TimesFrom t0 reqs) :
    admittedTo v reqs (c.runReject reqs).2 = 0 ∨
    ∃ r ∈ reqs, r.2.1 = v ∧ ∀ t, (∀ r' ∈ reqs, r'.1 ≤ t) →
      admittedTo v reqs (c.runReject reqs).2 * (c.rule.durSec * 1000) ≤
        (c.rule.thrFor v + c.rule.burst) * (c.rule.durSec * 1000) + c.rule.thrFor v * (t - r.1) := by
  obtain ⟨hv, _, _⟩ := run_refines_buckets c U reqs h hU
  rw [hv]
  obtain ⟨first', i1, i2, i3⟩ := buckets_value_inv c.rule v (cellOf c) none 0 t0 reqs
    (by rw [hnew]; rfl) (by rw [hnew]; intro l r hh; cases hh) hs
  simp only [Nat.zero_add] at i1
  cases hcell : (bucketsRun c.rule (cellOf c) reqs).1 v with
  | none =>
    rw [hcell] at i1
    cases first' with
    | none => left; exact i1
    | some f => exact i1.elim
  | some p =>
    obtain ⟨last, rest⟩ := p
    rw [hcell] at i1
    cases first' with
    | none => exact i1.elim
    | some f =>
      right
      rcases i3 with hh | ⟨r, hr, h1, h2⟩
      · cases hh
      · refine ⟨r, hr, h1, fun t ht => ?_⟩
        simp only [Option.some.injEq] at h2
        simp only [BucketInv] at i1
        have hge : t0 ≤ t := by
          have := hs.ge r hr
          exact Nat.le_trans this (ht r hr)
        have hl := i2 t hge ht last rest hcell
        have hmono : c.rule.thrFor v * (last - f) ≤ c.rule.thrFor v * (t - f) := Nat.mul_le_mul_left _ (by omega)
        have hle : admittedTo v reqs (bucketsRun c.rule (cellOf c) reqs).2 * (c.rule.durSec * 1000) ≤
            (admittedTo v reqs (bucketsRun c.rule (cellOf c) reqs).2 + rest) * (c.rule.durSec * 1000) := Nat.mul_le_mul_right _ (by omega)
        rw [← h2]
        omega

/-- the hotspot slot's dispatch (`HsCtrl.check`, called by `hsSlot` for every controller whose parameter is present) is `checkReject` for a
QPS rule with the reject strategy: the step of `run_refines_buckets` is what the modelled slot chain runs -/
theorem check_is_checkReject (c : HsCtrl) (now : Nat) (arg : String) (batch : Nat) (hm : c.rule.metric = .qps) (hs : c.rule.strategy = .reject) :
    c.check now arg batch = c.checkReject now arg batch := by
  unfold HsCtrl.check; rw [hm, hs]

/-- non-vacuity of `controller_token_bound`'s premises: a fresh controller has seen no value, and a history over two values -/
example : cellOf (HsCtrl.new { id := "h", metric := .qps, strategy := .reject, thr := 2, durSec := 1, maxCap := 2 }) "a" = none ∧
    TimesFrom 0 [(0, "a", 1), (5, "b", 1), (5, "a", 2)] := ⟨rfl, by simp [TimesFrom]⟩

/-- non-vacuity: a fresh controller for `q = 2` per second, capacity 2, and two values -/
example : CtrlInv (HsCtrl.new { id := "h", metric := .qps, strategy := .reject, thr := 2, durSec := 1, maxCap := 2 }) ["a", "b"] :=
  CtrlInv.fresh _ _ rfl (by decide) (by decide)

end Sentinel
