import Sentinel.Hotspot
import SentinelProofs.Lemmas.Lru
/-!
# C06 — hotspot QPS limiting is a per-parameter token bucket with no cross-talk

Two layers.
* `Bucket`: what `RejectChecker::do_check` does for ONE parameter value, as a function of that value's
  two counter cells only (last refill time, remaining tokens). Theorems about every arrival sequence of
  any length: the token bound, "rejected only when insufficient", first-request behaviour.
* LRU layer: while the number of distinct values stays within the capacity, `Lru` behaves like a finite map
  (`peek` of other keys is never changed, nothing is evicted), and `HsCtrl.checkReject` for value `v` reads and
  writes exactly `v`'s two cells as `Bucket.step` prescribes (`checkReject_refines_bucket`). Hence no cross-talk.
-/
set_option autoImplicit false
namespace Sentinel

/-! ## the per-value token bucket -/

/-- one value's cells: `none` = never seen; `some (lastRefillMs, tokens)` -/
abbrev Bucket := Option (Nat × Nat)

inductive BRes where
  | pass | zeroThreshold | batchTooBig | insufficient
  deriving Repr, DecidableEq

/-- `RejectChecker::do_check` for one value with threshold `q` (override already applied), burst `b`,
duration `D = d*1000` ms -/
def Bucket.step (q b D : Nat) (s : Bucket) (now batch : Nat) : Bucket × BRes :=
  if q = 0 then (s, .zeroThreshold) else
  let maxCount := q + b
  if batch > maxCount then (s, .batchTooBig) else
  match s with
  | none => (some (now, maxCount - batch), .pass)
  | some (last, rest) =>
    if now > last + D then
      let toAdd := (now - last) * q / D
      if toAdd + rest > maxCount then (some (now, maxCount - batch), .pass)
      else if toAdd + rest < batch then (some (last, rest), .insufficient)
      else (some (now, toAdd + rest - batch), .pass)
    else
      if rest ≥ batch then (some (last, rest - batch), .pass) else (some (last, rest), .insufficient)

/-- time at which the value's cells were created (its first admitted request) -/
def firstAfter (first : Option Nat) (s' : Bucket) (t : Nat) : Option Nat :=
  match first with
  | some f => some f
  | none => match s' with | some _ => some t | none => none

/-- run a list of arrivals `(time, batch)` (newest first) for one value; returns the cells, the time of the first
request and the tokens admitted so far -/
def Bucket.run (q b D : Nat) : List (Nat × Nat) → Bucket × Option Nat × Nat
  | [] => (none, none, 0)
  | (t, n) :: older =>
    let (s, first, adm) := Bucket.run q b D older
    let (s', r) := Bucket.step q b D s t n
    (s', firstAfter first s' t, if r = .pass then adm + n else adm)

def TimesOk : List (Nat × Nat) → Prop
  | [] => True
  | a :: older => (∀ o ∈ older, o.1 ≤ a.1) ∧ TimesOk older

/-- the last-refill time of the cells is not in the future -/
def Bucket.lastLe (s : Bucket) (now : Nat) : Prop := ∀ last rest, s = some (last, rest) → last ≤ now

/-- invariant: `admitted + remaining ≤ q + b + q·(lastRefill − first)/D`, stated without division -/
def BucketInv (q b D : Nat) (s : Bucket) (first : Option Nat) (adm : Nat) : Prop :=
  match s, first with
  | none, none => adm = 0
  | some (last, rest), some f => f ≤ last ∧ (adm + rest) * D ≤ (q + b) * D + q * (last - f)
  | _, _ => False

theorem bucket_step_inv (q b D : Nat) (s : Bucket) (first : Option Nat) (adm now batch : Nat)
    (hinv : BucketInv q b D s first adm) (hnow : s.lastLe now) :
    BucketInv q b D (Bucket.step q b D s now batch).1 (firstAfter first (Bucket.step q b D s now batch).1 now)
      (if (Bucket.step q b D s now batch).2 = .pass then adm + batch else adm) := by
  unfold Bucket.step firstAfter
  by_cases hq : q = 0
  · simp only [hq, if_true]
    cases s with
    | none =>
      cases first with
      | none => simp only [BucketInv] at hinv ⊢; subst hinv; rfl
      | some f => exact hinv.elim
    | some p =>
      obtain ⟨last, rest⟩ := p
      cases first with
      | none => exact hinv.elim
      | some f => simpa [BucketInv, hq] using hinv
  · simp only [hq, if_false]
    by_cases hb : batch > q + b
    · simp only [hb, if_true]
      cases s with
      | none =>
        cases first with
        | none => simp only [BucketInv] at hinv ⊢; subst hinv; rfl
        | some f => exact hinv.elim
      | some p =>
        obtain ⟨last, rest⟩ := p
        cases first with
        | none => exact hinv.elim
        | some f => simpa [BucketInv] using hinv
    · simp only [hb, if_false]
      cases s with
      | none =>
        cases first with
        | some f => exact hinv.elim
        | none =>
          simp only [BucketInv] at hinv
          subst hinv
          simp only [BucketInv, if_true, Nat.le_refl, true_and, Nat.sub_self, Nat.mul_zero, Nat.add_zero, Nat.zero_add]
          apply Nat.mul_le_mul_right; omega
      | some p =>
        obtain ⟨last, rest⟩ := p
        cases first with
        | none => exact hinv.elim
        | some f =>
          simp only [BucketInv] at hinv ⊢
          have hnow : last ≤ now := hnow last rest rfl
          obtain ⟨hfl, hI⟩ := hinv
          by_cases hre : now > last + D
          · simp only [hre, if_true]
            have hdiv : (now - last) * q / D * D ≤ (now - last) * q := Nat.div_mul_le_self _ _
            by_cases h1 : (now - last) * q / D + rest > q + b
            · simp only [h1, if_true]
              refine ⟨by omega, ?_⟩
              have e : adm + batch + (q + b - batch) = adm + (q + b) := by omega
              rw [e]
              have hI' : adm * D + rest * D ≤ (q + b) * D + q * (last - f) := by rw [← Nat.add_mul]; exact hI
              rcases Nat.eq_zero_or_pos D with hD0 | hD
              · subst hD0; simp
              · have h1' : (q + b) * D < ((now - last) * q / D + rest) * D := Nat.mul_lt_mul_of_pos_right h1 hD
                rw [Nat.add_mul ((now - last) * q / D) rest D] at h1'
                have hsplit : q * (now - f) = q * (last - f) + q * (now - last) := by
                  rw [← Nat.mul_add]; congr 1; omega
                rw [Nat.add_mul adm (q + b) D, hsplit, Nat.mul_comm q (now - last)]
                omega
            · simp only [h1, if_false]
              by_cases h2 : (now - last) * q / D + rest < batch
              · simp only [h2, if_true]
                exact ⟨hfl, hI⟩
              · simp only [h2, if_false, if_true]
                refine ⟨by omega, ?_⟩
                have e : adm + batch + ((now - last) * q / D + rest - batch) = adm + rest + (now - last) * q / D := by omega
                rw [e, Nat.add_mul]
                have hsplit : q * (now - f) = q * (last - f) + q * (now - last) := by
                  rw [← Nat.mul_add]; congr 1; omega
                rw [hsplit, Nat.mul_comm q (now - last)]
                omega
          · simp only [hre, if_false]
            by_cases h3 : rest ≥ batch
            · simp only [h3, if_true]
              refine ⟨hfl, ?_⟩
              have e : adm + batch + (rest - batch) = adm + rest := by omega
              rw [e]; exact hI
            · simp only [h3, if_false]
              exact ⟨hfl, hI⟩

/-- the last-refill time never runs ahead of the clock -/
theorem bucket_step_last_le (q b D : Nat) (s : Bucket) (now batch : Nat) (hnow : s.lastLe now) :
    (Bucket.step q b D s now batch).1.lastLe now := by
  unfold Bucket.step
  by_cases hq : q = 0
  · simp only [hq, if_true]; exact hnow
  · simp only [hq, if_false]
    by_cases hb : batch > q + b
    · simp only [hb, if_true]; exact hnow
    · simp only [hb, if_false]
      cases s with
      | none => intro l r h; simp only [Option.some.injEq, Prod.mk.injEq] at h; omega
      | some p =>
        obtain ⟨last, rest⟩ := p
        have hl : last ≤ now := hnow last rest rfl
        simp only []
        intro l r h
        split at h
        · split at h
          · simp only [Option.some.injEq, Prod.mk.injEq] at h; omega
          · split at h <;> simp only [Option.some.injEq, Prod.mk.injEq] at h <;> omega
        · split at h <;> simp only [Option.some.injEq, Prod.mk.injEq] at h <;> omega

/-- **Invariant over every arrival sequence** -/
theorem bucket_run_inv (q b D : Nat) (arr : List (Nat × Nat)) (h : TimesOk arr) :
    BucketInv q b D (Bucket.run q b D arr).1 (Bucket.run q b D arr).2.1 (Bucket.run q b D arr).2.2 ∧
    (∀ t, (∀ o ∈ arr, o.1 ≤ t) → (Bucket.run q b D arr).1.lastLe t) := by
  induction arr with
  | nil => exact ⟨rfl, fun _ _ l r h => by cases h⟩
  | cons a older ih =>
    obtain ⟨t, n⟩ := a
    obtain ⟨hmono, hold⟩ := h
    obtain ⟨hinv, hlast⟩ := ih hold
    have hnow := hlast t hmono
    simp only [Bucket.run]
    refine ⟨bucket_step_inv q b D _ _ _ t n hinv hnow, ?_⟩
    intro t' ht' l r h
    have h2 := bucket_step_last_le q b D _ t n hnow l r h
    exact Nat.le_trans h2 (ht' (t, n) List.mem_cons_self)

/-- **Token bound.** For every arrival sequence for one value, the tokens admitted from its first request up to any
time `t` not earlier than the last arrival satisfy `admitted ≤ q + b + q·(t − first)/d` (×D to avoid division). -/
theorem token_bound (q b D : Nat) (arr : List (Nat × Nat)) (h : TimesOk arr) (t f : Nat)
    (ht : ∀ o ∈ arr, o.1 ≤ t) (hf : (Bucket.run q b D arr).2.1 = some f) :
    (Bucket.run q b D arr).2.2 * D ≤ (q + b) * D + q * (t - f) := by
  obtain ⟨hinv, hlast⟩ := bucket_run_inv q b D arr h
  cases hs : (Bucket.run q b D arr).1 with
  | none => rw [hs, hf] at hinv; exact hinv.elim
  | some p =>
    obtain ⟨last, rest⟩ := p
    rw [hs, hf] at hinv
    simp only [BucketInv] at hinv
    have hl := hlast t ht last rest hs
    have hmono : q * (last - f) ≤ q * (t - f) := Nat.mul_le_mul_left _ (by omega)
    have : (Bucket.run q b D arr).2.2 * D ≤ ((Bucket.run q b D arr).2.2 + rest) * D := Nat.mul_le_mul_right _ (by omega)
    omega

/-- **A request is rejected only when the value's tokens are insufficient** (after the refill this call is entitled
to), or its threshold is 0, or the batch exceeds `q + b` -/
theorem reject_only_if_insufficient (q b D : Nat) (s : Bucket) (now batch : Nat)
    (h : (Bucket.step q b D s now batch).2 ≠ .pass) :
    q = 0 ∨ batch > q + b ∨
      ∃ last rest, s = some (last, rest) ∧
        (if now > last + D then min ((now - last) * q / D + rest) (q + b) else rest) < batch := by
  unfold Bucket.step at h
  by_cases hq : q = 0
  · exact Or.inl hq
  · simp only [hq, if_false] at h
    by_cases hb : batch > q + b
    · exact Or.inr (Or.inl hb)
    · simp only [hb, if_false] at h
      right; right
      cases s with
      | none => simp at h
      | some p =>
        obtain ⟨last, rest⟩ := p
        refine ⟨last, rest, rfl, ?_⟩
        simp only [] at h
        by_cases hre : now > last + D
        · simp only [hre, if_true] at h ⊢
          by_cases h1 : (now - last) * q / D + rest > q + b
          · simp [h1] at h
          · simp only [h1, if_false] at h
            by_cases h2 : (now - last) * q / D + rest < batch
            · omega
            · simp [h2] at h
        · simp only [hre, if_false] at h ⊢
          by_cases h3 : rest ≥ batch
          · simp [h3] at h
          · omega

/-- the first request for a value is admitted whenever `q > 0` and the batch fits `q + b` -/
theorem first_request_admitted (q b D now batch : Nat) (hq : q ≠ 0) (hb : batch ≤ q + b) :
    (Bucket.step q b D none now batch).2 = .pass := by
  unfold Bucket.step
  have : ¬ batch > q + b := by omega
  simp [hq, this]

/-- threshold 0 (rule threshold or a per-value override of 0) always rejects -/
theorem zero_threshold_rejects (b D : Nat) (s : Bucket) (now batch : Nat) :
    (Bucket.step 0 b D s now batch).2 = .zeroThreshold := by
  simp [Bucket.step]

/-! ## LRU layer: the controller touches only the requested value's cells -/

/-- the two cells of value `arg` seen as a bucket -/
def cellOf (c : HsCtrl) (arg : String) : Bucket :=
  match c.time.peek arg, c.token.peek arg with
  | some t, some r => some (t, r)
  | _, _ => none

/-- both counters have room for `arg` and know it together -/
structure CellOk (c : HsCtrl) (arg : String) : Prop where
  roomT : c.time.Room arg
  roomK : c.token.Room arg
  sync : (c.time.peek arg).isSome = (c.token.peek arg).isSome

/-- **Frame / no cross-talk, one step**: a reject check for value `arg` leaves the cells of every other value untouched -/
theorem checkReject_frame (c : HsCtrl) (now : Nat) (arg other : String) (batch : Nat) (h : CellOk c arg) (hne : other ≠ arg) :
    (c.checkReject now arg batch).1.time.peek other = c.time.peek other ∧
    (c.checkReject now arg batch).1.token.peek other = c.token.peek other := by
  unfold HsCtrl.checkReject
  have hT := fun v => (Lru.peek_addIfAbsent c.time arg other v h.roomT).2
  have hK := fun v => (Lru.peek_addIfAbsent c.token arg other v h.roomK).2
  simp only [hne, if_false] at hT hK
  by_cases h0 : c.time.cap = 0 ∨ c.token.cap = 0
  · simp only [h0, if_true, and_self]
  · simp only [h0, if_false]
    split
    · exact ⟨rfl, rfl⟩
    · split
      · exact ⟨rfl, rfl⟩
      · cases hl : (c.time.addIfAbsent arg now).2 with
        | none =>
          have e : c.time.addIfAbsent arg now = ((c.time.addIfAbsent arg now).1, none) := by rw [← hl]
          rw [e]; simp only []
          exact ⟨hT now, hK _⟩
        | some lastT =>
          have e : c.time.addIfAbsent arg now = ((c.time.addIfAbsent arg now).1, some lastT) := by rw [← hl]
          rw [e]; simp only []
          split
          · cases ho : (c.token.addIfAbsent arg (c.rule.thrFor arg + c.rule.burst - batch)).2 with
            | none =>
              have e2 : c.token.addIfAbsent arg (c.rule.thrFor arg + c.rule.burst - batch)
                  = ((c.token.addIfAbsent arg (c.rule.thrFor arg + c.rule.burst - batch)).1, none) := by rw [← ho]
              rw [e2]; simp only []
              rw [Lru.peek_store]; simp only [hne, if_false]
              exact ⟨hT now, hK _⟩
            | some rest =>
              have e2 : c.token.addIfAbsent arg (c.rule.thrFor arg + c.rule.burst - batch)
                  = ((c.token.addIfAbsent arg (c.rule.thrFor arg + c.rule.burst - batch)).1, some rest) := by rw [← ho]
              rw [e2]; simp only []
              repeat' split
              all_goals first
                | exact ⟨hT now, hK _⟩
                | (simp only [Lru.peek_store, hne, if_false]; exact ⟨hT now, hK _⟩)
          · cases hg : (c.token.get arg).2 with
            | none =>
              have e2 : c.token.get arg = ((c.token.get arg).1, none) := by rw [← hg]
              rw [e2]; simp only []
              exact ⟨hT now, Lru.peek_get _ _ _⟩
            | some rest =>
              have e2 : c.token.get arg = ((c.token.get arg).1, some rest) := by rw [← hg]
              rw [e2]; simp only []
              split
              · simp only [Lru.peek_store, hne, if_false]
                exact ⟨hT now, Lru.peek_get _ _ _⟩
              · exact ⟨hT now, Lru.peek_get _ _ _⟩

/-- **Refinement / decision locality**: the verdict for value `arg` and the new contents of its two cells are exactly
what the per-value token bucket prescribes; they depend on nothing but `arg`'s own cells. Together with
`checkReject_frame` this is "no cross-talk while the number of distinct values stays within the capacity". -/
theorem checkReject_refines_bucket (c : HsCtrl) (now : Nat) (arg : String) (batch : Nat) (h : CellOk c arg) :
    ((c.checkReject now arg batch).2 = .pass ↔
        (Bucket.step (c.rule.thrFor arg) c.rule.burst (c.rule.durSec * 1000) (cellOf c arg) now batch).2 = .pass) ∧
    cellOf (c.checkReject now arg batch).1 arg =
        (Bucket.step (c.rule.thrFor arg) c.rule.burst (c.rule.durSec * 1000) (cellOf c arg) now batch).1 := by
  have hcapT : c.time.cap ≠ 0 := h.roomT.1
  have hcapK : c.token.cap ≠ 0 := h.roomK.1
  have h0 : ¬ (c.time.cap = 0 ∨ c.token.cap = 0) := by omega
  have hTa := fun v => Lru.peek_addIfAbsent c.time arg arg v h.roomT
  have hKa := fun v => Lru.peek_addIfAbsent c.token arg arg v h.roomK
  simp only [if_true] at hTa hKa
  unfold HsCtrl.checkReject Bucket.step
  simp only [h0, if_false]
  by_cases hq : c.rule.thrFor arg = 0
  · simp only [hq, if_true]
    refine ⟨?_, ?_⟩ <;> first | trivial | rfl | simp
  · simp only [hq, if_false]
    by_cases hb : batch > c.rule.thrFor arg + c.rule.burst
    · simp only [hb, if_true]
      refine ⟨?_, ?_⟩ <;> first | trivial | rfl | simp
    · simp only [hb, if_false]
      cases hpt : c.time.peek arg with
      | none =>
        have hpk : c.token.peek arg = none := by
          have := h.sync; rw [hpt] at this
          cases hk : c.token.peek arg with
          | none => rfl
          | some x => rw [hk] at this; cases this
        have hcell : cellOf c arg = none := by unfold cellOf; rw [hpt]
        have e : c.time.addIfAbsent arg now = ((c.time.addIfAbsent arg now).1, none) := by
          have := (hTa now).1; rw [hpt] at this; rw [← this]
        rw [e, hcell]; simp only []
        refine ⟨by first | trivial | exact ⟨fun _ => rfl, fun _ => rfl⟩ | simp, ?_⟩
        unfold cellOf
        simp only [(hTa now).2, (hKa _).2, hpt, hpk, Option.getD_none]
      | some lastT =>
        cases hpk : c.token.peek arg with
        | none =>
          have := h.sync; rw [hpt, hpk] at this; cases this
        | some rest =>
          have hcell : cellOf c arg = some (lastT, rest) := by unfold cellOf; rw [hpt, hpk]
          have e : c.time.addIfAbsent arg now = ((c.time.addIfAbsent arg now).1, some lastT) := by
            have := (hTa now).1; rw [hpt] at this; rw [← this]
          have hT1 : (c.time.addIfAbsent arg now).1.peek arg = some lastT := by rw [(hTa now).2, hpt]; rfl
          rw [e, hcell]; simp only []
          have hcmp : ((now : Int) - (lastT : Int) > ((c.rule.durSec * 1000 : Nat) : Int)) ↔ now > lastT + c.rule.durSec * 1000 := by omega
          by_cases hre : now > lastT + c.rule.durSec * 1000
          · have hre' := hcmp.mpr hre
            simp only [hre, hre', if_true]
            have e2 : c.token.addIfAbsent arg (c.rule.thrFor arg + c.rule.burst - batch)
                = ((c.token.addIfAbsent arg (c.rule.thrFor arg + c.rule.burst - batch)).1, some rest) := by
              have := (hKa (c.rule.thrFor arg + c.rule.burst - batch)).1; rw [hpk] at this; rw [← this]
            have hK1 : (c.token.addIfAbsent arg (c.rule.thrFor arg + c.rule.burst - batch)).1.peek arg = some rest := by
              rw [(hKa _).2, hpk]; rfl
            rw [e2]; simp only []
            have htn : ((now : Int) - (lastT : Int)).toNat = now - lastT := by omega
            rw [htn]
            by_cases h1 : (now - lastT) * c.rule.thrFor arg / (c.rule.durSec * 1000) + rest > c.rule.thrFor arg + c.rule.burst
            · simp only [h1, if_true]
              have hnn : ¬ (((c.rule.thrFor arg + c.rule.burst : Nat) : Int) - (batch : Int) < 0) := by omega
              simp only [hnn, if_false]
              refine ⟨by first | trivial | exact ⟨fun _ => rfl, fun _ => rfl⟩ | simp, ?_⟩
              unfold cellOf
              simp only [Lru.peek_store, if_true, hT1, hK1, Option.map_some]
              congr 2; omega
            · simp only [h1, if_false]
              by_cases h2 : (now - lastT) * c.rule.thrFor arg / (c.rule.durSec * 1000) + rest < batch
              · have hneg : (((now - lastT) * c.rule.thrFor arg / (c.rule.durSec * 1000) : Nat) : Int) + (rest : Int) - (batch : Int) < 0 := by omega
                simp only [h2, hneg, if_true]
                refine ⟨by first | trivial | (constructor <;> (intro hh; cases hh)) | simp, ?_⟩
                unfold cellOf; simp only [hT1, hK1]
              · have hnn : ¬ ((((now - lastT) * c.rule.thrFor arg / (c.rule.durSec * 1000) : Nat) : Int) + (rest : Int) - (batch : Int) < 0) := by omega
                simp only [h2, hnn, if_false]
                refine ⟨by first | trivial | exact ⟨fun _ => rfl, fun _ => rfl⟩ | simp, ?_⟩
                unfold cellOf
                simp only [Lru.peek_store, if_true, hT1, hK1, Option.map_some]
                congr 2; omega
          · have hre' : ¬ ((now : Int) - (lastT : Int) > ((c.rule.durSec * 1000 : Nat) : Int)) := fun x => hre (hcmp.mp x)
            simp only [hre, hre', if_false]
            have e2 : c.token.get arg = ((c.token.get arg).1, some rest) := by
              have := Lru.get_snd c.token arg; rw [hpk] at this; rw [← this]
            have hK1 : (c.token.get arg).1.peek arg = some rest := by rw [Lru.peek_get, hpk]
            rw [e2]; simp only []
            by_cases h3 : rest ≥ batch
            · simp only [h3, if_true]
              refine ⟨by first | trivial | exact ⟨fun _ => rfl, fun _ => rfl⟩ | simp, ?_⟩
              unfold cellOf
              simp only [Lru.peek_store, if_true, hT1, hK1, Option.map_some]
            · simp only [h3, if_false]
              refine ⟨by first | trivial | (constructor <;> (intro hh; cases hh)) | simp, ?_⟩
              unfold cellOf; simp only [hT1, hK1]

/-! ## non-vacuity -/
example : (Bucket.run 2 1 1000 [(2500, 1), (1400, 1), (1001, 1), (1000, 3), (0, 3)]).2.2 = 6 := by decide
example : TimesOk [(2500, 1), (1400, 1), (1001, 1), (1000, 3), (0, 3)] := by
  refine ⟨by decide, by decide, by decide, by decide, by decide, trivial⟩

end Sentinel
