import Sentinel.World
import Sentinel.Hotspot
import SentinelProofs.Lemmas.Lru
/-!
# C05 — concurrency caps (isolation part)

`isoCheck` is the isolation slot of `World.build`; admission raises the in-flight count by one
(`Node.recordPass`), exit lowers it by one (`Node.recordComplete`). Theorems quantify over every rule
list, every batch count and every build/exit sequence of any length.
-/
set_option autoImplicit false
namespace Sentinel

/-- **Admission rule.** admitted by the isolation slot iff in-flight + batch ≤ every threshold -/
theorem isolation_admit_iff (rules : List IsoRule) (node : Node) (batch : Nat) :
    isoCheck rules node batch = none ↔ ∀ r ∈ rules, node.conc + batch ≤ r.thr := by
  unfold isoCheck
  constructor
  · intro h r hr
    cases hf : rules.find? (fun r => node.conc + batch > r.thr) with
    | some r' => rw [hf] at h; cases h
    | none =>
      have := List.find?_eq_none.mp hf r hr
      simpa using this
  · intro h
    cases hf : rules.find? (fun r => node.conc + batch > r.thr) with
    | none => rfl
    | some r' =>
      exfalso
      have hm := List.mem_of_find?_eq_some hf
      have hb := List.find?_some hf
      have := h r' hm
      simp at hb; omega

/-- a rejection names a rule that is really exceeded, with the in-flight count as snapshot -/
theorem isolation_block_names_rule (rules : List IsoRule) (node : Node) (batch : Nat) (id : String) (snap : Nat)
    (h : isoCheck rules node batch = some (id, snap)) :
    ∃ r ∈ rules, r.id = id ∧ node.conc + batch > r.thr ∧ snap = node.conc := by
  unfold isoCheck at h
  cases hf : rules.find? (fun r => node.conc + batch > r.thr) with
  | none => rw [hf] at h; cases h
  | some r =>
    rw [hf] at h
    simp only [Option.some.injEq, Prod.mk.injEq] at h
    have hb := List.find?_some hf
    exact ⟨r, List.mem_of_find?_eq_some hf, h.1, by simpa using hb, h.2.symm⟩

/-- the block type delivered for an isolation rejection is `Isolation` -/
theorem isolation_block_is_isolation : World.isoBlockType = "Isolation" := rfl

/-! ### runs of one resource under isolation rules -/

inductive IOp where
  | enter (batch : Nat)
  | exit
  deriving Repr

/-- in-flight count and number of admitted entries not yet exited (they coincide: `iso_conc_eq_open`) -/
structure IsoSys where
  conc : Nat := 0
  openCount : Nat := 0
  deriving Repr

/-- the isolation-relevant part of `World.build` / `World.exit`; an `exit` without an open entry is not a legal call -/
def IsoSys.step (rules : List IsoRule) (s : IsoSys) : IOp → IsoSys × Bool
  | .enter batch =>
    if rules.all (fun r => s.conc + batch ≤ r.thr) then ({ conc := s.conc + 1, openCount := s.openCount + 1 }, true)
    else (s, false)
  | .exit => if s.openCount = 0 then (s, false) else ({ conc := s.conc - 1, openCount := s.openCount - 1 }, true)

def IsoSys.run (rules : List IsoRule) : List IOp → IsoSys
  | [] => {}
  | op :: older => ((IsoSys.run rules older).step rules op).1

/-- the in-flight count always equals the number of admitted, un-exited entries -/
theorem iso_conc_eq_open (rules : List IsoRule) (ops : List IOp) :
    (IsoSys.run rules ops).conc = (IsoSys.run rules ops).openCount := by
  induction ops with
  | nil => rfl
  | cons op older ih =>
    simp only [IsoSys.run]
    cases op with
    | enter b => simp only [IsoSys.step]; split <;> simp [ih]
    | exit => simp only [IsoSys.step]; split <;> simp [ih]

/-- **Cap.** With batch counts ≥ 1, in-flight entries never exceed any rule's threshold, after any sequence -/
theorem isolation_cap (rules : List IsoRule) (ops : List IOp)
    (hb : ∀ op ∈ ops, match op with | .enter b => 1 ≤ b | .exit => True) :
    ∀ r ∈ rules, (IsoSys.run rules ops).conc ≤ r.thr := by
  induction ops with
  | nil => intro r _; exact Nat.zero_le _
  | cons op older ih =>
    have ih' := ih (fun o ho => hb o (List.mem_cons_of_mem _ ho))
    intro r hr
    simp only [IsoSys.run]
    cases op with
    | enter b =>
      have hb1 : 1 ≤ b := hb (.enter b) List.mem_cons_self
      simp only [IsoSys.step]
      split
      · rename_i hall
        have := List.all_eq_true.mp hall r hr
        simp at this ⊢; omega
      · exact ih' r hr
    | exit =>
      simp only [IsoSys.step]
      split
      · exact ih' r hr
      · have := ih' r hr; simp; omega

/-- **Freed capacity is usable at once**: right after an exit, a request with `conc + n ≤ T` for every rule is admitted -/
theorem freed_capacity_usable (rules : List IsoRule) (ops : List IOp) (n : Nat)
    (hopen : (IsoSys.run rules ops).openCount ≠ 0)
    (hfit : ∀ r ∈ rules, (IsoSys.run rules ops).conc - 1 + n ≤ r.thr) :
    ((IsoSys.run rules (.exit :: ops)).step rules (.enter n)).2 = true := by
  simp only [IsoSys.run, IsoSys.step, hopen, if_false]
  have : (rules.all fun r => (IsoSys.run rules ops).conc - 1 + n ≤ r.thr) = true := by
    apply List.all_eq_true.mpr; intro r hr; simpa using hfit r hr
  simp [this]

/-- the `IsoSys` decision is `isoCheck` on a node with that in-flight count -/
theorem isoSys_enter_eq_isoCheck (rules : List IsoRule) (s : IsoSys) (node : Node) (b : Nat) (h : node.conc = s.conc) :
    (s.step rules (.enter b)).2 = (isoCheck rules node b).isNone := by
  simp only [IsoSys.step]
  by_cases hall : rules.all (fun r => s.conc + b ≤ r.thr) = true
  · rw [if_pos hall]
    have : isoCheck rules node b = none := (isolation_admit_iff rules node b).mpr (by
      intro r hr; have := List.all_eq_true.mp hall r hr; rw [h]; simpa using this)
    rw [this]; rfl
  · rw [if_neg hall]
    cases hc : isoCheck rules node b with
    | some p => rfl
    | none =>
      exfalso; apply hall
      apply List.all_eq_true.mpr
      intro r hr
      have := (isolation_admit_iff rules node b).mp hc r hr
      rw [h] at this; simpa using this

/-! ## hotspot concurrency: the same guarantee per parameter value

`HsCtrl.checkConc` reads one cell of the rule's counter (the value's in-flight count; absent = never seen), the
statistic slot raises it on admission and lowers it on exit. `hcStep` is that behaviour for ONE value with
effective threshold `T` (the per-value override if there is one, else the rule threshold). Note: the code counts
entries (the batch count plays no role) and the first request for a never-seen value is always admitted. -/

/-- one value's cell through one request: returns the cell after the check and whether it was admitted -/
def hcCheck (T : Nat) (cell : Option Nat) : Option Nat × Bool :=
  match cell with
  | none => (some 0, true)
  | some v => (some v, decide (v + 1 ≤ T))

/-- admission raises the cell, exit lowers it -/
def hcStep (T : Nat) (cell : Option Nat) : IOp → Option Nat × Bool
  | .enter _ =>
    let (c, ok) := hcCheck T cell
    (if ok then c.map (· + 1) else c, ok)
  | .exit => (cell.map (· - 1), true)

def hcRun (T : Nat) : List IOp → Option Nat
  | [] => none
  | op :: older => (hcStep T (hcRun T older) op).1

/-- **Admission rule per value**: a request for value `v` is admitted iff `v` was never seen or in-flight(v) + 1 ≤ T_v -/
theorem hs_conc_admit_iff (T : Nat) (cell : Option Nat) :
    (hcCheck T cell).2 = true ↔ cell = none ∨ ∃ v, cell = some v ∧ v + 1 ≤ T := by
  cases cell with
  | none => simp [hcCheck]
  | some v => simp [hcCheck]

/-- **Cap per value**: for `T ≥ 1`, the value's in-flight count never exceeds `T`, after any build/exit sequence -/
theorem hs_conc_cap (T : Nat) (hT : 1 ≤ T) (ops : List IOp) : ∀ v, hcRun T ops = some v → v ≤ T := by
  induction ops with
  | nil => intro v h; cases h
  | cons op older ih =>
    intro v h
    simp only [hcRun] at h
    cases op with
    | exit =>
      simp only [hcStep] at h
      cases hc : hcRun T older with
      | none => rw [hc] at h; cases h
      | some x => rw [hc] at h; simp at h; have := ih x hc; omega
    | enter b =>
      simp only [hcStep, hcCheck] at h
      cases hc : hcRun T older with
      | none => rw [hc] at h; simp at h; omega
      | some x =>
        rw [hc] at h
        have := ih x hc
        by_cases hle : x + 1 ≤ T
        · simp [hle] at h; omega
        · simp [hle] at h; omega

/-- **The rule's check is the per-value check**: for a value with room in the counter, `checkConc` decides as `hcCheck` does on
that value's cell (threshold = override if present, else the rule threshold), names the in-flight count + 1 as snapshot,
and leaves every other value's cell untouched -/
theorem checkConc_cell (c : HsCtrl) (arg other : String) (h : c.conc.Room arg) :
    ((c.checkConc arg).2 = .pass ↔ (hcCheck (c.rule.thrFor arg) (c.conc.peek arg)).2 = true) ∧
    (c.checkConc arg).1.conc.peek arg = (hcCheck (c.rule.thrFor arg) (c.conc.peek arg)).1 ∧
    (other ≠ arg → (c.checkConc arg).1.conc.peek other = c.conc.peek other) ∧
    (∀ snap why, (c.checkConc arg).2 = .blocked snap why → ∃ v, c.conc.peek arg = some v ∧ snap = v + 1) := by
  have hA := Lru.peek_addIfAbsent c.conc arg arg 0 h
  have hO := Lru.peek_addIfAbsent c.conc arg other 0 h
  simp only [if_true] at hA
  unfold HsCtrl.checkConc hcCheck
  cases hp : c.conc.peek arg with
  | none =>
    have e : c.conc.addIfAbsent arg 0 = ((c.conc.addIfAbsent arg 0).1, none) := by
      have := hA.1; rw [hp] at this; rw [← this]
    rw [e]; simp only []
    refine ⟨by simp, by rw [hA.2, hp]; rfl, fun hne => by rw [hO.2]; simp [hne], fun s w hh => by cases hh⟩
  | some v =>
    have e : c.conc.addIfAbsent arg 0 = ((c.conc.addIfAbsent arg 0).1, some v) := by
      have := hA.1; rw [hp] at this; rw [← this]
    rw [e]; simp only []
    have h1 : (c.conc.addIfAbsent arg 0).1.peek arg = some v := by rw [hA.2, hp]; rfl
    have ho : other ≠ arg → (c.conc.addIfAbsent arg 0).1.peek other = c.conc.peek other := by
      intro hne; rw [hO.2]; simp [hne]
    by_cases hle : v + 1 ≤ c.rule.thrFor arg
    · simp only [hle, if_true, decide_true]
      exact ⟨by simp, h1, ho, fun s w hh => by cases hh⟩
    · simp only [hle, if_false, decide_false]
      refine ⟨by constructor <;> (intro hh; cases hh), h1, ho, fun s w hh => ?_⟩
      simp only [HsRes.blocked.injEq] at hh
      exact ⟨v, rfl, hh.1.symm⟩

/-- a per-value override replaces the threshold for that value only -/
theorem override_local (r : HsRule) (v w : String) (t : Nat) (hvw : (v == w) = false)
    (hw : r.specific.find? (fun p => p.1 == w) = none) :
    ({ r with specific := (v, t) :: r.specific } : HsRule).thrFor v = t ∧
    ({ r with specific := (v, t) :: r.specific } : HsRule).thrFor w = r.thr := by
  constructor
  · simp [HsRule.thrFor]
  · simp [HsRule.thrFor, hvw, hw]

/-! ### parameter extraction -/

/-- a keyed parameter, when present, has priority over the positional one -/
theorem extract_key_priority (r : HsRule) (args : Option (List String)) (atts : List (String × String)) (v : String)
    (hk : r.paramKey.trimAscii.toString ≠ "")
    (hv : (atts.find? (fun p => p.1 == r.paramKey.trimAscii.toString)).map (·.2) = some v) :
    extractArgs r args (some atts) = some v := by
  unfold extractArgs
  have : (r.paramKey.trimAscii.toString == "") = false := by simpa using hk
  simp only [this, Bool.false_eq_true, if_false, hv]

/-- a negative index counts from the end of the argument list -/
theorem extract_negative_index (r : HsRule) (args : List String) (k : Nat) (hk : r.paramIndex = -(k + 1 : Nat))
    (hlen : k < args.length) :
    extractArgs r (some args) none = args[args.length - (k + 1)]? := by
  unfold extractArgs
  have hneg : r.paramIndex < 0 := by rw [hk]; omega
  have hidx : r.paramIndex + (args.length : Int) = ((args.length - (k + 1) : Nat) : Int) := by rw [hk]; omega
  simp only [hneg, if_true, hidx]
  have : ¬ (((args.length - (k + 1) : Nat) : Int) < 0) := by omega
  simp only [this, if_false, Int.toNat_natCast]

/-- a missing parameter (index out of range, no arguments, key absent) makes the rule not apply -/
theorem extract_missing (r : HsRule) (args : List String) (hpos : 0 ≤ r.paramIndex) (hout : args.length ≤ r.paramIndex.toNat) :
    extractArgs r (some args) none = none := by
  unfold extractArgs
  have h1 : ¬ r.paramIndex < 0 := by omega
  simp only [h1, if_false]
  exact List.getElem?_eq_none hout

theorem extract_nothing (r : HsRule) : extractArgs r none none = none := rfl

/-! ## every history: the statistic slot's adjustment, no eviction and no cross-talk while the distinct values fit -/

/-- the statistic slot's adjustment of a value's in-flight cell: up on admission, down on exit; other values untouched -/
theorem concAdjust_cell (c : HsCtrl) (arg other : String) (up : Bool) (hm : c.rule.metric = .concurrency) :
    (c.concAdjust (some arg) up).conc.peek arg = (c.conc.peek arg).map (fun x => if up then x + 1 else x - 1) ∧
    (other ≠ arg → (c.concAdjust (some arg) up).conc.peek other = c.conc.peek other) := by
  unfold HsCtrl.concAdjust
  rw [hm]
  simp only []
  cases hg : (c.conc.get arg).2 with
  | none =>
    have e : c.conc.get arg = ((c.conc.get arg).1, none) := by rw [← hg]
    have hp : c.conc.peek arg = none := by rw [← Lru.get_snd, hg]
    rw [e]; simp only []
    exact ⟨by rw [Lru.peek_get, hp]; rfl, fun _ => Lru.peek_get _ _ _⟩
  | some x =>
    have e : c.conc.get arg = ((c.conc.get arg).1, some x) := by rw [← hg]
    have hp : c.conc.peek arg = some x := by rw [← Lru.get_snd, hg]
    rw [e]; simp only []
    refine ⟨by rw [Lru.peek_store, if_pos rfl, Lru.peek_get, hp]; rfl, fun hne => ?_⟩
    rw [Lru.peek_store, if_neg hne, Lru.peek_get]

theorem concAdjust_step (c : HsCtrl) (arg : String) (up : Bool) : LruStep c.conc (c.concAdjust (some arg) up).conc arg := by
  unfold HsCtrl.concAdjust
  cases c.rule.metric with
  | qps => exact LruStep.same _ _
  | concurrency =>
    simp only []
    cases hg : (c.conc.get arg).2 with
    | none =>
      have e : c.conc.get arg = ((c.conc.get arg).1, none) := by rw [← hg]
      rw [e]; exact LruStep.get _ _
    | some x =>
      have e : c.conc.get arg = ((c.conc.get arg).1, some x) := by rw [← hg]
      rw [e]; exact (LruStep.get _ _).store _ _

theorem concAdjust_rule (c : HsCtrl) (arg : Option String) (up : Bool) : (c.concAdjust arg up).rule = c.rule := by
  unfold HsCtrl.concAdjust
  cases c.rule.metric with
  | qps => rfl
  | concurrency =>
    cases arg with
    | none => rfl
    | some a =>
      simp only []
      generalize c.conc.get a = p
      obtain ⟨conc', last⟩ := p
      cases last <;> rfl

theorem checkConc_step (c : HsCtrl) (arg : String) (h : c.conc.Room arg) : LruStep c.conc (c.checkConc arg).1.conc arg := by
  unfold HsCtrl.checkConc
  have s := LruStep.add c.conc arg 0 h
  cases hl : (c.conc.addIfAbsent arg 0).2 with
  | none =>
    have e : c.conc.addIfAbsent arg 0 = ((c.conc.addIfAbsent arg 0).1, none) := by rw [← hl]
    rw [e]; exact s
  | some v =>
    have e : c.conc.addIfAbsent arg 0 = ((c.conc.addIfAbsent arg 0).1, some v) := by rw [← hl]
    rw [e]; simp only []
    split <;> exact s

theorem checkConc_rule (c : HsCtrl) (arg : String) : (c.checkConc arg).1.rule = c.rule := by
  unfold HsCtrl.checkConc
  generalize c.conc.addIfAbsent arg 0 = p
  obtain ⟨conc', last⟩ := p
  cases last <;> simp only [] <;> (repeat' split) <;> rfl

/-- the in-flight counter's invariant with respect to a universe `U` of parameter values that fits it -/
structure ConcInv (c : HsCtrl) (U : List String) : Prop where
  cap : c.conc.cap ≠ 0
  fit : U.length ≤ c.conc.cap
  sub : ∀ x ∈ c.conc.keys, x ∈ U
  nd : c.conc.keys.Nodup

theorem ConcInv.room {c : HsCtrl} {U : List String} (h : ConcInv c U) (arg : String) (ha : arg ∈ U) : c.conc.Room arg :=
  Lru.room_of_universe c.conc U arg h.cap h.fit h.nd h.sub ha

theorem ConcInv.step {c c' : HsCtrl} {U : List String} {arg : String} (h : ConcInv c U) (ha : arg ∈ U) (s : LruStep c.conc c'.conc arg) :
    ConcInv c' U := by
  obtain ⟨t1, t2, t3⟩ := s
  refine ⟨by rw [t3]; exact h.cap, by rw [t3]; exact h.fit, ?_, t2 h.nd⟩
  intro x hx
  rcases t1 x hx with rfl | hx'
  · exact ha
  · exact h.sub x hx'

/-- one request through the controller as the slots drive it: the rule check, then - if admitted - the statistic slot's increment;
an exit is the statistic slot's decrement -/
def HsCtrl.concOp (c : HsCtrl) (v : String) : IOp → HsCtrl × Bool
  | .enter _ =>
    let (c1, r) := c.checkConc v
    if r = .pass then (c1.concAdjust (some v) true, true) else (c1, false)
  | .exit => (c.concAdjust (some v) false, true)

def HsCtrl.runConc (c : HsCtrl) : List (String × IOp) → HsCtrl × List Bool
  | [] => (c, [])
  | (v, op) :: rest =>
    let (c1, ok) := c.concOp v op
    let (c2, oks) := c1.runConc rest
    (c2, ok :: oks)

/-- the same sequence seen by independent per-value cells (`hcStep`) -/
def cellsRun (rule : HsRule) (cells : String → Option Nat) : List (String × IOp) → (String → Option Nat) × List Bool
  | [] => (cells, [])
  | (v, op) :: rest =>
    let (s', ok) := hcStep (rule.thrFor v) (cells v) op
    let (cells2, oks) := cellsRun rule (fun x => if x = v then s' else cells x) rest
    (cells2, ok :: oks)

/-- one operation of the controller is one `hcStep` on the value's own cell and touches no other cell -/
theorem concOp_cell (c : HsCtrl) (U : List String) (v : String) (op : IOp) (h : ConcInv c U) (hv : v ∈ U)
    (hm : c.rule.metric = .concurrency) :
    (c.concOp v op).2 = (hcStep (c.rule.thrFor v) (c.conc.peek v) op).2 ∧
    (c.concOp v op).1.conc.peek v = (hcStep (c.rule.thrFor v) (c.conc.peek v) op).1 ∧
    (∀ x, x ≠ v → (c.concOp v op).1.conc.peek x = c.conc.peek x) ∧
    ConcInv (c.concOp v op).1 U ∧ (c.concOp v op).1.rule = c.rule := by
  have hroom := h.room v hv
  cases op with
  | exit =>
    simp only [HsCtrl.concOp, hcStep]
    obtain ⟨a1, a2⟩ := concAdjust_cell c v v false hm
    refine ⟨by first | rfl | trivial, by rw [a1]; simp, fun x hx => (concAdjust_cell c v x false hm).2 hx, h.step hv (concAdjust_step c v false), concAdjust_rule _ _ _⟩
  | enter b =>
    obtain ⟨k1, k2, k3, _⟩ := checkConc_cell c v v hroom
    have hrule1 := checkConc_rule c v
    have hinv1 : ConcInv (c.checkConc v).1 U := h.step hv (checkConc_step c v hroom)
    simp only [HsCtrl.concOp, hcStep]
    by_cases hp : (c.checkConc v).2 = .pass
    · have hok : (hcCheck (c.rule.thrFor v) (c.conc.peek v)).2 = true := k1.mp hp
      have hm1 : (c.checkConc v).1.rule.metric = .concurrency := by rw [hrule1]; exact hm
      obtain ⟨a1, _⟩ := concAdjust_cell (c.checkConc v).1 v v true hm1
      simp only [hp, if_true, hok]
      refine ⟨by first | rfl | trivial, by rw [a1, k2]; simp, fun x hx => ?_, hinv1.step hv (concAdjust_step _ v true), by rw [concAdjust_rule, hrule1]⟩
      rw [(concAdjust_cell (c.checkConc v).1 v x true hm1).2 hx]
      exact (checkConc_cell c v x hroom).2.2.1 hx
    · have hok : (hcCheck (c.rule.thrFor v) (c.conc.peek v)).2 = false := by
        cases hb : (hcCheck (c.rule.thrFor v) (c.conc.peek v)).2 with
        | false => rfl
        | true => exact absurd (k1.mpr hb) hp
      simp only [hp, if_false, hok]
      exact ⟨by first | rfl | trivial, k2, fun x hx => (checkConc_cell c v x hroom).2.2.1 hx, hinv1, hrule1⟩

/-- **No cross-talk, every history (hotspot concurrency)**: for every sequence of requests and exits, of any length, over a set
of distinct values no larger than the rule's capacity, the controller admits exactly what independent per-value in-flight cells
(`hcStep`: admitted iff never seen or in-flight + 1 ≤ threshold of that value) admit, and holds exactly their counts; nothing is
evicted. -/
theorem conc_run_refines_cells (c : HsCtrl) (U : List String) (ops : List (String × IOp)) (h : ConcInv c U)
    (hm : c.rule.metric = .concurrency) (hU : ∀ o ∈ ops, o.1 ∈ U) :
    (c.runConc ops).2 = (cellsRun c.rule c.conc.peek ops).2 ∧
    ConcInv (c.runConc ops).1 U ∧
    (∀ v, (c.runConc ops).1.conc.peek v = (cellsRun c.rule c.conc.peek ops).1 v) := by
  induction ops generalizing c with
  | nil => exact ⟨rfl, h, fun _ => rfl⟩
  | cons o rest ih =>
    obtain ⟨v, op⟩ := o
    have hv : v ∈ U := hU (v, op) (by simp)
    obtain ⟨o1, o2, o3, o4, o5⟩ := concOp_cell c U v op h hv hm
    have hcells : (c.concOp v op).1.conc.peek = (fun x => if x = v then (hcStep (c.rule.thrFor v) (c.conc.peek v) op).1 else c.conc.peek x) := by
      funext x
      by_cases hx : x = v
      · subst hx; simp only [if_true]; exact o2
      · simp only [hx, if_false]; exact o3 x hx
    obtain ⟨i1, i2, i3⟩ := ih (c.concOp v op).1 o4 (by rw [o5]; exact hm) (fun r hr => hU r (by simp [hr]))
    rw [o5, hcells] at i1 i3
    simp only [HsCtrl.runConc, cellsRun]
    refine ⟨?_, i2, i3⟩
    rw [i1, o1]

/-- the per-value cap, forwards: one `hcStep` keeps a cell within its threshold -/
theorem hcStep_le (T : Nat) (hT : 1 ≤ T) (cell : Option Nat) (op : IOp) (h : ∀ x, cell = some x → x ≤ T) :
    ∀ y, (hcStep T cell op).1 = some y → y ≤ T := by
  intro y hy
  cases op with
  | exit =>
    simp only [hcStep] at hy
    cases cell with
    | none => cases hy
    | some x => simp at hy; have := h x rfl; omega
  | enter b =>
    simp only [hcStep, hcCheck] at hy
    cases cell with
    | none => simp at hy; omega
    | some x =>
      have := h x rfl
      by_cases hle : x + 1 ≤ T
      · simp [hle] at hy; omega
      · simp [hle] at hy; omega

theorem cellsRun_le (rule : HsRule) (cells : String → Option Nat) (ops : List (String × IOp)) (hT : ∀ v, 1 ≤ rule.thrFor v)
    (h0 : ∀ v x, cells v = some x → x ≤ rule.thrFor v) :
    ∀ v x, (cellsRun rule cells ops).1 v = some x → x ≤ rule.thrFor v := by
  induction ops generalizing cells with
  | nil => intro v x hx; exact h0 v x hx
  | cons o rest ih =>
    obtain ⟨w, op⟩ := o
    intro v x hx
    simp only [cellsRun] at hx
    refine ih (fun y => if y = w then (hcStep (rule.thrFor w) (cells w) op).1 else cells y) ?_ v x hx
    intro v' x' hx'
    by_cases hv : v' = w
    · subst hv
      simp only [if_true] at hx'
      exact hcStep_le _ (hT v') _ op (h0 v') x' hx'
    · simp only [hv, if_false] at hx'
      exact h0 v' x' hx'

/-- **Cap per value through the controller, every history**: with every threshold (rule or override) at least 1, after any sequence
of requests and exits over at most `capacity` distinct values no value's in-flight count exceeds its own threshold -/
theorem conc_cap_every_value (c : HsCtrl) (U : List String) (ops : List (String × IOp)) (h : ConcInv c U)
    (hm : c.rule.metric = .concurrency) (hU : ∀ o ∈ ops, o.1 ∈ U) (hT : ∀ v, 1 ≤ c.rule.thrFor v)
    (h0 : ∀ v x, c.conc.peek v = some x → x ≤ c.rule.thrFor v) :
    ∀ v x, (c.runConc ops).1.conc.peek v = some x → x ≤ c.rule.thrFor v := by
  obtain ⟨_, _, hcells⟩ := conc_run_refines_cells c U ops h hm hU
  intro v x hx
  rw [hcells v] at hx
  exact cellsRun_le c.rule c.conc.peek ops hT h0 v x hx

/-! ### how the slot chain drives the controller: `World.exit` and `World.build` apply exactly `concAdjust` -/

theorem hs_lookup_update_same {α : Type} (l : List (String × α)) (k : String) (v : α) :
    World.lookup (World.update l k v) k = some v := by
  simp [World.update, World.lookup]

/-- **Exit.** `entry.exit()` lowers, in every hotspot controller of the entry's resource, the in-flight cell of the entry's own
parameter value (`concAdjust … false`) and touches nothing else of the hotspot state of that resource -/
theorem exit_adjusts_hotspot (w w' : World) (eid : Nat) (e : Entry)
    (hfind : w.entries.find? (fun p => p.1 == eid) = some (eid, e)) (hne : w.hsCtrls e.res ≠ [])
    (h : w.exit eid = some w') :
    w'.hsCtrls e.res = (w.hsCtrls e.res).map (fun c => c.concAdjust (extractArgs c.rule e.args e.atts) false) := by
  unfold World.exit at h
  rw [hfind] at h
  simp only [Option.some.injEq] at h
  rw [← h]
  have hne' : (w.hsCtrls e.res).isEmpty = false := by
    cases hc : w.hsCtrls e.res with
    | nil => exact absurd hc hne
    | cons a t => rfl
  show ((World.lookup (World.setIfAny w.hs e.res (w.hsCtrls e.res) _) e.res).getD []) = _
  unfold World.setIfAny
  rw [hne']
  simp only [Bool.false_eq_true, if_false]
  rw [hs_lookup_update_same]
  rfl

/-- **Admission.** An admitted `build` leaves, for the resource, the controllers as the rule checks left them
(`runChecks`: every controller's own `check`, i.e. `checkConc` for a concurrency rule) with the in-flight cell of the entry's own
parameter value raised in each (`concAdjust … true`): together with `exit_adjusts_hotspot` this is `HsCtrl.concOp`, the step the
every-history theorems (`conc_run_refines_cells`, `conc_cap_every_value`) are about -/
theorem build_pass_adjusts_hotspot (w : World) (eid : Nat) (res : String) (batch : Nat) (inbound : Bool)
    (args : Option (List String)) (atts : Option (List (String × String))) (hne : w.hsCtrls res ≠ [])
    (hp : (w.build eid res batch inbound args atts).2 = .pass) :
    (w.build eid res batch inbound args atts).1.hsCtrls res =
      (w.runChecks res batch inbound args atts).hs.map (fun c => c.concAdjust (extractArgs c.rule args atts) true) := by
  have hne' : (w.hsCtrls res).isEmpty = false := by
    cases hc : w.hsCtrls res with
    | nil => exact absurd hc hne
    | cons a t => rfl
  unfold World.build at hp ⊢
  simp only [] at hp ⊢
  split
  · show ((World.lookup (World.setIfAny w.hs res (w.hsCtrls res) _) res).getD []) = _
    unfold World.setIfAny
    rw [hne']
    simp only [Bool.false_eq_true, if_false]
    rw [hs_lookup_update_same]
    rfl
  · rename_i hb
    split at hp
    · rename_i hpass; exact absurd hpass (by simpa using hb)
    · rename_i x hx; simp only [] at hp; rw [hp] at hx; exact absurd rfl (hx)

/-- the hotspot slot's dispatch is `checkConc` for a concurrency rule -/
theorem check_is_checkConc (c : HsCtrl) (now : Nat) (arg : String) (batch : Nat) (hm : c.rule.metric = .concurrency) :
    c.check now arg batch = c.checkConc arg := by
  unfold HsCtrl.check; rw [hm]

/-- non-vacuity: a fresh concurrency controller (threshold 2, capacity 2) meets the premises for the values a, b -/
example : ConcInv (HsCtrl.new { id := "h", metric := .concurrency, strategy := .reject, thr := 2, maxCap := 2 }) ["a", "b"] :=
  ⟨by decide, by decide, by simp [HsCtrl.new, Lru.keys], by simp [HsCtrl.new, Lru.keys]⟩

/-! ## non-vacuity -/
example : (IsoSys.run [⟨"i", 2⟩] [.enter 1, .exit, .enter 1, .enter 1, .enter 1]).conc = 2 := by decide
example : isoCheck [⟨"i", 2⟩, ⟨"j", 1⟩] { conc := 1 } 1 = some ("j", 1) := by decide
example : hcRun 2 [.enter 1, .enter 1, .exit, .enter 1, .enter 1, .enter 1] = some 2 := by decide

end Sentinel
