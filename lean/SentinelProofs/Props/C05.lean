import Sentinel.World
/-!
# C05 — concurrency caps (isolation part)

`isoCheck` is the isolation slot of `World.build`; admission raises the in-flight count by one
(`Node.recordPass`), exit lowers it by one (`Node.recordComplete`). Theorems quantify over every rule
list, every batch count and every build/exit sequence of any length.
-/
set_option autoImplicit false
namespace Sentinel

/-- **Admission rule.** admitted by the isolation slot iff in-flight + batch ≤ every threshold -/
theorem isolation_admit_iff (rules : List IsoRule) (node : Node) (batch : Nat) :
    isoCheck rules node batch = none ↔ ∀ r ∈ rules, node.conc + batch ≤ r.thr := by
  unfold isoCheck
  constructor
  · intro h r hr
    cases hf : rules.find? (fun r => node.conc + batch > r.thr) with
    | some r' => rw [hf] at h; cases h
    | none =>
      have := List.find?_eq_none.mp hf r hr
      simpa using this
  · intro h
    cases hf : rules.find? (fun r => node.conc + batch > r.thr) with
    | none => rfl
    | some r' =>
      exfalso
      have hm := List.mem_of_find?_eq_some hf
      have hb := List.find?_some hf
      have := h r' hm
      simp at hb; omega

/-- a rejection names a rule that is really exceeded, with the in-flight count as snapshot -/
theorem isolation_block_names_rule (rules : List IsoRule) (node : Node) (batch : Nat) (id : String) (snap : Nat)
    (h : isoCheck rules node batch = some (id, snap)) :
    ∃ r ∈ rules, r.id = id ∧ node.conc + batch > r.thr ∧ snap = node.conc := by
  unfold isoCheck at h
  cases hf : rules.find? (fun r => node.conc + batch > r.thr) with
  | none => rw [hf] at h; cases h
  | some r =>
    rw [hf] at h
    simp only [Option.some.injEq, Prod.mk.injEq] at h
    have hb := List.find?_some hf
    exact ⟨r, List.mem_of_find?_eq_some hf, h.1, by simpa using hb, h.2.symm⟩

/-- the block type delivered for an isolation rejection is `Isolation` -/
theorem isolation_block_is_isolation : World.isoBlockType = "Isolation" := rfl

/-! ### runs of one resource under isolation rules -/

inductive IOp where
  | enter (batch : Nat)
  | exit
  deriving Repr

/-- in-flight count and number of admitted entries not yet exited (they coincide: `iso_conc_eq_open`) -/
structure IsoSys where
  conc : Nat := 0
  openCount : Nat := 0
  deriving Repr

/-- the isolation-relevant part of `World.build` / `World.exit`; an `exit` without an open entry is not a legal call -/
def IsoSys.step (rules : List IsoRule) (s : IsoSys) : IOp → IsoSys × Bool
  | .enter batch =>
    if rules.all (fun r => s.conc + batch ≤ r.thr) then ({ conc := s.conc + 1, openCount := s.openCount + 1 }, true)
    else (s, false)
  | .exit => if s.openCount = 0 then (s, false) else ({ conc := s.conc - 1, openCount := s.openCount - 1 }, true)

def IsoSys.run (rules : List IsoRule) : List IOp → IsoSys
  | [] => {}
  | op :: older => ((IsoSys.run rules older).step rules op).1

/-- the in-flight count always equals the number of admitted, un-exited entries -/
theorem iso_conc_eq_open (rules : List IsoRule) (ops : List IOp) :
    (IsoSys.run rules ops).conc = (IsoSys.run rules ops).openCount := by
  induction ops with
  | nil => rfl
  | cons op older ih =>
    simp only [IsoSys.run]
    cases op with
    | enter b => simp only [IsoSys.step]; split <;> simp [ih]
    | exit => simp only [IsoSys.step]; split <;> simp [ih]

/-- **Cap.** With batch counts ≥ 1, in-flight entries never exceed any rule's threshold, after any sequence -/
theorem isolation_cap (rules : List IsoRule) (ops : List IOp)
    (hb : ∀ op ∈ ops, match op with | .enter b => 1 ≤ b | .exit => True) :
    ∀ r ∈ rules, (IsoSys.run rules ops).conc ≤ r.thr := by
  induction ops with
  | nil => intro r _; exact Nat.zero_le _
  | cons op older ih =>
    have ih' := ih (fun o ho => hb o (List.mem_cons_of_mem _ ho))
    intro r hr
    simp only [IsoSys.run]
    cases op with
    | enter b =>
      have hb1 : 1 ≤ b := hb (.enter b) List.mem_cons_self
      simp only [IsoSys.step]
      split
      · rename_i hall
        have := List.all_eq_true.mp hall r hr
        simp at this ⊢; omega
      · exact ih' r hr
    | exit =>
      simp only [IsoSys.step]
      split
      · exact ih' r hr
      · have := ih' r hr; simp; omega

/-- **Freed capacity is usable at once**: right after an exit, a request with `conc + n ≤ T` for every rule is admitted -/
theorem freed_capacity_usable (rules : List IsoRule) (ops : List IOp) (n : Nat)
    (hopen : (IsoSys.run rules ops).openCount ≠ 0)
    (hfit : ∀ r ∈ rules, (IsoSys.run rules ops).conc - 1 + n ≤ r.thr) :
    ((IsoSys.run rules (.exit :: ops)).step rules (.enter n)).2 = true := by
  simp only [IsoSys.run, IsoSys.step, hopen, if_false]
  have : (rules.all fun r => (IsoSys.run rules ops).conc - 1 + n ≤ r.thr) = true := by
    apply List.all_eq_true.mpr; intro r hr; simpa using hfit r hr
  simp [this]

/-- the `IsoSys` decision is `isoCheck` on a node with that in-flight count -/
theorem isoSys_enter_eq_isoCheck (rules : List IsoRule) (s : IsoSys) (node : Node) (b : Nat) (h : node.conc = s.conc) :
    (s.step rules (.enter b)).2 = (isoCheck rules node b).isNone := by
  simp only [IsoSys.step]
  by_cases hall : rules.all (fun r => s.conc + b ≤ r.thr) = true
  · rw [if_pos hall]
    have : isoCheck rules node b = none := (isolation_admit_iff rules node b).mpr (by
      intro r hr; have := List.all_eq_true.mp hall r hr; rw [h]; simpa using this)
    rw [this]; rfl
  · rw [if_neg hall]
    cases hc : isoCheck rules node b with
    | some p => rfl
    | none =>
      exfalso; apply hall
      apply List.all_eq_true.mpr
      intro r hr
      have := (isolation_admit_iff rules node b).mp hc r hr
      rw [h] at this; simpa using this

/-! ## non-vacuity -/
example : (IsoSys.run [⟨"i", 2⟩] [.enter 1, .exit, .enter 1, .enter 1, .enter 1]).conc = 2 := by decide
example : isoCheck [⟨"i", 2⟩, ⟨"j", 1⟩] { conc := 1 } 1 = some ("j", 1) := by decide

end Sentinel
