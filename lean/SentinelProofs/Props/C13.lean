import Sentinel.SlotChain
/-!
# C13 — slot chain contract

Property theorems about the model in `Sentinel/SlotChain.lean`. All statements quantify over
*every* chain (any number of slots of each kind, arbitrary order values, any check results).
-/
namespace Sentinel.SlotChain

/-! ## helper lemmas -/

theorem insertBy_perm {α : Type} (key : α → Nat) (x : α) (l : List α) :
    (insertBy key x l).Perm (x :: l) := by
  induction l with
  | nil => simp [insertBy]
  | cons y ys ih =>
    unfold insertBy
    split
    · exact List.Perm.refl _
    · exact (List.Perm.cons y ih).trans (List.Perm.swap x y ys)

theorem insertBy_sorted {α : Type} (key : α → Nat) (x : α) (l : List α)
    (h : l.Pairwise (fun a b => key a ≤ key b)) :
    (insertBy key x l).Pairwise (fun a b => key a ≤ key b) := by
  induction l with
  | nil => simp [insertBy]
  | cons y ys ih =>
    unfold insertBy
    rw [List.pairwise_cons] at h
    split
    · rename_i hlt
      rw [List.pairwise_cons]
      refine ⟨?_, List.pairwise_cons.mpr h⟩
      intro a ha
      rcases List.mem_cons.mp ha with rfl | ha
      · omega
      · have := h.1 a ha; omega
    · rename_i hge
      rw [List.pairwise_cons]
      refine ⟨?_, ih h.2⟩
      intro a ha
      have hp := (insertBy_perm key x ys).mem_iff.mp ha
      rcases List.mem_cons.mp hp with rfl | ha'
      · omega
      · exact h.1 a ha'

theorem count_eq_one_of_nodup {l : List Nat} (h : l.Nodup) {a : Nat} (ha : a ∈ l) : l.count a = 1 := by
  induction l with
  | nil => cases ha
  | cons b l ih =>
    rw [List.nodup_cons] at h
    rw [List.count_cons]
    rcases List.mem_cons.mp ha with rfl | hin
    · simp [List.count_eq_zero_of_not_mem h.1]
    · have hne : b ≠ a := fun e => h.1 (e ▸ hin)
      simp [ih h.2 hin, hne]

/-- the verdict of a list of checks, as a fold started from an arbitrary accumulator -/
def verdictFrom (acc : Option (Nat × Nat)) (checks : List Check) : Option (Nat × Nat) :=
  checks.foldl (fun acc c => match c.res with
    | .blocked ty => some (ty, c.id)
    | _ => acc) acc

theorem verdictFrom_some_or (acc : Option (Nat × Nat)) (cs : List Check) :
    verdictFrom acc cs = acc ∨ ∃ c ∈ cs, ∃ ty, c.res = .blocked ty ∧ verdictFrom acc cs = some (ty, c.id) := by
  induction cs generalizing acc with
  | nil => left; rfl
  | cons c cs ih =>
    simp only [verdictFrom, List.foldl_cons]
    cases hres : c.res with
    | blocked ty =>
      simp only []
      rcases ih (some (ty, c.id)) with h | ⟨c', hc', ty', h1, h2⟩
      · right; exact ⟨c, List.mem_cons_self, ty, hres, h⟩
      · right; exact ⟨c', List.mem_cons_of_mem _ hc', ty', h1, h2⟩
    | pass =>
      simp only []
      rcases ih acc with h | ⟨c', hc', ty', h1, h2⟩
      · left; exact h
      · right; exact ⟨c', List.mem_cons_of_mem _ hc', ty', h1, h2⟩
    | wait ns =>
      simp only []
      rcases ih acc with h | ⟨c', hc', ty', h1, h2⟩
      · left; exact h
      · right; exact ⟨c', List.mem_cons_of_mem _ hc', ty', h1, h2⟩

theorem verdictFrom_isSome_of_mem (acc : Option (Nat × Nat)) (cs : List Check)
    (h : ∃ c ∈ cs, c.res.isBlocked = true) : (verdictFrom acc cs).isSome = true := by
  induction cs generalizing acc with
  | nil => obtain ⟨c, hc, _⟩ := h; cases hc
  | cons c cs ih =>
    simp only [verdictFrom, List.foldl_cons]
    obtain ⟨c', hc', hb⟩ := h
    rcases List.mem_cons.mp hc' with rfl | hin
    · cases hres : c'.res with
      | blocked ty =>
        simp only []
        rcases verdictFrom_some_or (some (ty, c'.id)) cs with h | ⟨_, _, _, _, h⟩
        · unfold verdictFrom at h; rw [h]; rfl
        · unfold verdictFrom at h; rw [h]; rfl
      | pass => rw [hres] at hb; cases hb
      | wait ns => rw [hres] at hb; cases hb
    · exact ih _ ⟨c', hin, hb⟩

/-! ## property theorems -/

/-- `add_*` keeps each vector sorted by order value (for the model's insertion; for an arbitrary
sort that returns a sorted permutation the remaining theorems apply unchanged because they hold for
every chain). -/
theorem add_sorted_perm (c : Chain) (s : Check)
    (h : c.checks.Pairwise (fun a b => a.order ≤ b.order)) :
    (c.addCheck s).checks.Pairwise (fun a b => a.order ≤ b.order) ∧
    (c.addCheck s).checks.Perm (s :: c.checks) :=
  ⟨insertBy_sorted _ s _ h, insertBy_perm _ s _⟩

theorem add_sorted_perm_pre (c : Chain) (s : Slot)
    (h : c.pres.Pairwise (fun a b => a.order ≤ b.order)) :
    (c.addPre s).pres.Pairwise (fun a b => a.order ≤ b.order) ∧ (c.addPre s).pres.Perm (s :: c.pres) :=
  ⟨insertBy_sorted _ s _ h, insertBy_perm _ s _⟩

theorem add_sorted_perm_stat (c : Chain) (s : Slot)
    (h : c.stats.Pairwise (fun a b => a.order ≤ b.order)) :
    (c.addStat s).stats.Pairwise (fun a b => a.order ≤ b.order) ∧ (c.addStat s).stats.Perm (s :: c.stats) :=
  ⟨insertBy_sorted _ s _ h, insertBy_perm _ s _⟩

/-- every preparation slot, then every check slot, then every statistic slot, each group in the
chain's (sorted) order, each slot exactly once -/
theorem entry_call_order (c : Chain) :
    c.entry.2 = c.pres.map (fun s => Event.pre s.id) ++ c.checks.map (fun s => Event.chk s.id)
      ++ c.stats.map (statNote c.entry.1) := rfl

/-- blocked iff at least one check slot blocked -/
theorem blocked_iff_some_check_blocked (c : Chain) :
    c.entry.1.isSome = true ↔ ∃ s ∈ c.checks, s.res.isBlocked = true := by
  constructor
  · intro h
    have : c.entry.1 = verdictFrom none c.checks := rfl
    rw [this] at h
    rcases verdictFrom_some_or none c.checks with h' | ⟨s, hs, ty, h1, _⟩
    · rw [h'] at h; cases h
    · exact ⟨s, hs, by rw [h1]; rfl⟩
  · intro h
    exact verdictFrom_isSome_of_mem none c.checks h

/-- the error delivered is one produced by a slot that blocked -/
theorem error_from_a_blocking_slot (c : Chain) (ty src : Nat) (h : c.entry.1 = some (ty, src)) :
    ∃ s ∈ c.checks, s.id = src ∧ s.res = .blocked ty := by
  have : c.entry.1 = verdictFrom none c.checks := rfl
  rw [this] at h
  rcases verdictFrom_some_or none c.checks with h' | ⟨s, hs, ty', h1, h2⟩
  · rw [h'] at h; cases h
  · rw [h2] at h
    cases h
    exact ⟨s, hs, rfl, h1⟩

/-- whatever result the context carries when the check phase starts (a blocked verdict of an earlier entry on the same
context, or one written by a preparation slot) is discarded: the entry is decided by its own check slots only -/
theorem stale_result_discarded (c : Chain) (r0 : Option (Nat × Nat)) : c.entryOn r0 = c.entry := by
  cases r0 <;> rfl

/-- hence `blocked iff some check slot blocked` and `the error comes from a blocking slot` hold on a reused or dirtied context -/
theorem blocked_iff_some_check_blocked_on (c : Chain) (r0 : Option (Nat × Nat)) :
    (c.entryOn r0).1.isSome = true ↔ ∃ s ∈ c.checks, s.res.isBlocked = true := by
  rw [stale_result_discarded]; exact blocked_iff_some_check_blocked c

theorem error_from_a_blocking_slot_on (c : Chain) (r0 : Option (Nat × Nat)) (ty src : Nat) (h : (c.entryOn r0).1 = some (ty, src)) :
    ∃ s ∈ c.checks, s.id = src ∧ s.res = .blocked ty := by
  rw [stale_result_discarded] at h; exact error_from_a_blocking_slot c ty src h

/-- number of pass-or-blocked notifications stat slot `i` received in a log -/
def notes (i : Nat) (l : List Event) : Nat :=
  (l.filter (fun e => match e with
    | .pass j => j == i
    | .blk j _ _ => j == i
    | _ => false)).length

def dones (i : Nat) (l : List Event) : Nat :=
  (l.filter (fun e => match e with
    | .done j => j == i
    | _ => false)).length

theorem notes_append (i : Nat) (a b : List Event) : notes i (a ++ b) = notes i a + notes i b := by
  simp [notes, List.filter_append]

theorem dones_append (i : Nat) (a b : List Event) : dones i (a ++ b) = dones i a + dones i b := by
  simp [dones, List.filter_append]

theorem notes_pre (i : Nat) (l : List Slot) : notes i (l.map (fun s => Event.pre s.id)) = 0 := by
  induction l with
  | nil => rfl
  | cons s l ih => simpa [notes] using ih

theorem notes_chk (i : Nat) (l : List Check) : notes i (l.map (fun s => Event.chk s.id)) = 0 := by
  induction l with
  | nil => rfl
  | cons s l ih => simpa [notes] using ih

theorem notes_stat (v : Option (Nat × Nat)) (i : Nat) (l : List Slot) :
    notes i (l.map (statNote v)) = (l.map (·.id)).count i := by
  induction l with
  | nil => rfl
  | cons s l ih =>
    have hs : notes i (statNote v s :: l.map (statNote v))
        = (if s.id == i then 1 else 0) + notes i (l.map (statNote v)) := by
      cases v with
      | none => simp only [notes, statNote, List.filter_cons]; split <;> simp <;> omega
      | some p => obtain ⟨ty, src⟩ := p; simp only [notes, statNote, List.filter_cons]; split <;> simp <;> omega
    simp only [List.map_cons, hs, ih, List.count_cons]
    omega

theorem dones_stat (i : Nat) (l : List Slot) :
    dones i (l.map (fun s => Event.done s.id)) = (l.map (·.id)).count i := by
  induction l with
  | nil => rfl
  | cons s l ih =>
    simp only [List.map_cons, List.count_cons]
    simp only [dones, List.filter_cons] at ih ⊢
    split <;> simp_all <;> omega

theorem dones_entry (c : Chain) (i : Nat) : dones i c.entry.2 = 0 := by
  rw [entry_call_order, dones_append, dones_append]
  have h1 : dones i (c.pres.map (fun s => Event.pre s.id)) = 0 := by
    induction c.pres with
    | nil => rfl
    | cons s l ih => simpa [dones] using ih
  have h2 : dones i (c.checks.map (fun s => Event.chk s.id)) = 0 := by
    induction c.checks with
    | nil => rfl
    | cons s l ih => simpa [dones] using ih
  have h3 : dones i (c.stats.map (statNote c.entry.1)) = 0 := by
    induction c.stats with
    | nil => rfl
    | cons s l ih =>
      cases hv : c.entry.1 with
      | none => rw [hv] at ih; simpa [dones, statNote] using ih
      | some p => rw [hv] at ih; obtain ⟨ty, src⟩ := p; simpa [dones, statNote] using ih
  omega

/-- each statistic slot (distinct ids) receives exactly one pass-or-blocked notification per entry -/
theorem one_notification_per_stat (c : Chain) (hn : (c.stats.map (·.id)).Nodup) (s : Slot)
    (hs : s ∈ c.stats) : notes s.id c.build.2 = 1 := by
  have hcount : (c.stats.map (·.id)).count s.id = 1 :=
    count_eq_one_of_nodup hn (List.mem_map_of_mem hs)
  have hentry : notes s.id c.entry.2 = 1 := by
    rw [entry_call_order, notes_append, notes_append, notes_pre, notes_chk, notes_stat, hcount]
  unfold Chain.build
  cases hv : c.entry with
  | mk v log =>
    have hl : log = c.entry.2 := by rw [hv]
    cases v with
    | none => simp only []; rw [hl]; exact hentry
    | some p => simp only [Chain.exit]; rw [hl]; simpa using hentry

/-- the kind of the notification agrees with the verdict returned to the caller -/
theorem notification_matches_verdict (c : Chain) (e : Event) (he : e ∈ c.stats.map (statNote c.entry.1)) :
    (c.entry.1 = none → ∃ i, e = .pass i) ∧
    (∀ ty src, c.entry.1 = some (ty, src) → ∃ i, e = .blk i ty src) := by
  obtain ⟨s, _, rfl⟩ := List.mem_map.mp he
  constructor
  · intro h; rw [h]; exact ⟨s.id, rfl⟩
  · intro ty src h; rw [h]; exact ⟨s.id, rfl⟩

/-- whole life of an entry: `build`, then (only if it passed, because only then the caller holds an
entry) one `exit` -/
def lifeLog (c : Chain) : List Event :=
  let (v, log) := c.build
  match v with
  | some _ => log
  | none => log ++ c.exit false

/-- a completion notification is delivered exactly once per statistic slot iff the entry passed, and
never when it was blocked (`Wait` results count as not blocked) -/
theorem completion_iff_passed (c : Chain) (hn : (c.stats.map (·.id)).Nodup) (s : Slot)
    (hs : s ∈ c.stats) :
    dones s.id (lifeLog c) = if c.entry.1.isSome then 0 else 1 := by
  have hcount : (c.stats.map (·.id)).count s.id = 1 :=
    count_eq_one_of_nodup hn (List.mem_map_of_mem hs)
  have h0 := dones_entry c s.id
  unfold lifeLog Chain.build
  cases hv : c.entry with
  | mk v log =>
    have hl : log = c.entry.2 := by rw [hv]
    cases v with
    | none =>
      simp only [Chain.exit, Option.isSome]
      rw [dones_append, hl, h0]
      simp only [Bool.false_eq_true, if_false]
      rw [dones_stat, hcount]
    | some p =>
      simp only [Chain.exit, Option.isSome]
      rw [hl]; simpa using h0

/-! ## non-vacuity: a concrete chain with equal order values, a wait, two blockers -/

def exampleChain : Chain :=
  ((((Chain.empty.addPre ⟨0, 3⟩).addPre ⟨1, 1⟩).addCheck ⟨0, 5, .pass⟩).addCheck ⟨1, 2, .blocked 1⟩
    |>.addCheck ⟨2, 2, .wait 7⟩ |>.addCheck ⟨3, 7, .blocked 0⟩ |>.addStat ⟨0, 4⟩ |>.addStat ⟨1, 4⟩
    |>.addStat ⟨2, 1⟩)

example : exampleChain.entry.1 = some (0, 3) := by decide
example : (exampleChain.entryOn (some (9, 9))).1 = some (0, 3) := by decide
example : (exampleChain.stats.map (·.id)).Nodup := by decide
example : ∃ s ∈ exampleChain.checks, s.res.isBlocked = true := ⟨⟨1, 2, .blocked 1⟩, by decide, rfl⟩

end Sentinel.SlotChain
