import Sentinel.World
import SentinelProofs.Props.C04
/-!
# C11 — hot reload keeps the state of unchanged rules and applies changed ones at once

`rebuildCtrls` is `build_resource_*` of the flow, hotspot and circuit-breaker managers. All per-rule runtime state
(statistic windows, throttling schedule, warm-up tokens, hotspot token buckets and in-flight counters, breaker state,
deadline and counters) lives inside the controller objects, so "keeps the state" = "keeps the objects".
-/
set_option autoImplicit false
namespace Sentinel

section Generic
variable {ρ κ K : Type} [DecidableEq K]

/-- removing the first controller whose key is `k` removes the first occurrence of `k` from the key list -/
theorem eraseIdx_findIdx_map (keyK : κ → K) (k : K) (old : List κ) (i : Nat)
    (h : old.findIdx? (fun c => decide (keyK c = k)) = some i) :
    (old.eraseIdx i).map keyK = (old.map keyK).erase k := by
  induction old generalizing i with
  | nil => simp at h
  | cons c rest ih =>
    rw [List.findIdx?_cons] at h
    by_cases hc : keyK c = k
    · simp only [hc, decide_true, if_true, Option.some.injEq] at h
      subst h
      simp [hc]
    · simp only [hc, decide_false, Bool.false_eq_true, if_false] at h
      cases hf : rest.findIdx? (fun c => decide (keyK c = k)) with
      | none => rw [hf] at h; simp at h
      | some j =>
        rw [hf] at h
        simp only [Option.map_some, Option.some.injEq] at h
        subst h
        simp only [List.eraseIdx_cons_succ, List.map_cons]
        rw [ih j hf, List.erase_cons_tail]
        simpa using hc

/-- taking the element at index `i` out of a list and putting it in front is a permutation -/
theorem perm_cons_eraseIdx {α : Type} (l : List α) (i : Nat) (c : α) (h : l[i]? = some c) : l.Perm (c :: l.eraseIdx i) := by
  induction l generalizing i with
  | nil => simp at h
  | cons a t ih =>
    cases i with
    | zero => simp at h; subst h; exact List.Perm.refl _
    | succ j =>
      simp only [List.getElem?_cons_succ] at h
      simp only [List.eraseIdx_cons_succ]
      exact (List.Perm.cons a (ih j h)).trans (List.Perm.swap c a _)

theorem findIdx_some_of_mem (keyK : κ → K) (k : K) (old : List κ) (h : k ∈ old.map keyK) :
    ∃ i c, old.findIdx? (fun c => decide (keyK c = k)) = some i ∧ old[i]? = some c ∧ keyK c = k := by
  induction old with
  | nil => simp at h
  | cons c rest ih =>
    rw [List.findIdx?_cons]
    by_cases hc : keyK c = k
    · exact ⟨0, c, by simp [hc], rfl, hc⟩
    · simp only [hc, decide_false, Bool.false_eq_true, if_false]
      have : k ∈ rest.map keyK := by
        simp only [List.map_cons, List.mem_cons] at h
        rcases h with h | h
        · exact absurd h.symm hc
        · exact h
      obtain ⟨j, c', h1, h2, h3⟩ := ih this
      exact ⟨j + 1, c', by simp [h1], by simpa using h2, h3⟩

/-- **Reload of an equal rule set keeps every controller object.** If the rules handed in are, parameter for parameter (ids and
order aside), the rules bound to the current controllers, the new controller list is a permutation of the old list — the
very same objects with all their accumulated state. -/
theorem rebuild_equal_perm (keyR : ρ → K) (keyK : κ → K) (statReusable : ρ → κ → Bool) (fresh : ρ → κ) (reuseStat : ρ → κ → κ)
    (rules : List ρ) (old : List κ) (h : (rules.map keyR).Perm (old.map keyK)) :
    (rebuildCtrls (fun r c => decide (keyK c = keyR r)) statReusable fresh reuseStat rules old).Perm old := by
  induction rules generalizing old with
  | nil =>
    have : old = [] := by
      have := h.length_eq; simp at this
      exact List.length_eq_zero_iff.mp this.symm
    subst this; exact List.Perm.refl _
  | cons r rest ih =>
    have hmem : keyR r ∈ old.map keyK := h.subset List.mem_cons_self
    obtain ⟨i, c, hfi, hget, hkey⟩ := findIdx_some_of_mem keyK (keyR r) old hmem
    unfold rebuildCtrls
    simp only [hfi, hget]
    have hrest : (rest.map keyR).Perm ((old.eraseIdx i).map keyK) := by
      rw [eraseIdx_findIdx_map keyK (keyR r) old i hfi]
      have := h.erase (keyR r)
      simpa using this
    exact (List.Perm.cons c (ih _ hrest)).trans (perm_cons_eraseIdx old i c hget).symm

omit [DecidableEq K] in
/-- the same for any rule-equality test that is "same parameters" -/
theorem rebuild_equal_perm' (keyR : ρ → K) (keyK : κ → K) (sameRule statReusable : ρ → κ → Bool) (fresh : ρ → κ) (reuseStat : ρ → κ → κ)
    (hkey : ∀ r c, sameRule r c = true ↔ keyK c = keyR r)
    (rules : List ρ) (old : List κ) (h : (rules.map keyR).Perm (old.map keyK)) :
    (rebuildCtrls sameRule statReusable fresh reuseStat rules old).Perm old := by
  haveI : DecidableEq K := fun a b => Classical.propDecidable (a = b)
  have : sameRule = (fun r c => decide (keyK c = keyR r)) := by
    funext r c
    by_cases hc : keyK c = keyR r
    · simp [hc, (hkey r c).mpr hc]
    · have : sameRule r c = false := by
        cases hs : sameRule r c with
        | false => rfl
        | true => exact absurd ((hkey r c).mp hs) hc
      simp [hc, this]
  rw [this]
  exact rebuild_equal_perm keyR keyK statReusable fresh reuseStat rules old h

/-- one controller per rule handed in -/
theorem rebuild_length (sameRule statReusable : ρ → κ → Bool) (fresh : ρ → κ) (reuseStat : ρ → κ → κ) (rules : List ρ) (old : List κ) :
    (rebuildCtrls sameRule statReusable fresh reuseStat rules old).length = rules.length := by
  induction rules generalizing old with
  | nil => rfl
  | cons r rest ih =>
    unfold rebuildCtrls
    cases hf : old.findIdx? (sameRule r) with
    | some i =>
      have hi : i < old.length := by
        have := List.findIdx?_eq_some_iff_getElem.mp hf
        exact this.1
      simp only [List.getElem?_eq_getElem hi, List.length_cons, ih]
    | none =>
      simp only []
      cases hg : old.findIdx? (statReusable r) with
      | some j =>
        simp only []
        cases old[j]? <;> simp only [List.length_cons, ih]
      | none => simp only [List.length_cons, ih]

/-- **an unchanged rule keeps its controller**: when the first rule handed in equals the rule of some current controller,
its controller is the first such old controller itself … -/
theorem rebuild_head_reused (sameRule statReusable : ρ → κ → Bool) (fresh : ρ → κ) (reuseStat : ρ → κ → κ)
    (r : ρ) (rest : List ρ) (old : List κ) (c : κ) (hc : old.find? (sameRule r) = some c) :
    (rebuildCtrls sameRule statReusable fresh reuseStat (r :: rest) old).head? = some c := by
  unfold rebuildCtrls
  cases hf : old.findIdx? (sameRule r) with
  | none =>
    have := List.findIdx?_eq_none_iff.mp hf
    have hm := List.mem_of_find?_eq_some hc
    have hp := List.find?_some hc
    rw [this c hm] at hp; cases hp
  | some i =>
    have h := List.findIdx?_eq_some_iff_getElem.mp hf
    have hi : i < old.length := h.1
    have : old.find? (sameRule r) = some old[i] := by
      rw [List.find?_eq_some_iff_getElem]
      exact ⟨h.2.1, i, hi, rfl, fun j hj => by simpa using h.2.2 j hj⟩
    rw [this] at hc
    simp only [List.getElem?_eq_getElem hi, List.head?_cons]
    exact hc

/-- … and **a changed rule gets a new controller at once**: when no current controller has an equal rule, the controller is
built from the rule handed in (on the statistics of a stat-reusable old controller, if there is one) -/
theorem rebuild_head_changed (sameRule statReusable : ρ → κ → Bool) (fresh : ρ → κ) (reuseStat : ρ → κ → κ)
    (r : ρ) (rest : List ρ) (old : List κ) (hno : ∀ c ∈ old, sameRule r c = false) :
    (rebuildCtrls sameRule statReusable fresh reuseStat (r :: rest) old).head? = some (fresh r) ∨
    ∃ c ∈ old, statReusable r c = true ∧
      (rebuildCtrls sameRule statReusable fresh reuseStat (r :: rest) old).head? = some (reuseStat r c) := by
  unfold rebuildCtrls
  have hf : old.findIdx? (sameRule r) = none := List.findIdx?_eq_none_iff.mpr hno
  simp only [hf]
  cases hg : old.findIdx? (statReusable r) with
  | none => left; rfl
  | some j =>
    have h := List.findIdx?_eq_some_iff_getElem.mp hg
    have hj : j < old.length := h.1
    right
    refine ⟨old[j], List.getElem_mem hj, h.2.1, ?_⟩
    simp only [List.getElem?_eq_getElem hj, List.head?_cons]

end Generic

/-! ## the three managers -/

def flowKey (r : FlowSpec) : F64 × Nat × Bool × Bool × Nat × Nat × Nat :=
  (r.thr, r.ivl, r.warmUp, r.throttling, r.period, r.coldFactor, r.maxQueueMs)

theorem FlowSpec.eqv_iff (a b : FlowSpec) : a.eqv b = true ↔ flowKey b = flowKey a := by
  simp only [FlowSpec.eqv, flowKey, Bool.and_eq_true, beq_iff_eq, Prod.mk.injEq]
  constructor
  · rintro ⟨⟨⟨⟨⟨⟨h1, h2⟩, h3⟩, h4⟩, h5⟩, h6⟩, h7⟩; exact ⟨h1.symm, h2.symm, h3.symm, h4.symm, h5.symm, h6.symm, h7.symm⟩
  · rintro ⟨h1, h2, h3, h4, h5, h6, h7⟩; exact ⟨⟨⟨⟨⟨⟨h1.symm, h2.symm⟩, h3.symm⟩, h4.symm⟩, h5.symm⟩, h6.symm⟩, h7.symm⟩

/-- **Flow: reloading the rules a resource already has (any ids, any order) keeps every traffic-shaping controller** —
its bound window, throttling schedule and warm-up tokens included. -/
theorem loadFlow_same_rules (w : World) (res : String) (rules : List FlowSpec)
    (h : (rules.map (fun r => some (flowKey r))).Perm ((w.ctrls res).map (fun c => c.spec.map flowKey))) :
    ((w.loadFlow res rules).ctrls res).Perm (w.ctrls res) := by
  unfold World.loadFlow
  simp only [World.ctrls, lookup_update_same, Option.getD_some]
  apply rebuild_equal_perm' (fun r => some (flowKey r)) (fun c : FlowCtrl => c.spec.map flowKey) _ _ _ _ _ _ _ h
  intro r c
  cases hs : c.spec with
  | none => simp
  | some s => simp [FlowSpec.eqv_iff]

/-- other resources' controllers, and every other family, are not touched by a flow reload -/
theorem loadFlow_frame (w : World) (res res' : String) (rules : List FlowSpec) (hne : res ≠ res') :
    (w.loadFlow res rules).ctrls res' = w.ctrls res' ∧
    (w.loadFlow res rules).iso = w.iso ∧ (w.loadFlow res rules).hs = w.hs ∧ (w.loadFlow res rules).br = w.br ∧
    (w.loadFlow res rules).sys = w.sys := by
  unfold World.loadFlow
  simp only [World.ctrls, lookup_update_other _ _ _ _ hne, and_self]

def hsKey (r : HsRule) :=
  (r.metric, r.strategy, r.paramIndex, r.paramKey, r.thr, r.durSec, r.maxCap, r.specific,
    if r.strategy = .reject then r.burst else r.maxQueueMs)

theorem hsRuleEqv_iff (a b : HsRule) : World.hsRuleEqv a b = true ↔ hsKey b = hsKey a := by
  simp only [World.hsRuleEqv, hsKey, Bool.and_eq_true, beq_iff_eq, Prod.mk.injEq]
  constructor
  · rintro ⟨⟨⟨⟨⟨⟨⟨⟨h1, h2⟩, h3⟩, h4⟩, h5⟩, h6⟩, h7⟩, h8⟩, h9⟩
    refine ⟨h1.symm, h2.symm, h3.symm, h4.symm, h5.symm, h6.symm, h7.symm, h8.symm, ?_⟩
    rw [← h2]; split at h9 <;> simp_all
  · rintro ⟨h1, h2, h3, h4, h5, h6, h7, h8, h9⟩
    refine ⟨⟨⟨⟨⟨⟨⟨⟨h1.symm, h2.symm⟩, h3.symm⟩, h4.symm⟩, h5.symm⟩, h6.symm⟩, h7.symm⟩, h8.symm⟩, ?_⟩
    rw [h2] at h9; split <;> simp_all

/-- **Hotspot: reloading the same rules keeps every controller** — per-value token buckets, last-pass times and in-flight
counters included. -/
theorem loadHs_same_rules (w : World) (res : String) (rules : List HsRule)
    (h : (rules.map hsKey).Perm ((w.hsCtrls res).map (fun c => hsKey c.rule))) :
    ((w.loadHs res rules).hsCtrls res).Perm (w.hsCtrls res) := by
  unfold World.loadHs
  simp only [World.hsCtrls, lookup_update_same, Option.getD_some]
  exact rebuild_equal_perm' hsKey (fun c : HsCtrl => hsKey c.rule) _ _ _ _ (fun r c => hsRuleEqv_iff r c.rule) _ _ h

def brKey (r : BRule) :=
  (r.strategy, r.retryMs, r.minReq, r.ivl, r.buckets, r.thr, if r.strategy = .slowRatio then r.maxRt else 0)

theorem brRuleEqv_iff (a b : BRule) : World.brRuleEqv a b = true ↔ brKey b = brKey a := by
  simp only [World.brRuleEqv, brKey, Bool.and_eq_true, beq_iff_eq, Prod.mk.injEq]
  constructor
  · rintro ⟨⟨⟨⟨⟨h1, h2⟩, h3⟩, h4⟩, h5⟩, h6⟩
    have hb : b.strategy = a.strategy := h1.symm
    rw [hb]
    cases hs : a.strategy <;> rw [hs] at h6 <;> simp at h6 <;> simp [h2, h3, h4, h5, h6]
  · rintro ⟨h1, h2, h3, h4, h5, h6, h7⟩
    rw [h1] at h7
    cases hs : a.strategy <;> rw [hs] at h7 <;> simp_all

/-- **Circuit breaker: reloading the same rules keeps every breaker** — its state (an Open breaker stays Open with the same
retry deadline), and its counters. -/
theorem loadBr_same_rules (w : World) (res : String) (rules : List BRule)
    (h : (rules.map brKey).Perm ((w.breakers res).map (fun b => brKey b.rule))) :
    ((w.loadBr res rules).breakers res).Perm (w.breakers res) := by
  unfold World.loadBr
  simp only [World.breakers, lookup_update_same, Option.getD_some]
  exact rebuild_equal_perm' brKey (fun b : Breaker => brKey b.rule) _ _ _ _ (fun r b => brRuleEqv_iff r b.rule) _ _ h

end Sentinel

namespace Sentinel
/-- the premise is met by the reachable state "rule loaded, then loaded again under another id" -/
example :
    let r : FlowSpec := { id := "a", thr := F64.ofNat 5, ivl := 1000 }
    let w := (World.loadFlow {} "res" [r])
    ([{ r with id := "b" }].map (fun r => some (flowKey r))).Perm ((w.ctrls "res").map (fun c => c.spec.map flowKey)) := by
  simp only [World.loadFlow, World.ctrls, lookup_update_same, Option.getD_some]
  simp [rebuildCtrls, World.lookup, World.freshFlowCtrl, flowKey]
end Sentinel
