import Sentinel.World
import SentinelProofs.Props.C02
/-!
# C09 — system protection rejects inbound traffic exactly when a system metric trips

`sysCheck` is the system slot of `World.build`; `SysObs` is what it observes (global inbound
statistics, last load / CPU reading). Theorems hold for every rule list and every observation.
Comparisons are the code's `f64` comparisons (`F64.lt`), so "at or above" is `¬ (value < threshold)`
and "strictly above" is `threshold < value`.
-/
set_option autoImplicit false
namespace Sentinel

/-- the property's wording of "rule `r` trips on observation `o`" -/
def TripsSpec (r : SysRule) (o : SysObs) : Prop :=
  match r.metric with
  | .inboundQps => F64.lt o.qps r.thr = false                         -- at or above
  | .concurrency => F64.lt (F64.ofNat o.conc) r.thr = false           -- at or above
  | .avgRt => F64.lt o.avgRt r.thr = false                            -- at or above
  | .load => F64.lt r.thr o.load = true ∧                             -- strictly above, and under BBR …
      (r.bbr = true → F64.lt (F64.ofNat 1) (F64.ofNat o.conc) = true ∧
        F64.lt (F64.div (F64.mul o.maxComplete o.minRt) (F64.ofNat 1000)) (F64.ofNat o.conc) = true)
  | .cpuUsage => F64.lt r.thr o.cpu = true ∧
      (r.bbr = true → F64.lt (F64.ofNat 1) (F64.ofNat o.conc) = true ∧
        F64.lt (F64.div (F64.mul o.maxComplete o.minRt) (F64.ofNat 1000)) (F64.ofNat o.conc) = true)

/-- the value a rule reports as snapshot: the observed value of its metric -/
def observed (r : SysRule) (o : SysObs) : F64 :=
  match r.metric with
  | .inboundQps => o.qps
  | .concurrency => F64.ofNat o.conc
  | .avgRt => o.avgRt
  | .load => o.load
  | .cpuUsage => o.cpu

/-- the code's per-rule check is the property's wording, metric by metric, strategy by strategy -/
theorem trips_iff_spec (r : SysRule) (o : SysObs) : (r.trips o).1 = true ↔ TripsSpec r o := by
  unfold SysRule.trips TripsSpec bbrExceeded
  cases r.metric <;> simp only [] <;> cases r.bbr <;> simp

theorem trips_snapshot (r : SysRule) (o : SysObs) : (r.trips o).2 = observed r o := by
  unfold SysRule.trips observed
  cases r.metric <;> rfl

/-- **Decision.** The system slot blocks exactly when the entry is inbound and some rule trips -/
theorem system_decision (rules : List SysRule) (inbound : Bool) (o : SysObs) :
    (sysCheck rules inbound o).isSome = true ↔ inbound = true ∧ ∃ r ∈ rules, TripsSpec r o := by
  unfold sysCheck
  cases inbound with
  | false => simp
  | true =>
    simp only [Bool.not_true, Bool.false_eq_true, if_false, true_and]
    constructor
    · intro h
      cases hf : rules.find? (fun r => (r.trips o).1) with
      | none => rw [hf] at h; cases h
      | some r =>
        exact ⟨r, List.mem_of_find?_eq_some hf, (trips_iff_spec r o).mp (List.find?_some (p := fun r : SysRule => (r.trips o).1) hf)⟩
    · intro ⟨r, hr, ht⟩
      cases hf : rules.find? (fun r => (r.trips o).1) with
      | some r' => rfl
      | none =>
        have := List.find?_eq_none.mp hf r hr
        exact absurd ((trips_iff_spec r o).mpr ht) (by simpa using this)

/-- outbound entries are never affected by system rules -/
theorem system_outbound_untouched (rules : List SysRule) (o : SysObs) : sysCheck rules false o = none := by
  simp [sysCheck]

/-- a system rejection carries a rule that trips and the observed value of its metric -/
theorem system_block_carries (rules : List SysRule) (inbound : Bool) (o : SysObs) (id : String) (snap : F64)
    (h : sysCheck rules inbound o = some (id, snap)) :
    inbound = true ∧ ∃ r ∈ rules, r.id = id ∧ TripsSpec r o ∧ snap = observed r o := by
  unfold sysCheck at h
  cases inbound with
  | false => simp at h
  | true =>
    simp only [Bool.not_true, Bool.false_eq_true, if_false] at h
    cases hf : rules.find? (fun r => (r.trips o).1) with
    | none => rw [hf] at h; cases h
    | some r =>
      rw [hf] at h
      simp only [Option.some.injEq, Prod.mk.injEq] at h
      exact ⟨rfl, r, List.mem_of_find?_eq_some hf, h.1, (trips_iff_spec r o).mp (List.find?_some (p := fun r : SysRule => (r.trips o).1) hf),
        by rw [← h.2, trips_snapshot]⟩

/-- once the system slot has blocked, no later slot can turn the verdict back into a pass -/
theorem runChecks_blocked_of_sys (w : World) (res : String) (batch : Nat) (inbound : Bool)
    (args : Option (List String)) (atts : Option (List (String × String)))
    (h : (sysCheck w.sys inbound w.sysObs).isSome = true) :
    (w.runChecks res batch inbound args atts).res ≠ .pass := by
  unfold World.runChecks
  simp only []
  cases hc : sysCheck w.sys inbound w.sysObs with
  | none => rw [hc] at h; cases h
  | some p =>
    cases hfs : flowSlot (w.ctrls res) (w.node res) w.nowNs batch with
    | mk f rest1 =>
      cases rest1 with
      | mk t1 fb =>
        simp only []
        cases hhs : hsSlot w.hsSleepNs (w.hsCtrls res) t1 args atts batch with
        | mk hsx rest2 =>
          cases rest2 with
          | mk t2 hb =>
            simp only []
            cases hbs : brSlot (w.breakers res) (t2 / 1000000) with
            | mk brx rest3 =>
              obtain ⟨bblocked, evs, hooks⟩ := rest3
              simp only []
              cases bblocked <;> cases hb <;> cases isoCheck (w.isoRules res) (w.node res) batch <;> cases fb <;> simp

/-- world level: a tripping rule makes every inbound `build` fail (whatever the later slots say) -/
theorem system_trip_blocks (w : World) (eid : Nat) (res : String) (batch : Nat)
    (args : Option (List String)) (atts : Option (List (String × String)))
    (h : ∃ r ∈ w.sys, TripsSpec r w.sysObs) : (w.build eid res batch true args atts).2 ≠ .pass := by
  have hs := (system_decision w.sys true w.sysObs).mpr ⟨rfl, h⟩
  have hv := runChecks_blocked_of_sys w res batch true args atts hs
  unfold World.build
  simp only []
  cases hv' : (w.runChecks res batch true args atts).res with
  | pass => exact absurd hv' hv
  | blocked ty rule snap => simp

/-- world level: a `build` is never reported as a system block for an outbound entry -/
theorem outbound_never_system_blocked (w : World) (eid : Nat) (res : String) (batch : Nat)
    (args : Option (List String)) (atts : Option (List (String × String))) (rule snap : String) :
    (w.build eid res batch false args atts).2 ≠ .blocked "SystemFlow" rule snap := by
  have hv : (w.runChecks res batch false args atts).res ≠ .blocked "SystemFlow" rule snap := by
    unfold World.runChecks
    simp only [system_outbound_untouched]
    cases hfs : flowSlot (w.ctrls res) (w.node res) w.nowNs batch with
    | mk f rest1 =>
      cases rest1 with
      | mk t1 fb =>
        simp only []
        cases hhs : hsSlot w.hsSleepNs (w.hsCtrls res) t1 args atts batch with
        | mk hsx rest2 =>
          cases rest2 with
          | mk t2 hb =>
            simp only []
            cases hbs : brSlot (w.breakers res) (t2 / 1000000) with
            | mk brx rest3 =>
              obtain ⟨bblocked, evs, hooks⟩ := rest3
              simp only []
              cases bblocked <;> cases hb <;> cases isoCheck (w.isoRules res) (w.node res) batch <;> cases fb <;>
                simp [World.isoBlockType]
  unfold World.build
  simp only []
  cases hv' : (w.runChecks res batch false args atts).res with
  | pass => simp
  | blocked ty rule' snap' =>
    simp only [ne_eq]
    intro h
    exact hv (by rw [hv', h])

/-- the observed inbound QPS and average RT are the code's float expressions of the exact window totals of the
inbound history (C02 read theorems applied to the inbound node) -/
theorem sysObs_from_history (w : World) (tl : Nat) (hinv : BInv globalGeo w.inbound.ring w.inbound.hist tl)
    (hnow : tl ≤ w.nowMs) (hguard : 1000 ≤ globalGeo.start w.nowMs) :
    w.sysObs.qps = F64.div (F64.ofNat (windowSum 500 w.inbound.hist (globalGeo.start w.nowMs - 1000 + 500)
        (globalGeo.start w.nowMs) .pass)) defaultReader.intervalS ∧
    w.sysObs.minRt = F64.ofNat (windowMinRt 500 w.inbound.hist (globalGeo.start w.nowMs - 1000 + 500) (globalGeo.start w.nowMs)) := by
  unfold World.sysObs
  simp only []
  constructor
  · exact qps_eq globalGeo (by decide) (by decide) _ _ tl defaultReader _ .pass hinv hnow (by decide) (by decide) hguard
  · rw [sliding_min_rt_eq globalGeo (by decide) (by decide) _ _ tl defaultReader _ hinv hnow (by decide) (by decide) hguard]
    rfl

/-! ## non-vacuity -/
example : ∃ o : SysObs, TripsSpec ⟨"a", .concurrency, false, F64.ofNat 2⟩ o :=
  ⟨{ qps := F64.zero, conc := 2, avgRt := F64.zero, load := F64.zero, cpu := F64.zero, maxComplete := F64.zero, minRt := F64.zero }, by unfold TripsSpec; decide⟩

end Sentinel
