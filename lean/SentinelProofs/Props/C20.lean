import Sentinel.Tower
import SentinelProofs.Props.C04
/-!
# C20 — Tower middleware calls the service iff admitted and always releases admission
-/
set_option autoImplicit false
namespace Sentinel

/-- **admitted iff Sentinel admits; the inner service is called exactly once for an admitted request and never for a rejected
one** -/
theorem inner_called_once_iff_admitted (m : Mw) (id : Nat) (res : String) (o : Outcome) :
    ((m.w.build id res 1 m.inbound).2 = .pass → (m.call id res o).1.innerCalls = m.innerCalls + 1) ∧
    ((m.w.build id res 1 m.inbound).2 ≠ .pass → (m.call id res o).1.innerCalls = m.innerCalls) := by
  unfold Mw.call
  cases hb : m.w.build id res 1 m.inbound with
  | mk w' r =>
    cases r with
    | pass =>
      refine ⟨fun _ => ?_, fun h => absurd rfl h⟩
      simp only []
      split <;> simp [Mw.complete]
    | blocked ty rule snap =>
      exact ⟨fun h => (by cases h), fun _ => rfl⟩

/-- **a rejected request gets the fallback response, or an error when there is no fallback** -/
theorem rejected_gets_fallback_or_error (m : Mw) (id : Nat) (res : String) (o : Outcome) (ty rule snap : String)
    (h : (m.w.build id res 1 m.inbound).2 = .blocked ty rule snap) :
    (m.call id res o).2 = some (if m.hasFallback then .fallback else .blockedErr) ∧ (m.call id res o).1.pending = m.pending := by
  unfold Mw.call
  cases hb : m.w.build id res 1 m.inbound with
  | mk w' r =>
    rw [hb] at h
    simp only [] at h
    subst h
    exact ⟨rfl, rfl⟩

/-- an admitted request is answered by the inner service's outcome: at once when it is ready, otherwise after `finish` -/
theorem admitted_reply (m : Mw) (id : Nat) (res : String) (o : Outcome) (h : (m.w.build id res 1 m.inbound).2 = .pass) :
    (m.call id res o).2 = (if o.isReady then some (if o.isErr then .innerErr else .ok) else none) := by
  unfold Mw.call
  cases hb : m.w.build id res 1 m.inbound with
  | mk w' r =>
    rw [hb] at h
    simp only [] at h
    subst h
    simp only []
    split <;> simp [Mw.complete]

/-! ## release on every outcome -/

theorem conc_recordPass (n : Node) (t b : Nat) : (n.recordPass t b).conc = n.conc + 1 := by
  unfold Node.recordPass Node.addCount Node.increaseConcurrency Node.record
  simp only []
  split <;> split <;> rfl

theorem conc_recordComplete (n : Node) (t b rt : Nat) : (n.recordComplete t b rt).conc = n.conc - 1 := by
  unfold Node.recordComplete Node.decreaseConcurrency Node.addCount Node.record
  simp only []
  split <;> split <;> rfl

theorem conc_recordBlock (n : Node) (t b : Nat) : (n.recordBlock t b).conc = n.conc := by
  unfold Node.recordBlock Node.addCount Node.record
  split <;> rfl

/-- the entry a successful build registers -/
theorem build_pass_entry (w : World) (id : Nat) (res : String) (inbound : Bool) (h : (w.build id res 1 inbound).2 = .pass) :
    ∃ e, (w.build id res 1 inbound).1.entries.find? (fun p => p.1 == id) = some (id, e) ∧ e.res = res := by
  unfold World.build at h ⊢
  simp only [] at h ⊢
  cases hv : (w.runChecks res 1 inbound none none).res with
  | pass => simp
  | blocked ty rule snap => rw [hv] at h; simp at h

/-- **Released whether the inner call finishes with a response or with an error (ready outcomes):** the resource's in-flight
count after the request equals the count before it. -/
theorem released_on_ready_outcome (m : Mw) (id : Nat) (res : String) (o : Outcome) (hr : o.isReady = true) :
    ((m.call id res o).1.w.node res).conc = (m.w.node res).conc := by
  unfold Mw.call
  cases hb : m.w.build id res 1 m.inbound with
  | mk w' r =>
    have hacc := build_accounts_once m.w id res 1 m.inbound none none
    cases r with
    | pass =>
      simp only [hr, if_true, Mw.complete]
      have hp : (m.w.build id res 1 m.inbound).2 = .pass := by rw [hb]
      obtain ⟨e, he, heres⟩ := build_pass_entry m.w id res m.inbound hp
      rw [hb] at he
      simp only [] at he
      obtain ⟨w2, hx, hnode, _, _⟩ := exit_records_completion w' id e he
      rw [hx]
      simp only [Option.getD_some]
      rw [heres] at hnode
      rw [hnode, conc_recordComplete]
      rcases hacc with ⟨_, hn, _⟩ | ⟨⟨ty, rule, snap, hbk⟩, _, _⟩
      · rw [hb] at hn
        simp only [] at hn
        rw [hn, conc_recordPass]
        omega
      · rw [hb] at hbk; cases hbk
    | blocked ty rule snap =>
      simp only []
      rcases hacc with ⟨hp, _, _⟩ | ⟨_, hn, _⟩
      · rw [hb] at hp; cases hp
      · rw [hb] at hn
        simp only [] at hn
        rw [hn, conc_recordBlock]

/-- **… and for pending outcomes**: while the request is in flight it holds exactly one admission, and `finish` gives it back,
whether the inner future resolves to a response or to an error. -/
theorem released_on_pending_outcome (m : Mw) (id : Nat) (res : String) (o : Outcome) (hr : o.isReady = false)
    (hp : (m.w.build id res 1 m.inbound).2 = .pass)  :
    ((m.call id res o).1.w.node res).conc = (m.w.node res).conc + 1 ∧
    ((((m.call id res o).1).finish id).1.w.node res).conc = (m.w.node res).conc := by
  have hacc := build_accounts_once m.w id res 1 m.inbound none none
  obtain ⟨e, he, heres⟩ := build_pass_entry m.w id res m.inbound hp
  unfold Mw.call
  cases hb : m.w.build id res 1 m.inbound with
  | mk w' r =>
    rw [hb] at hp he
    simp only [] at hp he
    subst hp
    simp only [hr, Bool.false_eq_true, if_false]
    have hn : (w'.node res).conc = (m.w.node res).conc + 1 := by
      rcases hacc with ⟨_, hn, _⟩ | ⟨⟨ty, rule, snap, hbk⟩, _, _⟩
      · rw [hb] at hn; simp only [] at hn; rw [hn, conc_recordPass]
      · rw [hb] at hbk; cases hbk
    refine ⟨hn, ?_⟩
    unfold Mw.finish
    simp only [List.find?_cons, beq_self_eq_true, Mw.complete]
    obtain ⟨w2, hx, hnode, _, _⟩ := exit_records_completion w' id e he
    rw [hx]
    simp only [Option.getD_some]
    rw [heres] at hnode
    rw [hnode, conc_recordComplete, hn]
    omega

/-- a dropped future is different: nothing releases its admission (reported by the check, not asserted by the property) -/
theorem dropped_future_keeps_admission (m : Mw) (id : Nat) : (m.dropFuture id).w = m.w := rfl

example : (Mw.call {} 1 "a" .readyErr).2 = some .innerErr := by decide

end Sentinel
