import Sentinel.Config
/-!
# C17 — accepted configuration is usable and is the same for every thread
-/
set_option autoImplicit false
namespace Sentinel

theorem statOk_iff (sc iv : Nat) : statOk sc iv = true ↔ iv ≠ 0 ∧ sc ≠ 0 ∧ iv % sc = 0 := by
  unfold statOk
  simp only [Bool.not_eq_true', Bool.or_eq_false_iff, decide_eq_false_iff_not, ne_eq, Decidable.not_not]
  constructor
  · rintro ⟨⟨h1, h2⟩, h3⟩; exact ⟨h1, h2, h3⟩
  · rintro ⟨h1, h2, h3⟩; exact ⟨⟨h1, h2⟩, h3⟩

/-- the clauses of `ConfigEntity::check` -/
theorem check_ok_iff (c : Cfg) :
    c.check = none ↔
      (c.version.isEmpty = false ∧ c.app.isEmpty = false ∧ c.maxFileCount ≠ 0 ∧ c.singleFileMaxSize ≠ 0 ∧
        checkReuse c.stat.sc c.stat.iv c.stat.sct c.stat.ivt = 0) := by
  unfold Cfg.check
  constructor
  · intro h
    split at h; · cases h
    split at h; · cases h
    split at h; · cases h
    split at h; · cases h
    split at h; · cases h
    rename_i h1 h2 h3 h4 h5
    exact ⟨by simpa using h1, by simpa using h2, h3, h4, Decidable.not_not.mp h5⟩
  · rintro ⟨h1, h2, h3, h4, h5⟩
    rw [if_neg (by simp [h1]), if_neg (by simp [h2]), if_neg h3, if_neg h4, if_neg (by simp [h5])]

/-- what "the default metric window can be served by the global window" means, in numbers -/
theorem checkReuse_ok_iff (sc iv psc piv : Nat) :
    checkReuse sc iv psc piv = 0 ↔
      (iv ≠ 0 ∧ sc ≠ 0 ∧ iv % sc = 0) ∧ (piv ≠ 0 ∧ psc ≠ 0 ∧ piv % psc = 0) ∧ piv % iv = 0 ∧ (iv / sc) % (piv / psc) = 0 := by
  unfold checkReuse
  constructor
  · intro h
    split at h; · cases h
    split at h; · cases h
    split at h; · cases h
    split at h; · cases h
    rename_i h1 h2 h3 h4
    refine ⟨(statOk_iff sc iv).mp (by simpa using h1), (statOk_iff psc piv).mp (by simpa using h2), Decidable.not_not.mp h3, Decidable.not_not.mp h4⟩
  · rintro ⟨h1, h2, h3, h4⟩
    have a := (statOk_iff sc iv).mpr h1
    have b := (statOk_iff psc piv).mpr h2
    rw [if_neg (by simp [a]), if_neg (by simp [b]), if_neg (by simp [h3]), if_neg (by simp [h4])]

/-- **An accepted configuration yields working statistics**: `ResourceNode::new` does not panic, and the node's ring and
default reader have exactly the configured geometry. -/
theorem check_ok_node_total (c : Cfg) (h : c.check = none) :
    nodeNew c.stat = .ok (⟨c.stat.sct, c.stat.ivt / c.stat.sct⟩, ⟨c.stat.sc, c.stat.iv⟩) := by
  have hc := ((check_ok_iff c).mp h).2.2.2.2
  have hp := ((checkReuse_ok_iff _ _ _ _).mp hc).2.1
  unfold nodeNew
  have : leapNewOk c.stat.sct c.stat.ivt = true := by
    unfold leapNewOk; simp [hp.2.1, hp.2.2]
  rw [if_pos this, if_pos hc]

/-- the ring covers the configured total interval exactly (bucket length × bucket count) -/
theorem node_ring_covers_total (c : Cfg) (h : c.check = none) : c.stat.sct * (c.stat.ivt / c.stat.sct) = c.stat.ivt := by
  have hc := ((check_ok_iff c).mp h).2.2.2.2
  have hp := ((checkReuse_ok_iff _ _ _ _).mp hc).2.1
  exact Nat.mul_div_cancel' (Nat.dvd_of_mod_eq_zero hp.2.2)

/-- **A configuration whose default metric window cannot be served by the global window is rejected at initialisation**,
and the configuration in effect does not change. -/
theorem unservable_rejected (s : Store) (t : Nat) (c : Cfg) (h : checkReuse c.stat.sc c.stat.iv c.stat.sct c.stat.ivt ≠ 0) :
    s.init t c = (s, false) := by
  unfold Store.init
  have : c.check ≠ none := fun hn => h ((check_ok_iff c).mp hn).2.2.2.2
  cases hc : c.check with
  | none => exact absurd hc this
  | some _ => rfl

/-- … and if it were not rejected, creating a node would panic whenever the global window itself is ill-formed -/
theorem node_panics_on_bad_global (s : StatCfg) (h : leapNewOk s.sct s.ivt = false) : ∃ e, nodeNew s = .error e := by
  unfold nodeNew; rw [h]; exact ⟨_, rfl⟩

/-- **The configuration in effect after initialisation is the same for every thread** -/
theorem config_same_for_all_threads (s : Store) (t : Nat) (c : Cfg) (h : c.check = none) (t1 t2 : Nat) :
    ((s.init t c).1.read t1) = c ∧ ((s.init t c).1.read t1) = ((s.init t c).1.read t2) := by
  unfold Store.init Store.read; rw [h]; exact ⟨rfl, rfl⟩

/-- at all times, initialised or not, successfully or not, two threads read the same configuration -/
theorem store_read_thread_independent (s : Store) (t1 t2 : Nat) : s.read t1 = s.read t2 := rfl

/-- the per-thread store the code had before the repair does **not** have this property: after a non-default
initialisation on thread 0, thread 1 still reads the default -/
theorem thread_local_store_witness :
    let c : Cfg := { stat := ⟨10, 5000, 5, 2500⟩ }
    let s := ((TlStore.init {} 0 c).1)
    c.check = none ∧ (s.read 0).stat = ⟨10, 5000, 5, 2500⟩ ∧ (s.read 1).stat = StatCfg.default := by
  decide

example : (Cfg.check { stat := ⟨10, 5000, 5, 2500⟩ }) = none := by decide
example : (Cfg.check { stat := ⟨10, 5000, 3, 2500⟩ }) = some "stat" := by decide

end Sentinel
