import Sentinel.World
import Mathlib.Tactic.FieldSimp
import Mathlib.Tactic.Ring
import Mathlib.Tactic.Linarith
import Mathlib.Tactic.Positivity
import Mathlib.Algebra.Order.Field.Basic
/-!
# C08 — warm-up ramps from threshold/coldFactor up to threshold, and cools when idle (PARTIAL)

What is proved here:
* structural theorems about the executable calculator `WarmUp.sync` / `WarmUp.allowed` (every state, every threshold,
  every clock value): tokens never exceed the maximum, one synchronisation per second boundary, no refill while
  saturated, refill when cold or under-used, an idle period whose refill covers the bucket makes it cold again,
  below the warning line the allowance is the full threshold;
* exact-arithmetic theorems about the formulas the `f64` code evaluates: the allowance formula lies in `[q/c, q]`
  (`allowedQ_bounds`), is antitone in the stored tokens (`allowedQ_antitone`), and a refill of `2·p` seconds at rate `q`
  covers the whole bucket (`max_token_le_two_periods`).
What is NOT proved (validated on every run instead, by the Spec oracle on the implementation's traces and the
bit-exact correspondence of the soft-float model): that the `f64` evaluation stays within rounding distance of the exact
formula, and the closed-loop trajectory (per-second admissions never decrease under saturating demand and reach `q`
within `2p+2` seconds), which feeds the measured previous-second QPS back into the calculator.
-/
set_option autoImplicit false
namespace Sentinel

/-! ## the executable calculator -/

/-- after any synchronisation the stored tokens never exceed the maximum -/
theorem sync_stored_le_max (s : WarmUp) (thr : F64) (now : Nat) (qps : F64) (h : s.stored ≤ s.maxToken) :
    (s.sync thr now qps).stored ≤ (s.sync thr now qps).maxToken := by
  by_cases h0 : now - now % 1000 ≤ s.lastFilled
  · simp only [WarmUp.sync, h0, if_true]; exact h
  · simp only [WarmUp.sync, h0, if_false]
    generalize (if (decide (s.stored < s.warning) || F64.lt qps (F64.floor (F64.div thr (F64.ofNat s.coldFactor)))) = true
          then s.stored + (F64.div (F64.mul (F64.ofNat (now - now % 1000 - s.lastFilled)) thr) (F64.ofNat 1000)).toNatFloor
          else s.stored) = x
    have := Nat.min_le_right x s.maxToken
    split <;> omega

/-- tokens are synchronised at most once per second boundary -/
theorem sync_once_per_second (s : WarmUp) (thr : F64) (now : Nat) (qps : F64) (h : now - now % 1000 ≤ s.lastFilled) :
    s.sync thr now qps = s := by
  simp only [WarmUp.sync, h, if_true]

/-- a synchronisation moves the fill time to the current second boundary, so a second call in the same second is a no-op -/
theorem sync_idempotent (s : WarmUp) (thr : F64) (now : Nat) (q1 q2 : F64) :
    ((s.sync thr now q1).sync thr now q2) = s.sync thr now q1 := by
  by_cases h : now - now % 1000 ≤ s.lastFilled
  · rw [sync_once_per_second s thr now q1 h, sync_once_per_second s thr now q2 h]
  · apply sync_once_per_second
    simp only [WarmUp.sync, h, if_false]
    exact Nat.le_refl _

/-- **No refill while saturated**: at or above the warning line, with the previous second's QPS not below ⌊q/c⌋, tokens only drain -/
theorem no_refill_when_saturated (s : WarmUp) (thr : F64) (now : Nat) (qps : F64)
    (hw : s.warning ≤ s.stored) (hq : F64.lt qps (F64.floor (F64.div thr (F64.ofNat s.coldFactor))) = false)
    (hm : s.stored ≤ s.maxToken) :
    (s.sync thr now qps).stored ≤ s.stored := by
  by_cases h0 : now - now % 1000 ≤ s.lastFilled
  · simp only [WarmUp.sync, h0, if_true]; exact Nat.le_refl _
  · have h1 : decide (s.stored < s.warning) = false := by simp; omega
    simp only [WarmUp.sync, h0, if_false, h1, hq, Bool.or_self, Bool.false_eq_true, Nat.min_eq_left hm]
    split <;> omega

/-- the drain is exactly the previous second's QPS (truncated), clamped at zero -/
theorem drain_by_previous_qps (s : WarmUp) (thr : F64) (now : Nat) (qps : F64)
    (hnew : s.lastFilled < now - now % 1000)
    (hw : s.warning ≤ s.stored) (hq : F64.lt qps (F64.floor (F64.div thr (F64.ofNat s.coldFactor))) = false)
    (hm : s.stored ≤ s.maxToken) :
    (s.sync thr now qps).stored = s.stored - qps.toNatFloor := by
  have h0 : ¬ (now - now % 1000 ≤ s.lastFilled) := by omega
  have h1 : decide (s.stored < s.warning) = false := by simp; omega
  simp only [WarmUp.sync, h0, if_false, h1, hq, Bool.or_self, Bool.false_eq_true, Nat.min_eq_left hm]
  split <;> omega

/-- **Refill when cold or under-used**: below the warning line, or when the previous second passed fewer than ⌊q/c⌋, the bucket
is refilled at rate `q` for the elapsed time (capped at the maximum) before the drain -/
theorem refill_when_cold_or_low (s : WarmUp) (thr : F64) (now : Nat) (qps : F64)
    (hnew : s.lastFilled < now - now % 1000)
    (h : s.stored < s.warning ∨ F64.lt qps (F64.floor (F64.div thr (F64.ofNat s.coldFactor))) = true) :
    let refill := (F64.div (F64.mul (F64.ofNat (now - now % 1000 - s.lastFilled)) thr) (F64.ofNat 1000)).toNatFloor
    (s.sync thr now qps).stored = min (s.stored + refill) s.maxToken - qps.toNatFloor := by
  have h0 : ¬ (now - now % 1000 ≤ s.lastFilled) := by omega
  have h1 : (decide (s.stored < s.warning) || F64.lt qps (F64.floor (F64.div thr (F64.ofNat s.coldFactor)))) = true := by
    rcases h with h | h
    · simp [h]
    · simp [h]
  simp only [WarmUp.sync, h0, if_false, h1, if_true]
  split <;> omega

/-- **Idle cools**: when nothing passed in the previous second and the elapsed-time refill covers the bucket, the calculator is
cold again (stored tokens = maximum) -/
theorem idle_cools (s : WarmUp) (thr : F64) (now : Nat) (qps : F64)
    (hnew : s.lastFilled < now - now % 1000)
    (hidle : qps.toNatFloor = 0) (hlow : F64.lt qps (F64.floor (F64.div thr (F64.ofNat s.coldFactor))) = true)
    (hcover : s.maxToken ≤ s.stored + (F64.div (F64.mul (F64.ofNat (now - now % 1000 - s.lastFilled)) thr) (F64.ofNat 1000)).toNatFloor) :
    (s.sync thr now qps).stored = s.maxToken := by
  have := refill_when_cold_or_low s thr now qps hnew (Or.inr hlow)
  simp only [] at this
  rw [this, hidle, Nat.min_eq_right hcover]; rfl

/-- below the warning line the allowance is the full threshold -/
theorem allowed_full_below_warning (s : WarmUp) (thr : F64) (h : s.stored < s.warning) : s.allowed thr = thr := by
  unfold WarmUp.allowed
  have : ¬ s.stored ≥ s.warning := by omega
  simp [this]

/-- the rule's decision uses the allowance: a warm-up/reject controller blocks iff window count + batch exceeds it -/
theorem warmup_step_decision (c : FlowCtrl) (s : WarmUp) (node : Node) (nowNs batch : Nat)
    (hc : c.calcr = .warmUp s) (hk : c.checker = .reject) :
    ((c.step node nowNs batch).2 = .pass ↔
      F64.ltNat ((s.sync c.thr (nowNs / 1000000) (c.qpsPrevious node (nowNs / 1000000))).allowed c.thr)
        (c.curCount node (nowNs / 1000000) + batch) = false) := by
  by_cases hcond : F64.ltNat ((s.sync c.thr (nowNs / 1000000) (c.qpsPrevious node (nowNs / 1000000))).allowed c.thr)
        (c.curCount node (nowNs / 1000000) + batch) = true
  · simp [FlowCtrl.step, FlowCtrl.allowed, hc, hk, FlowCtrl.curCount, hcond] at *
    all_goals (try simp [FlowCtrl.curCount] at hcond)
    all_goals (try simp [hcond])
  · have hcond' : F64.ltNat ((s.sync c.thr (nowNs / 1000000) (c.qpsPrevious node (nowNs / 1000000))).allowed c.thr)
        (c.curCount node (nowNs / 1000000) + batch) = false := by simpa using hcond
    simp [FlowCtrl.step, FlowCtrl.allowed, hc, hk, FlowCtrl.curCount] at *
    all_goals (try simp [FlowCtrl.curCount] at hcond')
    all_goals (try simp [hcond'])

/-! ## the exact formulas behind the float code -/

/-- **Allowance bounds** (exact arithmetic): with `W = max − warning` tokens above the warning line and slope
`(c−1)/q/W`, the allowance `1/(above·slope + 1/q)` lies between the cold rate `q/c` and the threshold `q` -/
theorem allowedQ_bounds (q c W above : ℚ) (hq : 0 < q) (hc : 1 < c) (hW : 0 < W) (h0 : 0 ≤ above) (hA : above ≤ W) :
    q / c ≤ 1 / (above * ((c - 1) / q / W) + 1 / q) ∧ 1 / (above * ((c - 1) / q / W) + 1 / q) ≤ q := by
  have hc0 : 0 < c := by linarith
  have hc1 : 0 < c - 1 := by linarith
  have hden : 0 < above * ((c - 1) / q / W) + 1 / q := by positivity
  constructor
  · rw [div_le_div_iff₀ hc0 hden]
    have : above * ((c - 1) / q / W) ≤ (c - 1) / q := by
      have : above * ((c - 1) / q / W) = (above / W) * ((c - 1) / q) := by field_simp
      rw [this]
      have h1 : above / W ≤ 1 := (div_le_one hW).mpr hA
      have h2 : 0 ≤ (c - 1) / q := by positivity
      nlinarith
    have e : (c - 1) / q + 1 / q = c / q := by field_simp; ring
    have : q * (above * ((c - 1) / q / W) + 1 / q) ≤ q * (c / q) := by
      apply mul_le_mul_of_nonneg_left _ hq.le
      linarith
    have e2 : q * (c / q) = c := by field_simp
    linarith
  · rw [div_le_iff₀ hden]
    have : q * (above * ((c - 1) / q / W) + 1 / q) = q * (above * ((c - 1) / q / W)) + 1 := by field_simp
    rw [this]
    have : 0 ≤ q * (above * ((c - 1) / q / W)) := by positivity
    linarith

/-- the cold end: with the bucket full (`above = W`) the allowance is exactly `q/c` -/
theorem allowedQ_cold (q c W : ℚ) (hq : 0 < q) (hc : 1 < c) (hW : 0 < W) :
    1 / (W * ((c - 1) / q / W) + 1 / q) = q / c := by
  have hc0 : c ≠ 0 := by linarith
  have hq0 : q ≠ 0 := ne_of_gt hq
  have hW0 : W ≠ 0 := ne_of_gt hW
  have e1 : W * ((c - 1) / q / W) = (c - 1) / q := by field_simp
  have e2 : (c - 1) / q + 1 / q = c / q := by field_simp; ring
  rw [e1, e2, one_div, inv_div]

/-- the warm end: at the warning line (`above = 0`) the allowance is exactly `q` -/
theorem allowedQ_warm (q c W : ℚ) (hq : 0 < q) : 1 / ((0 : ℚ) * ((c - 1) / q / W) + 1 / q) = q := by
  rw [zero_mul, zero_add, one_div_one_div]

/-- **The allowance never decreases as tokens drain** (exact arithmetic): fewer stored tokens ⇒ larger allowance -/
theorem allowedQ_antitone (q c W a b : ℚ) (hq : 0 < q) (hc : 1 < c) (hW : 0 < W) (h0 : 0 ≤ a) (hab : a ≤ b) :
    1 / (b * ((c - 1) / q / W) + 1 / q) ≤ 1 / (a * ((c - 1) / q / W) + 1 / q) := by
  have hc1 : 0 < c - 1 := by linarith
  have hs : 0 < (c - 1) / q / W := by positivity
  have hda : 0 < a * ((c - 1) / q / W) + 1 / q := by positivity
  have hb0 : 0 ≤ b := le_trans h0 hab
  have hdb : 0 < b * ((c - 1) / q / W) + 1 / q := by positivity
  apply one_div_le_one_div_of_le hda
  have : a * ((c - 1) / q / W) ≤ b * ((c - 1) / q / W) := mul_le_mul_of_nonneg_right hab hs.le
  linarith

/-- **Idle for `2·p` seconds refills everything**: the bucket capacity `⌊p·q/(c−1)⌋ + 2·⌊p·q/(c+1)⌋` never exceeds `2·p·q`, the
refill of `2·p` idle seconds at rate `q` (natural-number thresholds, `c ≥ 2`) -/
theorem max_token_le_two_periods (p q c : Nat) (hc : 2 ≤ c) :
    p * q / (c - 1) + 2 * (p * q / (c + 1)) ≤ 2 * p * q := by
  have h1 : p * q / (c - 1) ≤ p * q := Nat.div_le_self _ _
  have h2 : p * q / (c + 1) ≤ p * q / 3 := Nat.div_le_div_left (by omega) (by omega)
  have h3 : 2 * (p * q / 3) ≤ p * q := by omega
  have : 2 * p * q = p * q + p * q := by ring
  omega

/-! ## the closed loop, idealised (exact arithmetic, the measured previous-second rate equals the allowance) -/

/-- the allowance with `above` tokens over the warning line, exact arithmetic (the expression of `allowedQ_bounds`) -/
def allowQ (q c W above : ℚ) : ℚ := 1 / (above * ((c - 1) / q / W) + 1 / q)

/-- **Closed loop under saturating demand, idealised — PARTIAL for the property's "reaches q within 2p+2 s"**: `f k` is the
number of tokens above the warning line at second `k`. While it is positive `sync_token` refills nothing (the previous second's
admissions are at least the cold rate: `no_refill_when_saturated`) and drains exactly what was admitted, the allowance
(`drain_by_previous_qps`). Then the warning line — from which on the allowance is the full threshold `q`
(`allowed_full_below_warning`, `allowedQ_warm`) — is reached after at most `n` seconds as soon as `n · q/c ≥ W`.
What the idealisation leaves out: f64 rounding, the floors in `warning`/`max_token`, and the measured rate of the previous
*statistic* second standing in for the allowance; those are covered by the bit-exact validation only. -/
theorem closed_loop_ideal_reaches_warning_partial (q c W : ℚ) (hq : 0 < q) (hc : 1 < c) (hW : 0 < W)
    (f : ℕ → ℚ) (h0 : f 0 ≤ W) (hstep : ∀ k, 0 < f k → f (k + 1) = f k - allowQ q c W (f k))
    (n : ℕ) (hn : W ≤ n * (q / c)) : ∃ k, k ≤ n ∧ f k ≤ 0 := by
  by_contra hcon
  have hpos : ∀ k, k ≤ n → 0 < f k := by
    intro k hk
    by_contra h
    exact hcon ⟨k, hk, le_of_not_gt h⟩
  have hb : ∀ k, k ≤ n → f k ≤ W - k * (q / c) := by
    intro k
    induction k with
    | zero => intro _; simpa using h0
    | succ k ih =>
      intro hk
      have hk' : k ≤ n := Nat.le_of_succ_le hk
      have ihk := ih hk'
      have hp := hpos k hk'
      have hqc : 0 ≤ (k : ℚ) * (q / c) := by positivity
      have hle : f k ≤ W := by linarith
      have hall := (allowedQ_bounds q c W (f k) hq hc hW hp.le hle).1
      rw [hstep k hp]
      unfold allowQ
      push_cast
      linarith
  have := hb n (le_refl n)
  have := hpos n (le_refl n)
  linarith

/-- **The allowance never decreases while demand stays saturating (idealised loop) — PARTIAL as above**: while tokens remain above
the warning line each second drains a positive amount, so the next second's allowance is at least this second's -/
theorem closed_loop_ideal_allowance_monotone_partial (q c W : ℚ) (hq : 0 < q) (hc : 1 < c) (hW : 0 < W)
    (f : ℕ → ℚ) (hstep : ∀ k, 0 < f k → f (k + 1) = f k - allowQ q c W (f k)) (k : ℕ) (hk : 0 < f k) (hk1 : 0 ≤ f (k + 1)) :
    f (k + 1) ≤ f k ∧ allowQ q c W (f k) ≤ allowQ q c W (f (k + 1)) := by
  have hc1 : 0 < c - 1 := by linarith
  have hden : 0 < f k * ((c - 1) / q / W) + 1 / q := by positivity
  have hpos : 0 < allowQ q c W (f k) := by unfold allowQ; positivity
  have hle : f (k + 1) ≤ f k := by rw [hstep k hk]; linarith
  exact ⟨hle, by unfold allowQ; exact allowedQ_antitone q c W (f (k + 1)) (f k) hq hc hW hk1 hle⟩

/-- with the exact bucket geometry `W = 2·p·q/(c+1)` the bound is `2·p` seconds -/
theorem closed_loop_ideal_within_two_periods_partial (q c : ℚ) (p : ℕ) (hq : 0 < q) (hc : 1 < c) (hp : 0 < p)
    (f : ℕ → ℚ) (h0 : f 0 ≤ 2 * p * q / (c + 1))
    (hstep : ∀ k, 0 < f k → f (k + 1) = f k - allowQ q c (2 * p * q / (c + 1)) (f k)) :
    ∃ k, k ≤ 2 * p ∧ f k ≤ 0 := by
  have hp' : (0 : ℚ) < p := by exact_mod_cast hp
  have hc0 : 0 < c := by linarith
  have hW : 0 < 2 * p * q / (c + 1) := by positivity
  refine closed_loop_ideal_reaches_warning_partial q c _ hq hc hW f h0 hstep (2 * p) ?_
  push_cast
  rw [div_le_iff₀ (by linarith : (0 : ℚ) < c + 1)]
  have : 2 * (p : ℚ) * (q / c) * (c + 1) = 2 * p * q + 2 * p * q / c := by field_simp
  rw [this]
  have : 0 ≤ 2 * (p : ℚ) * q / c := by positivity
  linarith

/-- non-vacuity: the loop `f (k+1) = f k − allowQ (f k)` started on the full bucket, q = 100, c = 3, p = 1 (W = 50): below the line after 2 s -/
example : allowQ 100 3 50 50 = 100 / 3 ∧ (50 : ℚ) - 100 / 3 - allowQ 100 3 50 (50 - 100 / 3) ≤ 0 := by
  unfold allowQ; constructor <;> norm_num

/-! ## non-vacuity -/
example : (WarmUp.new (F64.ofNat 100) 3 3).warning = 150 ∧ (WarmUp.new (F64.ofNat 100) 3 3).maxToken = 300 := by decide
example : ((WarmUp.new (F64.ofNat 100) 3 3).sync (F64.ofNat 100) 1700000000000 F64.zero).stored = 300 := by decide

end Sentinel
