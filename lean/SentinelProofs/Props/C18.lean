import Sentinel.Codec
import Sentinel.MetricLine
/-!
# C18 — rules and metric lines survive serialisation round trips unchanged

Part A: the derive layer of the five rule types (schema-driven codec over JSON value trees).
Part B: `MetricItem`'s `Display` / `from_string`.
The JSON text layer (`serde_json`'s tokens, escapes and number formatting) is trusted, not modelled.
-/
set_option autoImplicit false
namespace Sentinel

/-! ## Part A — fields -/

theorem decodeMap_encode (m : List (String × Nat)) (h : m.all (fun p => decide (p.2 ≤ u64Max)) = true) :
    decodeMap (m.map (fun p => (p.1, JAtom.nat p.2))) = some m := by
  induction m with
  | nil => rfl
  | cons p rest ih =>
    simp only [List.all_cons, Bool.and_eq_true, decide_eq_true_eq] at h
    simp only [List.map_cons, decodeMap, h.1, if_true]
    rw [ih (by simpa using h.2)]
    rfl

/-- **one field**: what is written is read back, for every value of the field's type that can be written -/
theorem decode_encode (ty : FTy) (v : FVal) (h1 : ty.wellTyped v = true) (h2 : ty.serialisable v = true) :
    decode ty (encode v) = some v := by
  cases ty with
  | str => cases v <;> simp_all [FTy.wellTyped, encode, decode]
  | uint max =>
    cases v <;> simp_all [FTy.wellTyped, encode, decode]
  | sint mn mx =>
    cases v with
    | int i =>
      simp only [FTy.wellTyped, Bool.and_eq_true, decide_eq_true_eq] at h1
      by_cases hi : i < 0
      · simp only [encode, hi, if_true, decode]
        have : (-i).toNat ≤ mn := by omega
        simp only [this, if_true]
        congr 2
        omega
      · simp only [encode, hi, if_false, decode]
        have : i.toNat ≤ mx := by omega
        simp only [this, if_true]
        congr 2
        omega
    | _ => simp_all [FTy.wellTyped]
  | f64 =>
    cases v with
    | flt x => cases x <;> simp_all [FTy.serialisable, encode, decode]
    | _ => simp_all [FTy.wellTyped]
  | enm vs =>
    cases v with
    | enm s =>
      simp only [FTy.serialisable] at h2
      simp only [encode, decode, h2, if_true]
    | _ => simp_all [FTy.wellTyped]
  | mapU64 =>
    cases v with
    | map m =>
      simp only [FTy.wellTyped] at h1
      simp only [encode, decode, decodeMap_encode m h1, Option.map_some]
    | _ => simp_all [FTy.wellTyped]

/-- non-finite thresholds are written as `null` and do **not** read back: the round trip needs `serialisable` -/
theorem nan_does_not_round_trip : decode .f64 (encode (.flt .nan)) = none := rfl

/-- a skipped (`Custom`) variant name is not accepted on input -/
theorem custom_variant_rejected : decode (.enm ["Direct", "WarmUp", "MemoryAdaptive"]) (.atom (.str "Custom")) = none := by decide

/-- wrong JSON types are errors, not panics or silent defaults -/
theorem wrong_types_rejected :
    decode (.uint u32M) (.atom (.flt (.nonneg (F64.ofNat 5)))) = none ∧ decode (.uint u32M) (.atom (.neg 1)) = none ∧
    decode .str (.atom (.nat 5)) = none ∧ decode .f64 (.atom .null) = none ∧ decode .f64 (.atom (.str "5")) = none ∧
    decode .mapU64 .arr = none ∧ decode (.uint u32M) (.atom (.nat (u32M + 1))) = none := by
  refine ⟨rfl, rfl, rfl, rfl, rfl, rfl, ?_⟩
  simp [decode, u32M]

/-! ## Part A — documents -/

theorem lookupAll_append (a b : Doc) (k : String) : lookupAll (a ++ b) k = lookupAll a k ++ lookupAll b k := by
  simp [lookupAll, List.filter_append]

theorem lookupAll_nil_of_not_mem (d : Doc) (k : String) (h : k ∉ d.map (·.1)) : lookupAll d k = [] := by
  induction d with
  | nil => rfl
  | cons p rest ih =>
    simp only [List.map_cons, List.mem_cons, not_or] at h
    have : (p.1 == k) = false := by simpa using fun e => h.1 e.symm
    simp only [lookupAll, List.filter_cons, this] at ih ⊢
    exact ih h.2

/-- the fields named by `drop` removed from a document -/
def dropKeys (drop : String → Bool) (d : Doc) : Doc := d.filter (fun p => !drop p.1)

/-- the record with the dropped fields at their defaults -/
def withDefaults (drop : String → Bool) : Schema → Rec → Rec
  | f :: fs, v :: vs => (if drop f.name then f.dflt else v) :: withDefaults drop fs vs
  | _, _ => []

theorem keys_dropKeys_toDoc (drop : String → Bool) (fs : Schema) (vs : Rec) (k : String) (h : k ∉ fs.map (·.name)) :
    k ∉ (dropKeys drop (toDoc fs vs)).map (·.1) := by
  induction fs generalizing vs with
  | nil => simp [toDoc, dropKeys]
  | cons f fs ih =>
    cases vs with
    | nil => simp [toDoc, dropKeys]
    | cons v vs =>
      simp only [List.map_cons, List.mem_cons, not_or] at h
      simp only [toDoc, dropKeys, List.filter_cons]
      split
      · simp only [List.map_cons, List.mem_cons, not_or]
        exact ⟨h.1, ih vs h.2⟩
      · exact ih vs h.2

theorem fromDoc_dropped_aux (drop : String → Bool) (fs : Schema) (vs : Rec) (pre : Doc)
    (hn : (fs.map (·.name)).Nodup) (hw : Schema.wellTyped fs vs = true)
    (hpre : ∀ k ∈ fs.map (·.name), k ∉ pre.map (·.1)) :
    fromDoc fs (pre ++ dropKeys drop (toDoc fs vs)) = some (withDefaults drop fs vs) := by
  induction fs generalizing vs pre with
  | nil => cases vs <;> simp [fromDoc, withDefaults]
  | cons f fs ih =>
    cases vs with
    | nil => simp [Schema.wellTyped] at hw
    | cons v vs =>
      simp only [Schema.wellTyped, Bool.and_eq_true] at hw
      simp only [List.map_cons, List.nodup_cons] at hn
      have hpre_f : f.name ∉ pre.map (·.1) := hpre f.name (by simp)
      have hpre_fs : ∀ k ∈ fs.map (·.name), k ∉ pre.map (·.1) := fun k hk => hpre k (by simp [hk])
      have hrest : lookupAll (dropKeys drop (toDoc fs vs)) f.name = [] :=
        lookupAll_nil_of_not_mem _ _ (keys_dropKeys_toDoc drop fs vs f.name hn.1)
      by_cases hd : drop f.name = true
      · -- the field was dropped: it takes its default
        have hdoc : dropKeys drop (toDoc (f :: fs) (v :: vs)) = dropKeys drop (toDoc fs vs) := by
          simp [toDoc, dropKeys, List.filter_cons, hd]
        rw [hdoc]
        unfold fromDoc
        rw [lookupAll_append, lookupAll_nil_of_not_mem pre _ hpre_f, hrest]
        simp only [List.append_nil]
        rw [ih vs pre hn.2 hw.2 hpre_fs]
        simp [withDefaults, hd]
      · have hd' : drop f.name = false := by simpa using hd
        have hdoc : pre ++ dropKeys drop (toDoc (f :: fs) (v :: vs)) = (pre ++ [(f.name, encode v)]) ++ dropKeys drop (toDoc fs vs) := by
          simp [toDoc, dropKeys, List.filter_cons, hd']
        rw [hdoc]
        unfold fromDoc
        rw [lookupAll_append, lookupAll_append, lookupAll_nil_of_not_mem pre _ hpre_f, hrest]
        have : lookupAll [(f.name, encode v)] f.name = [encode v] := by simp [lookupAll]
        rw [this]
        simp only [List.nil_append, List.append_nil]
        rw [decode_encode f.ty v hw.1.1 hw.1.2]
        simp only []
        rw [ih vs (pre ++ [(f.name, encode v)]) hn.2 hw.2 (by
          intro k hk
          simp only [List.map_append, List.map_cons, List.map_nil, List.mem_append, List.mem_singleton, not_or]
          exact ⟨hpre_fs k hk, fun e => hn.1 (e ▸ hk)⟩)]
        simp [withDefaults, hd']

/-- **Missing fields take their defaults**: with any set of fields removed from the serialised rule, parsing yields the rule
with exactly those fields at their `Default` values. -/
theorem missing_fields_default (sch : Schema) (rec : Rec) (drop : String → Bool)
    (hn : (sch.map (·.name)).Nodup) (hw : Schema.wellTyped sch rec = true) :
    fromDoc sch (dropKeys drop (toDoc sch rec)) = some (withDefaults drop sch rec) := by
  have := fromDoc_dropped_aux drop sch rec [] hn hw (by simp)
  simpa using this

theorem withDefaults_none (sch : Schema) (rec : Rec) (hw : Schema.wellTyped sch rec = true) :
    withDefaults (fun _ => false) sch rec = rec := by
  induction sch generalizing rec with
  | nil => cases rec <;> simp_all [withDefaults, Schema.wellTyped]
  | cons f fs ih =>
    cases rec with
    | nil => simp [Schema.wellTyped] at hw
    | cons v vs =>
      simp only [Schema.wellTyped, Bool.and_eq_true] at hw
      simp [withDefaults, ih vs hw.2]

/-- **Round trip**: every well-typed, serialisable rule record parses back to itself — all fields, not only those its
`PartialEq` looks at; so it is enforced identically (enforcement is a function of the fields). -/
theorem rule_roundtrip (sch : Schema) (rec : Rec) (hn : (sch.map (·.name)).Nodup) (hw : Schema.wellTyped sch rec = true) :
    fromDoc sch (toDoc sch rec) = some rec := by
  have := missing_fields_default sch rec (fun _ => false) hn hw
  rw [withDefaults_none sch rec hw] at this
  have hf : dropKeys (fun _ => false) (toDoc sch rec) = toDoc sch rec := by
    unfold dropKeys; exact List.filter_eq_self.mpr (by intros; rfl)
  rw [hf] at this
  exact this

/-- the order of the fields in the document does not matter -/
theorem fromDoc_perm (sch : Schema) (d d' : Doc) (h : d.Perm d') : fromDoc sch d = fromDoc sch d' := by
  induction sch with
  | nil => rfl
  | cons f fs ih =>
    have hp : (lookupAll d f.name).Perm (lookupAll d' f.name) := (h.filter _).map _
    unfold fromDoc
    rw [ih]
    cases h1 : lookupAll d f.name with
    | nil =>
      rw [h1] at hp
      rw [List.nil_perm.mp hp]
    | cons a t =>
      cases t with
      | nil =>
        rw [h1] at hp
        rw [← List.singleton_perm.mp hp]
      | cons b t' =>
        rw [h1] at hp
        have hl := hp.length_eq
        cases h2 : lookupAll d' f.name with
        | nil => rw [h2] at hl; simp at hl
        | cons a' t2 =>
          cases t2 with
          | nil => rw [h2] at hl; simp at hl
          | cons b' t3 => rfl

/-- unknown keys are ignored -/
theorem fromDoc_ignores_unknown (sch : Schema) (d : Doc) (k : String) (v : JVal) (h : k ∉ sch.map (·.name)) :
    fromDoc sch ((k, v) :: d) = fromDoc sch d := by
  induction sch with
  | nil => rfl
  | cons f fs ih =>
    simp only [List.map_cons, List.mem_cons, not_or] at h
    have hk : (k == f.name) = false := by simpa using h.1
    unfold fromDoc
    have : lookupAll ((k, v) :: d) f.name = lookupAll d f.name := by
      simp [lookupAll, List.filter_cons, hk]
    rw [this, ih h.2]

/-- a field given twice is an error -/
theorem duplicate_field_error (sch : Schema) (d : Doc) (f : Field) (hf : f ∈ sch) (h : 2 ≤ (lookupAll d f.name).length) :
    fromDoc sch d = none := by
  induction sch with
  | nil => cases hf
  | cons g gs ih =>
    unfold fromDoc
    rcases List.mem_cons.mp hf with e | e
    · subst e
      cases h1 : lookupAll d f.name with
      | nil => rw [h1] at h; simp at h
      | cons a t =>
        cases t with
        | nil => rw [h1] at h; simp at h
        | cons b t' => rfl
    · rw [ih e]
      cases lookupAll d g.name with
      | nil => rfl
      | cons a t =>
        cases t with
        | nil => simp only []; cases decode g.ty a <;> rfl
        | cons b t' => rfl

/-- a value of the wrong type (or out of range) for a field is an error -/
theorem wrong_type_error (sch : Schema) (d : Doc) (f : Field) (v : JVal) (hf : f ∈ sch)
    (hn : (sch.map (·.name)).Nodup) (h : lookupAll d f.name = [v]) (hd : decode f.ty v = none) :
    fromDoc sch d = none := by
  induction sch with
  | nil => cases hf
  | cons g gs ih =>
    unfold fromDoc
    simp only [List.map_cons, List.nodup_cons] at hn
    rcases List.mem_cons.mp hf with e | e
    · subst e
      rw [h]; simp only [hd]
    · rw [ih e hn.2]
      cases lookupAll d g.name with
      | nil => rfl
      | cons a t =>
        cases t with
        | nil => simp only []; cases decode g.ty a <;> rfl
        | cons b t' => rfl

/-- a rule list parses iff every element does; one malformed element makes the whole update an error -/
theorem fromDocs_all (s : Schema) (ds : List Doc) : (fromDocs s ds).isSome = ds.all (fun d => (fromDoc s d).isSome) := by
  induction ds with
  | nil => rfl
  | cons d rest ih =>
    simp only [fromDocs, List.all_cons]
    cases h : fromDoc s d with
    | none => simp
    | some r =>
      simp only [Option.isSome_some, Bool.true_and]
      rw [← ih]
      cases fromDocs s rest <;> rfl

/-! the five schemas have distinct field names, so the theorems apply to them -/

theorem flowSchema_nodup : (flowSchema.map (·.name)).Nodup := by decide
theorem brSchema_nodup : (brSchema.map (·.name)).Nodup := by decide
theorem hsSchema_nodup : (hsSchema.map (·.name)).Nodup := by decide
theorem isoSchema_nodup : (isoSchema.map (·.name)).Nodup := by decide
theorem sysSchema_nodup : (sysSchema.map (·.name)).Nodup := by decide

/-- the round trip for the five rule types -/
theorem all_families_roundtrip (fam : String) (sch : Schema) (rec : Rec) (hs : schemaOf fam = some sch)
    (hw : Schema.wellTyped sch rec = true) : fromDoc sch (toDoc sch rec) = some rec := by
  have hn : (sch.map (·.name)).Nodup := by
    unfold schemaOf at hs
    split at hs <;> first | (cases hs; first | exact flowSchema_nodup | exact brSchema_nodup | exact hsSchema_nodup | exact isoSchema_nodup | exact sysSchema_nodup) | cases hs
  exact rule_roundtrip sch rec hn hw

/-! ## Part B — metric lines -/

theorem digitVal_digitChar (d : Nat) (h : d < 10) : digitVal? (digitChar d) = some d := by
  have : d = 0 ∨ d = 1 ∨ d = 2 ∨ d = 3 ∨ d = 4 ∨ d = 5 ∨ d = 6 ∨ d = 7 ∨ d = 8 ∨ d = 9 := by omega
  rcases this with rfl | rfl | rfl | rfl | rfl | rfl | rfl | rfl | rfl | rfl <;> decide

theorem digitChar_ne_bar (d : Nat) : digitChar d ≠ '|' := by
  unfold digitChar; split <;> decide

theorem digitChar_ne_plus (d : Nat) : digitChar d ≠ '+' := by
  unfold digitChar; split <;> decide

theorem parseDigitsAux_append (xs ys : List Char) (acc : Nat) :
    parseDigitsAux (xs ++ ys) acc = (parseDigitsAux xs acc).bind (fun a => parseDigitsAux ys a) := by
  induction xs generalizing acc with
  | nil => rfl
  | cons c cs ih =>
    simp only [List.cons_append, parseDigitsAux]
    cases digitVal? c with
    | none => rfl
    | some d => exact ih _

/-- value of a digit list, least significant first -/
def valLS : List Nat → Nat
  | [] => 0
  | d :: ds => d + 10 * valLS ds

theorem parse_rev_digits (ds : List Nat) (h : ∀ d ∈ ds, d < 10) (acc : Nat) :
    parseDigitsAux (ds.reverse.map digitChar) acc = some (acc * 10 ^ ds.length + valLS ds) := by
  induction ds generalizing acc with
  | nil => simp [parseDigitsAux, valLS]
  | cons d ds ih =>
    have hd : d < 10 := h d (by simp)
    rw [List.reverse_cons, List.map_append, parseDigitsAux_append, ih (fun x hx => h x (by simp [hx])) acc]
    simp only [Option.bind_some, List.map_cons, List.map_nil, parseDigitsAux, digitVal_digitChar d hd]
    congr 1
    simp only [valLS, List.length_cons, Nat.pow_succ, Nat.add_mul]
    rw [Nat.mul_assoc]
    omega

theorem revDigits_spec (fuel n : Nat) (h : n < fuel) :
    valLS (revDigits fuel n) = n ∧ (∀ d ∈ revDigits fuel n, d < 10) ∧ revDigits fuel n ≠ [] := by
  induction fuel generalizing n with
  | zero => omega
  | succ f ih =>
    unfold revDigits
    by_cases h10 : n < 10
    · simp [h10, valLS]
    · simp only [h10, if_false]
      have hlt : n / 10 < f := by omega
      obtain ⟨h1, h2, _⟩ := ih (n / 10) hlt
      refine ⟨?_, ?_, by simp⟩
      · simp only [valLS, h1]; omega
      · intro d hd
        rcases List.mem_cons.mp hd with e | e
        · omega
        · exact h2 d e

/-- printed numbers contain only digits -/
theorem printNat_no_bar (n : Nat) : '|' ∉ printNat n := by
  unfold printNat
  intro h
  obtain ⟨d, _, hd⟩ := List.mem_map.mp h
  exact digitChar_ne_bar d hd

/-- **numbers**: what `Display` prints, `parse` reads back (within the type's range) -/
theorem parseNatB_printNat (bound n : Nat) (h : n ≤ bound) : parseNatB bound (printNat n) = some n := by
  obtain ⟨h1, h2, h3⟩ := revDigits_spec (n + 1) n (by omega)
  have hparse : parseDigitsAux (printNat n) 0 = some n := by
    unfold printNat
    rw [parse_rev_digits _ h2 0, h1]; simp
  -- the first character is a digit, not a sign
  have hne : (revDigits (n + 1) n).reverse ≠ [] := by simpa using h3
  obtain ⟨x, xs, hx⟩ := List.exists_cons_of_ne_nil hne
  have hp : printNat n = digitChar x :: xs.map digitChar := by unfold printNat; rw [hx]; rfl
  have hstrip : stripPlus (printNat n) = printNat n := by
    rw [hp]
    unfold stripPlus
    split
    · rename_i r heq
      have := (List.cons.inj heq).1
      exact absurd this (digitChar_ne_plus x)
    · rfl
  unfold parseNatB
  rw [hstrip]
  have : (printNat n).isEmpty = false := by rw [hp]; rfl
  simp only [this, Bool.false_eq_true, if_false, hparse, h, if_true]

theorem splitBar_noBar (f : List Char) (h : '|' ∉ f) : splitBar f = [f] := by
  induction f with
  | nil => rfl
  | cons c cs ih =>
    simp only [List.mem_cons, not_or] at h
    have hc : c ≠ '|' := fun e => h.1 e.symm
    simp only [splitBar, hc, if_false, ih h.2]

theorem splitBar_field (f rest : List Char) (h : '|' ∉ f) : splitBar (f ++ '|' :: rest) = f :: splitBar rest := by
  induction f with
  | nil => simp [splitBar]
  | cons c cs ih =>
    simp only [List.mem_cons, not_or] at h
    have hc : c ≠ '|' := fun e => h.1 e.symm
    simp only [List.cons_append, splitBar, hc, if_false, ih h.2]

/-- **fields**: splitting the joined fields gives the fields back, provided no field contains the separator -/
theorem splitBar_joinBar (fs : List (List Char)) (hne : fs ≠ []) (h : ∀ f ∈ fs, '|' ∉ f) : splitBar (joinBar fs) = fs := by
  induction fs with
  | nil => exact absurd rfl hne
  | cons f rest ih =>
    cases rest with
    | nil => exact splitBar_noBar f (h f (by simp))
    | cons g rest' =>
      simp only [joinBar]
      rw [splitBar_field f _ (h f (by simp)), ih (by simp) (fun x hx => h x (by simp [hx]))]

theorem sanitize_no_bar (cs : List Char) : '|' ∉ sanitize cs := by
  unfold sanitize
  intro h
  obtain ⟨c, _, hc⟩ := List.mem_map.mp h
  by_cases e : c = '|'
  · simp [e] at hc
  · simp only [e, if_false] at hc

/-- the separator replacement leaves names without a separator untouched -/
theorem sanitize_id (cs : List Char) (h : '|' ∉ cs) : sanitize cs = cs := by
  induction cs with
  | nil => rfl
  | cons c rest ih =>
    simp only [List.mem_cons, not_or] at h
    have hc : c ≠ '|' := fun e => h.1 e.symm
    simp only [sanitize, List.map_cons, hc, if_false] at ih ⊢
    rw [ih h.2]

theorem timeStr_no_bar (ts : Nat) : '|' ∉ timeStr ts := by
  unfold timeStr pad2
  simp only [List.cons_append, List.nil_append, List.mem_cons, List.not_mem_nil, or_false, not_or]
  refine ⟨fun e => digitChar_ne_bar _ e.symm, fun e => digitChar_ne_bar _ e.symm, by decide, fun e => digitChar_ne_bar _ e.symm,
    fun e => digitChar_ne_bar _ e.symm, by decide, fun e => digitChar_ne_bar _ e.symm, fun e => digitChar_ne_bar _ e.symm⟩

/-- an item within the ranges of its Rust field types -/
def MItem.inRange (it : MItem) : Prop :=
  it.ts ≤ u64MaxL ∧ it.pass ≤ u64MaxL ∧ it.block ≤ u64MaxL ∧ it.complete ≤ u64MaxL ∧ it.error ≤ u64MaxL ∧ it.rt ≤ u64MaxL ∧
  it.occupied ≤ u64MaxL ∧ it.conc ≤ u32MaxL ∧ it.rtype ≤ 6

/-- **Every metric-log line produced for a metric item parses back to the same item, the resource name being altered only
by the replacement of the field separator.** -/
theorem line_roundtrip (it : MItem) (h : it.inRange) :
    MItem.fromLine it.toLine = some { it with resource := sanitize it.resource } := by
  obtain ⟨h0, h1, h2, h3, h4, h5, h6, h7, h8⟩ := h
  have hsplit : splitBar it.toLine =
      [printNat it.ts, timeStr it.ts, sanitize it.resource, printNat it.pass, printNat it.block, printNat it.complete,
        printNat it.error, printNat it.rt, printNat it.occupied, printNat it.conc, printNat it.rtype] := by
    unfold MItem.toLine
    apply splitBar_joinBar _ (by simp)
    intro f hf
    simp only [List.mem_cons, List.not_mem_nil, or_false] at hf
    rcases hf with e | e | e | e | e | e | e | e | e | e | e <;> subst e <;>
      first | exact printNat_no_bar _ | exact timeStr_no_bar _ | exact sanitize_no_bar _
  have hne : it.toLine.isEmpty = false := by
    cases hl : it.toLine with
    | nil => rw [hl] at hsplit; simp [splitBar] at hsplit
    | cons _ _ => rfl
  unfold MItem.fromLine
  simp only [hne, Bool.false_eq_true, if_false, hsplit]
  simp only [List.length_cons, List.length_nil, List.getD_cons_zero, List.getD_cons_succ,
    parseNatB_printNat u64MaxL _ h0, parseNatB_printNat u64MaxL _ h1, parseNatB_printNat u64MaxL _ h2,
    parseNatB_printNat u64MaxL _ h3, parseNatB_printNat u64MaxL _ h4, parseNatB_printNat u64MaxL _ h5,
    parseNatB_printNat u64MaxL _ h6, parseNatB_printNat u32MaxL _ h7, parseNatB_printNat 255 it.rtype (by omega)]
  have hr : rtypeOfU8 it.rtype = it.rtype := by unfold rtypeOfU8; split <;> omega
  simp [hr]

/-- an empty line and a line with fewer than eight fields are errors (never a panic: `fromLine` is total) -/
theorem short_lines_rejected : MItem.fromLine [] = none ∧ MItem.fromLine "1564382218000|14:36:58|/foo/*|4".toList = none := by
  constructor <;> decide

example : MItem.inRange ⟨"a|b".toList, 3, 1564382218123, 4, 9, 3, 0, 25, 0, 2⟩ := by
  unfold MItem.inRange u64MaxL u32MaxL; decide

end Sentinel
