import Sentinel.Breaker
import Sentinel.BreakerSpec
import SentinelProofs.Lemmas.Ring
/-!
# C03 — circuit breakers follow the Closed / Open / Half-Open state machine

Theorems about `Sentinel/Breaker.lean` for every strategy, every rule (any `min_request_amount`, threshold, bucket
count, retry timeout), every state and every clock value.
-/
set_option autoImplicit false
namespace Sentinel
namespace Breaker

/-! ## requests -/

/-- **Open rejects until the retry timeout has elapsed**, without changing anything -/
theorem open_rejects_until_retry (b : Breaker) (now : Nat) (hs : b.state = .opn) (ht : now < b.nextRetry) :
    b.tryPass now = (b, false, [], false) := by
  unfold tryPass
  rw [hs]
  have : ¬ now ≥ b.nextRetry := by omega
  simp [this]

/-- at or after the retry deadline the first request becomes the probe: admitted, breaker Half-Open, one notification
with previous state Open, and the rollback hook is registered on that entry -/
theorem open_lets_one_probe_through (b : Breaker) (now : Nat) (hs : b.state = .opn) (ht : b.nextRetry ≤ now) :
    b.tryPass now = ({ b with state := .halfOpen }, true, [⟨.halfOpen, .opn, b.rule.id, "-"⟩], true) := by
  unfold tryPass
  rw [hs]
  simp [ht]

/-- while Half-Open every further request is rejected (so exactly one probe per Half-Open phase) -/
theorem half_open_rejects (b : Breaker) (now : Nat) (hs : b.state = .halfOpen) :
    b.tryPass now = (b, false, [], false) := by
  unfold tryPass; rw [hs]

/-- Closed admits everything and does nothing else -/
theorem closed_admits (b : Breaker) (now : Nat) (hs : b.state = .closed) : b.tryPass now = (b, true, [], false) := by
  unfold tryPass; rw [hs]

/-- **No pass while Open before the deadline, no second probe**: an admission means Closed, or Open with the deadline reached -/
theorem admitted_only_if (b : Breaker) (now : Nat) (h : (b.tryPass now).2.1 = true) :
    b.state = .closed ∨ (b.state = .opn ∧ b.nextRetry ≤ now) := by
  unfold tryPass at h
  cases hs : b.state with
  | closed => exact Or.inl rfl
  | halfOpen => rw [hs] at h; cases h
  | opn =>
    rw [hs] at h
    by_cases ht : now ≥ b.nextRetry
    · exact Or.inr ⟨rfl, ht⟩
    · simp [ht] at h

/-- a probe that is itself rejected (by another rule or a second breaker) returns the breaker to Open; the retry deadline
is not renewed; one notification with previous state Half-Open -/
theorem blocked_probe_reopens (b : Breaker) (hs : b.state = .halfOpen) :
    b.rollback true = ({ b with state := .opn }, [⟨.opn, .halfOpen, b.rule.id, "1"⟩]) := by
  unfold rollback; rw [hs]; rfl

/-- the hook does nothing when the entry passed, or when the breaker already left Half-Open -/
theorem rollback_noop (b : Breaker) (blocked : Bool) (h : blocked = false ∨ b.state ≠ .halfOpen) :
    b.rollback blocked = (b, []) := by
  unfold rollback
  rcases h with h | h
  · rw [h]; rfl
  · have : (b.state == BState.halfOpen) = false := by
      cases hs : b.state <;> simp_all
    rw [this]; simp

/-! ## completions -/

/-- **The probe's outcome decides** — a completion during Half-Open that counts against the breaker re-opens it with a new
retry deadline; one that does not closes it and empties the statistics of the current window -/
theorem probe_outcome_decides (b : Breaker) (now rt : Nat) (err : Bool) (ring' : List (Slot BCounter))
    (hs : b.state = .halfOpen) (hw : b.recorded now rt err = some ring') :
    b.onComplete now rt err =
      if b.counts rt err then
        ({ b with ring := ring', state := .opn, nextRetry := now + b.rule.retryMs }, [⟨.opn, .halfOpen, b.rule.id, "1"⟩])
      else
        ((({ b with ring := ring', state := .closed } : Breaker)).resetMetric now, [⟨.closed, .halfOpen, b.rule.id, "-"⟩]) := by
  unfold onComplete
  simp only [hw, hs]
  try (split <;> rfl)

/-- **Closing clears the statistics**: after `reset_metric` every counter that can be read now is zero -/
theorem closing_clears_stats (b : Breaker) (now : Nat) : (b.resetMetric now).totals now = (0, 0) := by
  unfold resetMetric totals foldSlots
  simp only []
  suffices h : ∀ (l : List Nat) (acc : Nat × Nat), acc = (0, 0) →
      l.foldl (fun (acc : Nat × Nat) i =>
        let s := slotAt BCounter.zero (b.ring.map (fun s => if validAt b.rule.geo now s.stamp = true then { s with val := BCounter.zero } else s)) i
        if validAt b.rule.geo now s.stamp = true then (acc.1 + s.val.target, acc.2 + s.val.total) else acc) acc = (0, 0) from h _ _ rfl
  intro l
  induction l with
  | nil => intro acc h; exact h
  | cons i l ih =>
    intro acc hacc
    simp only [List.foldl_cons]
    apply ih
    subst hacc
    unfold slotAt
    simp only [List.getD, List.getElem?_map]
    cases hg : b.ring[i]? with
    | none => simp [validAt, deprecated, BCounter.zero]
    | some s =>
      simp only [Option.map_some, Option.getD_some]
      by_cases hv : validAt b.rule.geo now s.stamp = true
      · simp [hv, BCounter.zero]
      · simp [hv]

/-- **Opens only when the threshold is met** — a completion in Closed opens the breaker iff, counting this completion, the
window holds at least `min_request_amount` completions and the slow/error ratio (or error count) reaches the threshold -/
theorem opens_only_when_threshold_met (b : Breaker) (now rt : Nat) (err : Bool) (ring' : List (Slot BCounter))
    (hs : b.state = .closed) (hw : b.recorded now rt err = some ring') :
    let b1 : Breaker := { b with ring := ring' }
    let met := (b1.thresholdMet (b1.totals now).1 (b1.totals now).2).1
    ((b.onComplete now rt err).1.state = .opn ↔ met = true) ∧
    (met = true → (b.onComplete now rt err).1.nextRetry = now + b.rule.retryMs) ∧
    (met = false → b.onComplete now rt err = (b1, [])) := by
  unfold onComplete
  simp only [hw, hs]
  cases hm : (({ b with ring := ring' } : Breaker).thresholdMet (({ b with ring := ring' } : Breaker).totals now).1
      (({ b with ring := ring' } : Breaker).totals now).2) with
  | mk trip snap =>
    simp only [hs] at hm
    cases trip <;> simp [hm]

/-- what "threshold met" means, strategy by strategy: enough completions in the window AND
error count ≥ ⌊threshold⌋ (error-count) / ratio target/total not below the threshold (ratio strategies, as `f64`) -/
theorem thresholdMet_spelled (b : Breaker) (target total : Nat) :
    (b.thresholdMet target total).1 = true ↔
      total ≥ b.rule.minReq ∧
      (match b.rule.strategy with
        | .errorCount => target ≥ b.rule.thr.toNatFloor
        | _ => F64.lt (F64.div (F64.ofNat target) (F64.ofNat total)) b.rule.thr = false) := by
  unfold thresholdMet
  cases b.rule.strategy <;> simp

/-- a completion while Open only records statistics -/
theorem open_completion_only_counts (b : Breaker) (now rt : Nat) (err : Bool) (ring' : List (Slot BCounter))
    (hs : b.state = .opn) (hw : b.recorded now rt err = some ring') :
    b.onComplete now rt err = ({ b with ring := ring' }, []) := by
  unfold onComplete
  simp only [hw, hs]

/-! ## notifications -/

/-- a notification is well-formed w.r.t. a step: it announces exactly the change `before → after` -/
def Announces (before after : BState) (evs : List BEvent) (id : String) : Prop :=
  (before = after ∧ evs = []) ∨ (before ≠ after ∧ ∃ snap, evs = [⟨after, before, id, snap⟩])

/-- **Every state change is announced exactly once with the correct previous state** (request side) -/
theorem tryPass_announces (b : Breaker) (now : Nat) :
    Announces b.state (b.tryPass now).1.state (b.tryPass now).2.2.1 b.rule.id := by
  unfold tryPass Announces
  cases hs : b.state with
  | closed => simp [hs]
  | halfOpen => simp [hs]
  | opn =>
    by_cases ht : now ≥ b.nextRetry
    · simp [ht]
    · simp [ht, hs]

theorem rollback_announces (b : Breaker) (blocked : Bool) :
    Announces b.state (b.rollback blocked).1.state (b.rollback blocked).2 b.rule.id := by
  unfold rollback Announces
  cases blocked <;> cases hs : b.state <;> simp [hs]

theorem resetMetric_state (b : Breaker) (now : Nat) : (b.resetMetric now).state = b.state := rfl

/-- … and on the completion side, for all three strategies -/
theorem onComplete_announces (b : Breaker) (now rt : Nat) (err : Bool) :
    Announces b.state (b.onComplete now rt err).1.state (b.onComplete now rt err).2 b.rule.id := by
  unfold onComplete Announces
  cases hw : b.recorded now rt err with
  | none => simp
  | some ring' =>
    simp only []
    cases hs : b.state with
    | opn => simp
    | halfOpen => simp only []; split <;> simp [resetMetric_state]
    | closed =>
      simp only []
      cases hm : (({ b with ring := ring' } : Breaker).thresholdMet (({ b with ring := ring' } : Breaker).totals now).1
          (({ b with ring := ring' } : Breaker).totals now).2) with
      | mk trip snap =>
        simp only [hs] at hm
        cases trip <;> simp [hm]

end Breaker

/-! ## the statistic window: what `totals` reads is the completion history of the last `n` buckets -/

/-- how a completion updates a counter (`hit` = counted as slow / failed) -/
def bApp (c : BCounter) (hit : Bool) : BCounter :=
  { target := if hit then c.target + 1 else c.target, total := c.total + 1 }

theorem foldl_pair_split (l : List Nat) (c : Nat → Bool) (f h : Nat → Nat) (a0 b0 : Nat) :
    l.foldl (fun (acc : Nat × Nat) i => if c i then (acc.1 + f i, acc.2 + h i) else acc) (a0, b0)
      = (l.foldl (fun acc i => if c i then acc + f i else acc) a0, l.foldl (fun acc i => if c i then acc + h i else acc) b0) := by
  induction l generalizing a0 b0 with
  | nil => rfl
  | cons x l ih =>
    simp only [List.foldl_cons]
    by_cases hc : c x = true
    · simp only [hc, if_true]; exact ih _ _
    · simp only [hc]; exact ih _ _

theorem foldl_congr_range (n : Nat) (c c' : Nat → Bool) (f : Nat → Nat) (a0 : Nat)
    (h : ∀ i, i < n → c i = c' i) :
    (List.range n).foldl (fun acc i => if c i then acc + f i else acc) a0
      = (List.range n).foldl (fun acc i => if c' i then acc + f i else acc) a0 := by
  have : ∀ (l : List Nat) (a : Nat), (∀ i ∈ l, i < n) →
      l.foldl (fun acc i => if c i then acc + f i else acc) a = l.foldl (fun acc i => if c' i then acc + f i else acc) a := by
    intro l
    induction l with
    | nil => intro a _; rfl
    | cons x l ih =>
      intro a hl
      simp only [List.foldl_cons]
      rw [h x (hl x List.mem_cons_self)]
      exact ih _ (fun i hi => hl i (List.mem_cons_of_mem _ hi))
  exact this _ _ (fun i hi => List.mem_range.mp hi)

/-- **Within the statistic window**: right after a completion was recorded at `now`, the totals the breaker compares with
its thresholds are exactly (number of counted completions, number of completions) among the recorded completions whose
bucket lies in the last `n` buckets `[start now − interval + L, start now]` — nothing older, nothing missed. This holds
for every history of completions with non-decreasing times (ring invariant, `ring_inv_write`). -/
theorem totals_eq_window (g : Geo) (hn : 0 < g.n) (hL : 0 < g.L) (ring : List (Slot BCounter))
    (evs : List (Nat × Bool)) (now : Nat) (hit : Bool)
    (hinv : RingInv bApp BCounter.zero g ring ((now, hit) :: evs) now) (hguard : g.interval < g.start now) :
    foldSlots BCounter.zero g ring (validAt g now) (fun (acc : Nat × Nat) c => (acc.1 + c.target, acc.2 + c.total)) (0, 0)
      = (((((now, hit) :: evs).filter (fun e => g.start now - g.interval + g.L ≤ g.start e.1 && g.start e.1 ≤ g.start now)).map
            (fun e => if e.2 then 1 else 0)).sum,
         ((((now, hit) :: evs).filter (fun e => g.start now - g.interval + g.L ≤ g.start e.1 && g.start e.1 ≤ g.start now)).map
            (fun _ => 1)).sum) := by
  unfold foldSlots
  have hsplit := foldl_pair_split (List.range g.n) (fun i => validAt g now (slotAt BCounter.zero ring i).stamp)
    (fun i => (slotAt BCounter.zero ring i).val.target) (fun i => (slotAt BCounter.zero ring i).val.total) 0 0
  try simp only [] at hsplit ⊢
  rw [hsplit]
  have hv := fun i hi => validAt_iff_inWin_after_write bApp BCounter.zero g hn hL ring evs now hit hinv hguard i hi
  rw [foldl_congr_range g.n _ (fun i => inWin g g.interval now (slotAt BCounter.zero ring i).stamp) _ 0 hv,
      foldl_congr_range g.n _ (fun i => inWin g g.interval now (slotAt BCounter.zero ring i).stamp) _ 0 hv]
  have hIle : g.interval ≤ g.start now := Nat.le_of_lt hguard
  have hres : g.start now < (g.start now - g.interval + g.L) + g.interval := by omega
  have h1 := ring_window_sum bApp BCounter.zero g hn hL ring ((now, hit) :: evs) now (fun c => c.target) (fun h => if h then 1 else 0)
    rfl (by intro b e; cases e <;> simp [bApp]) hinv g.interval now (Nat.le_refl _) hIle hres
  have h2 := ring_window_sum bApp BCounter.zero g hn hL ring ((now, hit) :: evs) now (fun c => c.total) (fun _ => 1)
    rfl (by intro b e; simp [bApp]) hinv g.interval now (Nat.le_refl _) hIle hres
  try simp only [] at h1 h2
  rw [h1, h2]

/-- the model's recording step is the ring write of `bApp` -/
theorem recorded_is_ringWrite (b : Breaker) (now rt : Nat) (err : Bool) :
    b.recorded now rt err = ringWrite BCounter.zero b.rule.geo b.ring now (fun c => bApp c (b.counts rt err)) := rfl

/-! ## several breakers on one resource -/

/-- the breaker slot blocks iff some breaker refuses (in the order in which they are tried, stopping at the first) -/
theorem brSlot_blocked_iff (brs : List Breaker) (now : Nat) :
    (brSlot brs now).2.1 = true ↔ ∃ b ∈ brs, (b.tryPass now).2.1 = false ∧
      ∀ b' ∈ brs.takeWhile (fun x => (x.tryPass now).2.1), (b'.tryPass now).2.1 = true := by
  induction brs with
  | nil => simp [brSlot]
  | cons b rest ih =>
    unfold brSlot
    cases hp : b.tryPass now with
    | mk b' r =>
      obtain ⟨ok, ev, hook⟩ := r
      simp only []
      cases ok with
      | false =>
        simp only [Bool.false_eq_true, if_false]
        refine ⟨fun _ => ⟨b, List.mem_cons_self, by rw [hp], ?_⟩, fun _ => by first | rfl | trivial⟩
        intro x hx
        rw [List.takeWhile_cons] at hx
        simp [hp] at hx
      | true =>
        simp only [if_true]
        cases hrest : brSlot rest now with
        | mk rest' r2 =>
          obtain ⟨blocked, ev', hooks'⟩ := r2
          rw [hrest] at ih
          simp only [] at ih ⊢
          rw [ih]
          constructor
          · intro ⟨x, hx, h1, h2⟩
            refine ⟨x, List.mem_cons_of_mem _ hx, h1, ?_⟩
            intro y hy
            rw [List.takeWhile_cons] at hy
            simp only [hp, if_true] at hy
            rcases List.mem_cons.mp hy with rfl | hy
            · rw [hp]
            · exact h2 y hy
          · intro ⟨x, hx, h1, h2⟩
            rcases List.mem_cons.mp hx with rfl | hx
            · rw [hp] at h1; cases h1
            · refine ⟨x, hx, h1, ?_⟩
              intro y hy
              apply h2
              rw [List.takeWhile_cons]
              simp only [hp, if_true]
              exact List.mem_cons_of_mem _ hy

/-! ## refinement: the breaker IS the documented machine over exact windowed counts

`breaker_refines_spec`: for every rule with a positive statistic interval, every sequence of requests, completions (fast or
slow, ok or error) and rollbacks of any length with non-decreasing completion times, the model breaker (ring of counters,
`reset_metric`, …) and the Spec breaker (`Sentinel/BreakerSpec.lean`: state, deadline, list of completions) answer every
request alike and emit the same notifications. The relation between them is: same rule, state and deadline, and the ring
is in the ring invariant w.r.t. the Spec's completion list. -/

theorem BRule.bucketCount_pos (r : BRule) : 0 < r.bucketCount := by
  unfold BRule.bucketCount
  split
  · exact Nat.one_pos
  · rename_i h; omega

theorem BRule.geo_interval (r : BRule) : r.geo.interval = r.ivl := by
  unfold Geo.interval BRule.geo BRule.bucketCount
  split
  · simp
  · rename_i h
    have hdiv : r.ivl % r.buckets = 0 := by omega
    have := Nat.mod_add_div r.ivl r.buckets
    simp only []
    omega

theorem BRule.geo_L_pos (r : BRule) (h : 0 < r.ivl) : 0 < r.geo.L := by
  have hi := r.geo_interval
  unfold Geo.interval at hi
  apply Nat.pos_of_ne_zero
  intro h0
  rw [h0] at hi
  omega

theorem length_eq_sum_ones {α : Type} (l : List α) : l.length = (l.map (fun _ => 1)).sum := by
  induction l with
  | nil => rfl
  | cons x xs ih => simp [ih]; omega

theorem length_filter_eq_sum {α : Type} (l : List α) (p : α → Bool) :
    (l.filter p).length = (l.map (fun e => if p e then 1 else 0)).sum := by
  induction l with
  | nil => rfl
  | cons x xs ih =>
    by_cases h : p x = true
    · simp [List.filter_cons, h, ih]; omega
    · simp [List.filter_cons, h, ih]

theorem filter_filter_of_imp {α : Type} (l : List α) (p q : α → Bool) (h : ∀ x ∈ l, q x = true → p x = true) :
    (l.filter p).filter q = l.filter q := by
  rw [List.filter_filter]
  apply List.filter_congr
  intro x hx
  by_cases hq : q x = true
  · simp [hq, h x hx hq]
  · simp [hq]

theorem slotAt_map {β : Type} (zero : β) (r : List (Slot β)) (f : Slot β → Slot β) (i : Nat) (hi : i < r.length) :
    slotAt zero (r.map f) i = f (slotAt zero r i) := by
  unfold slotAt
  simp [List.getD, hi]

/-- `reset_metric` right after a completion was recorded at `now`: the ring is in the invariant w.r.t. the history from
which exactly the completions of the current window have been removed -/
theorem ring_inv_reset (g : Geo) (hn : 0 < g.n) (hL : 0 < g.L) (ring : List (Slot BCounter))
    (evs : List (Nat × Bool)) (now : Nat) (hit : Bool)
    (hinv : RingInv bApp BCounter.zero g ring ((now, hit) :: evs) now) (hguard : g.interval < g.start now) :
    RingInv bApp BCounter.zero g
      (ring.map (fun s => if validAt g now s.stamp then { s with val := BCounter.zero } else s))
      (((now, hit) :: evs).filter (fun e => !(decide (g.start now - g.interval + g.L ≤ g.start e.1) && decide (g.start e.1 ≤ g.start now))))
      now := by
  have hlen := hinv.len
  have hsl : ∀ i, i < g.n → slotAt BCounter.zero (ring.map (fun s => if validAt g now s.stamp then { s with val := BCounter.zero } else s)) i
      = (if validAt g now (slotAt BCounter.zero ring i).stamp then { (slotAt BCounter.zero ring i) with val := BCounter.zero } else slotAt BCounter.zero ring i) := by
    intro i hi
    rw [slotAt_map _ _ _ _ (by rw [hlen]; exact hi)]
  have hstamp : ∀ i, i < g.n → (slotAt BCounter.zero (ring.map (fun s => if validAt g now s.stamp then { s with val := BCounter.zero } else s)) i).stamp
      = (slotAt BCounter.zero ring i).stamp := by
    intro i hi
    rw [hsl i hi]
    split <;> rfl
  refine ⟨by simp [hlen], ?_, ?_, ?_, ?_⟩
  · intro i hi hne
    rw [hstamp i hi] at hne ⊢
    exact hinv.slot i hi hne
  · intro i hi
    rw [hstamp i hi, hsl i hi]
    have hv := validAt_iff_inWin_after_write bApp BCounter.zero g hn hL ring evs now hit hinv hguard i hi
    by_cases h0 : (slotAt BCounter.zero ring i).stamp = 0
    · have hval := hinv.val i hi
      simp only [h0, if_true] at hval ⊢
      split
      · rfl
      · exact hval
    · simp only [h0, if_false]
      have hval := hinv.val i hi
      simp only [h0, if_false] at hval
      by_cases hvalid : validAt g now (slotAt BCounter.zero ring i).stamp = true
      · simp only [hvalid, if_true]
        symm
        apply bucketVal_no_events
        intro e he hc
        simp only [List.mem_filter, Bool.not_eq_true', Bool.and_eq_false_iff, decide_eq_false_iff_not] at he
        rw [hv] at hvalid
        have hw := (inWin_iff' g g.interval now _).mp hvalid
        rw [hc] at he
        omega
      · simp only [hvalid, Bool.false_eq_true, if_false]
        rw [hval]
        unfold bucketVal
        congr 1
        symm
        apply filter_filter_of_imp
        intro e _ hq
        simp only [decide_eq_true_eq] at hq
        simp only [Bool.not_eq_true', Bool.and_eq_false_iff, decide_eq_false_iff_not]
        rw [hv] at hvalid
        have hnw : ¬ ((¬ (now > (slotAt BCounter.zero ring i).stamp ∧ now - (slotAt BCounter.zero ring i).stamp > g.interval)) ∧
            g.start now - g.interval + g.L ≤ (slotAt BCounter.zero ring i).stamp ∧ (slotAt BCounter.zero ring i).stamp ≤ g.start now) := by
          intro h; exact hvalid ((inWin_iff' g g.interval now _).mpr h)
        have hs := hinv.slot i hi h0
        have hnowL := g.lt_start_add hL now
        have hnowhi := g.start_le now
        rw [hq]
        by_cases h1 : g.start now - g.interval + g.L ≤ (slotAt BCounter.zero ring i).stamp
        · right
          intro h2
          apply hnw
          refine ⟨?_, h1, h2⟩
          intro ⟨_, hd⟩
          omega
        · left; exact h1
  · intro e he
    have he' := (List.mem_filter.mp he).1
    have := hinv.newest e he'
    refine ⟨this.1, ?_⟩
    rw [hstamp _ (g.idx_lt hn _)]
    exact this.2
  · intro e he
    exact hinv.times e (List.mem_filter.mp he).1

/-- the relation between the model breaker and the Spec breaker -/
structure BRel (b : Breaker) (s : SBreaker) (tl : Nat) : Prop where
  rule : b.rule = s.rule
  state : b.state = s.state
  retry : b.nextRetry = s.deadline
  inv : RingInv bApp BCounter.zero b.rule.geo b.ring s.hist tl

/-- a fresh breaker and a fresh Spec breaker of the same rule are related -/
theorem BRel.new (r : BRule) (t0 : Nat) : BRel (Breaker.new r) { rule := r } t0 :=
  ⟨rfl, rfl, rfl, ring_inv_init _ _ _ _⟩

/-- operation sequences with non-decreasing completion times, past the first statistic interval -/
def OpsOk (g : Geo) : Nat → List BOp → Prop
  | _, [] => True
  | tl, .enter _ :: rest => OpsOk g tl rest
  | tl, .rollback _ :: rest => OpsOk g tl rest
  | tl, .complete now _ _ :: rest => tl ≤ now ∧ g.interval < g.start now ∧ OpsOk g now rest

theorem enter_refines (b : Breaker) (s : SBreaker) (tl now : Nat) (h : BRel b s tl) :
    (b.stepOp (.enter now)).2 = (s.stepOp (.enter now)).2 ∧ BRel (b.stepOp (.enter now)).1 (s.stepOp (.enter now)).1 tl := by
  obtain ⟨hr, hs, ht, hinv⟩ := h
  obtain ⟨rule, state, nextRetry, ring⟩ := b
  obtain ⟨srule, sstate, sdeadline, shist⟩ := s
  simp only at hr hs ht hinv
  subst hr hs ht
  simp only [Breaker.stepOp, SBreaker.stepOp, Breaker.tryPass, SBreaker.enter]
  cases state with
  | closed => exact ⟨by first | rfl | trivial, ⟨rfl, rfl, rfl, hinv⟩⟩
  | halfOpen => exact ⟨by first | rfl | trivial, ⟨rfl, rfl, rfl, hinv⟩⟩
  | opn =>
    simp only []
    by_cases hd : now ≥ nextRetry
    · simp only [hd, if_true]
      exact ⟨by first | rfl | trivial, ⟨rfl, rfl, rfl, hinv⟩⟩
    · simp only [hd, if_false]
      exact ⟨by first | rfl | trivial, ⟨rfl, rfl, rfl, hinv⟩⟩

theorem rollback_refines (b : Breaker) (s : SBreaker) (tl : Nat) (bl : Bool) (h : BRel b s tl) :
    (b.stepOp (.rollback bl)).2 = (s.stepOp (.rollback bl)).2 ∧ BRel (b.stepOp (.rollback bl)).1 (s.stepOp (.rollback bl)).1 tl := by
  obtain ⟨hr, hs, ht, hinv⟩ := h
  obtain ⟨rule, state, nextRetry, ring⟩ := b
  obtain ⟨srule, sstate, sdeadline, shist⟩ := s
  simp only at hr hs ht hinv
  subst hr hs ht
  simp only [Breaker.stepOp, SBreaker.stepOp, Breaker.rollback, SBreaker.rollback]
  by_cases hc : (bl && state == BState.halfOpen) = true
  · simp only [hc, if_true]
    exact ⟨by first | rfl | trivial, ⟨rfl, rfl, rfl, hinv⟩⟩
  · simp only [hc]
    exact ⟨by first | rfl | trivial, ⟨rfl, rfl, rfl, hinv⟩⟩

/-- the Spec's window counts are what the breaker's `totals` read right after recording -/
theorem counts_eq_totals (r : BRule) (hpos : 0 < r.ivl) (ring : List (Slot BCounter)) (evs : List (Nat × Bool)) (now : Nat) (hit : Bool)
    (hinv : RingInv bApp BCounter.zero r.geo ring ((now, hit) :: evs) now) (hguard : r.geo.interval < r.geo.start now)
    (b : Breaker) (hb : b.rule = r) (hring : b.ring = ring) (s : SBreaker) (hsr : s.rule = r) (hh : s.hist = (now, hit) :: evs) :
    b.totals now = s.counts now := by
  unfold Breaker.totals SBreaker.counts
  rw [hb, hring, totals_eq_window r.geo r.bucketCount_pos (r.geo_L_pos hpos) ring evs now hit hinv hguard, hh]
  have hI := r.geo_interval
  have hw : ∀ e : Nat × Bool, s.inWindow now e.1
      = (decide (r.geo.start now - r.geo.interval + r.geo.L ≤ r.geo.start e.1) && decide (r.geo.start e.1 ≤ r.geo.start now)) := by
    intro e
    unfold SBreaker.inWindow
    rw [hsr, hI]
    rfl
  have hfil : ((now, hit) :: evs).filter (fun e => s.inWindow now e.1)
      = ((now, hit) :: evs).filter (fun e => decide (r.geo.start now - r.geo.interval + r.geo.L ≤ r.geo.start e.1) && decide (r.geo.start e.1 ≤ r.geo.start now)) := by
    apply List.filter_congr
    intro e _
    exact hw e
  simp only []
  rw [hfil]
  apply Prod.ext
  · simp only []
    rw [length_filter_eq_sum]
  · simp only []
    rw [length_eq_sum_ones]

theorem thresholdMet_eq_trip (b : Breaker) (s : SBreaker) (h : b.rule = s.rule) (target total : Nat) :
    b.thresholdMet target total = s.trip target total := by
  unfold Breaker.thresholdMet SBreaker.trip
  rw [h]
  cases s.rule.strategy <;> rfl

theorem complete_refines (b : Breaker) (s : SBreaker) (tl now rt : Nat) (err : Bool) (h : BRel b s tl)
    (hpos : 0 < b.rule.ivl) (htl : tl ≤ now) (hguard : b.rule.geo.interval < b.rule.geo.start now) :
    (b.stepOp (.complete now rt err)).2 = (s.stepOp (.complete now rt err)).2 ∧
      BRel (b.stepOp (.complete now rt err)).1 (s.stepOp (.complete now rt err)).1 now := by
  obtain ⟨hr, hs, ht, hinv⟩ := h
  obtain ⟨rule, state, nextRetry, ring⟩ := b
  obtain ⟨srule, sstate, sdeadline, shist⟩ := s
  simp only at hr hs ht hinv hpos hguard
  subst hr hs ht
  have hn := rule.bucketCount_pos
  have hL := rule.geo_L_pos hpos
  have hstart : 0 < rule.geo.start now := by omega
  have hhitS : SBreaker.hit ⟨rule, state, nextRetry, shist⟩ rt err = Breaker.counts ⟨rule, state, nextRetry, ring⟩ rt err := rfl
  generalize hhit : Breaker.counts ⟨rule, state, nextRetry, ring⟩ rt err = hit at hhitS
  obtain ⟨ring', hw, hinv'⟩ := ring_inv_write bApp BCounter.zero rule.geo hn hL ring shist tl now hit hinv htl hstart
  have hrec : (Breaker.recorded ⟨rule, state, nextRetry, ring⟩ now rt err) = some ring' := by
    rw [recorded_is_ringWrite, hhit]
    exact hw
  have htot : Breaker.totals ⟨rule, state, nextRetry, ring'⟩ now
      = SBreaker.counts ⟨rule, state, nextRetry, (now, hit) :: shist⟩ now :=
    counts_eq_totals rule hpos ring' shist now hit hinv' hguard
      ⟨rule, state, nextRetry, ring'⟩ rfl rfl ⟨rule, state, nextRetry, (now, hit) :: shist⟩ rfl rfl
  have htrip := thresholdMet_eq_trip ⟨rule, state, nextRetry, ring'⟩ ⟨rule, state, nextRetry, (now, hit) :: shist⟩ rfl
  simp only [Breaker.stepOp, SBreaker.stepOp, Breaker.onComplete, SBreaker.complete, hrec, hhit, hhitS, htot, htrip]
  cases hc : SBreaker.counts ⟨rule, state, nextRetry, (now, hit) :: shist⟩ now with
  | mk target total =>
    simp only []
    cases state with
    | opn => exact ⟨by first | rfl | trivial, ⟨rfl, rfl, rfl, hinv'⟩⟩
    | halfOpen =>
      simp only []
      cases hit with
      | true =>
        simp only [if_true]
        exact ⟨by first | rfl | trivial, ⟨rfl, rfl, rfl, hinv'⟩⟩
      | false =>
        simp only [Bool.false_eq_true, if_false]
        refine ⟨by first | rfl | trivial, ⟨rfl, rfl, rfl, ?_⟩⟩
        have hreset := ring_inv_reset rule.geo hn hL ring' shist now false hinv' hguard
        simp only [Breaker.resetMetric]
        have hI := rule.geo_interval
        have hfil : ((now, false) :: shist).filter (fun e => !(SBreaker.inWindow ⟨rule, BState.halfOpen, nextRetry, (now, false) :: shist⟩ now e.1))
            = ((now, false) :: shist).filter (fun e => !(decide (rule.geo.start now - rule.geo.interval + rule.geo.L ≤ rule.geo.start e.1) && decide (rule.geo.start e.1 ≤ rule.geo.start now))) := by
          apply List.filter_congr
          intro e _
          unfold SBreaker.inWindow
          simp only []
          rw [hI]
          rfl
        rw [hfil]
        exact hreset
    | closed =>
      simp only []
      cases htr : SBreaker.trip ⟨rule, BState.closed, nextRetry, (now, hit) :: shist⟩ target total with
      | mk trip snap =>
        simp only []
        cases trip with
        | true => exact ⟨by first | rfl | trivial, ⟨rfl, rfl, rfl, hinv'⟩⟩
        | false => exact ⟨by first | rfl | trivial, ⟨rfl, rfl, rfl, hinv'⟩⟩

/-- **Refinement.** Every operation sequence gives the same answers and notifications on the breaker and on the Spec machine. -/
theorem breaker_refines_spec (b : Breaker) (s : SBreaker) (tl : Nat) (ops : List BOp) (h : BRel b s tl)
    (hpos : 0 < b.rule.ivl) (hops : OpsOk b.rule.geo tl ops) :
    (b.run ops).2 = (s.run ops).2 ∧ ∃ tl', BRel (b.run ops).1 (s.run ops).1 tl' := by
  induction ops generalizing b s tl with
  | nil => exact ⟨rfl, tl, h⟩
  | cons o os ih =>
    have hrule : ∀ (b' : Breaker) (s' : SBreaker) tl', BRel b' s' tl' → b'.rule = b.rule → OpsOk b.rule.geo tl' os →
        (b'.run os).2 = (s'.run os).2 ∧ ∃ t, BRel (b'.run os).1 (s'.run os).1 t := by
      intro b' s' tl' h' hr' ho'
      exact ih b' s' tl' h' (by rw [hr']; exact hpos) (by rw [hr']; exact ho')
    cases o with
    | enter now =>
      obtain ⟨h1, h2⟩ := enter_refines b s tl now h
      have hr' : (b.stepOp (.enter now)).1.rule = b.rule := by
        simp only [Breaker.stepOp, Breaker.tryPass]; cases b.state <;> simp only [] <;> (try split) <;> rfl
      obtain ⟨h3, h4⟩ := hrule _ _ tl h2 hr' hops
      simp only [Breaker.run, SBreaker.run]
      exact ⟨by rw [h1, h3], h4⟩
    | rollback bl =>
      obtain ⟨h1, h2⟩ := rollback_refines b s tl bl h
      have hr' : (b.stepOp (.rollback bl)).1.rule = b.rule := by
        simp only [Breaker.stepOp, Breaker.rollback]; split <;> rfl
      obtain ⟨h3, h4⟩ := hrule _ _ tl h2 hr' hops
      simp only [Breaker.run, SBreaker.run]
      exact ⟨by rw [h1, h3], h4⟩
    | complete now rt err =>
      obtain ⟨htl, hg, hrest⟩ := hops
      obtain ⟨h1, h2⟩ := complete_refines b s tl now rt err h hpos htl hg
      have hr' : (b.stepOp (.complete now rt err)).1.rule = b.rule := by
        rw [h2.rule]
        simp only [SBreaker.stepOp, SBreaker.complete]
        have := h.rule
        cases s.state <;> simp only [] <;> (repeat' split) <;> simp_all
      obtain ⟨h3, h4⟩ := hrule _ _ now h2 hr' hrest
      simp only [Breaker.run, SBreaker.run]
      exact ⟨by rw [h1, h3], h4⟩

/-- closing forgets only what could never be read again: a completion older than the window at the time of closing is
outside every later window, so "the statistics are emptied" and "the completions of the current window are dropped" are
the same for every later count -/
theorem counts_forget_old (s : SBreaker) (hpos : 0 < s.rule.ivl) (now later : Nat) (hl : now ≤ later) (e : Nat × Bool)
    (hold : s.inWindow now e.1 = false) (hpast : e.1 ≤ now) : s.inWindow later e.1 = false := by
  unfold SBreaker.inWindow at *
  simp only [Bool.and_eq_false_iff, decide_eq_false_iff_not] at hold ⊢
  have hL := s.rule.geo_L_pos hpos
  have h1 : s.rule.geo.start e.1 ≤ s.rule.geo.start now := s.rule.geo.start_mono hpast
  have h2 : s.rule.geo.start now ≤ s.rule.geo.start later := s.rule.geo.start_mono hl
  have e1 : e.1 - e.1 % s.rule.geo.L = s.rule.geo.start e.1 := rfl
  have e2 : now - now % s.rule.geo.L = s.rule.geo.start now := rfl
  have e3 : later - later % s.rule.geo.L = s.rule.geo.start later := rfl
  rw [e1, e2] at hold
  rw [e1, e3]
  rcases hold with h | h
  · left; omega
  · omega

/-- **From creation on**: a breaker built for any rule with a positive statistic interval answers every operation sequence
(any length, any strategy, any thresholds and bucket counts, non-decreasing completion times) exactly as the documented
machine does on the exact windowed counts of its completion history -/
theorem fresh_breaker_refines_spec (r : BRule) (hpos : 0 < r.ivl) (ops : List BOp) (hops : OpsOk r.geo 0 ops) :
    ((Breaker.new r).run ops).2 = (({ rule := r } : SBreaker).run ops).2 :=
  (breaker_refines_spec (Breaker.new r) { rule := r } 0 ops (BRel.new r 0) hpos hops).1

/-! ## non-vacuity -/
example : ((Breaker.new ⟨"b", .errorCount, 1000, 1, 1000, 2, 50, F64.ofNat 1⟩).onComplete 1700000000100 10 true).1.state = .opn := by
  decide


/-- a two-bucket error-count rule; trip, reject, probe that fails, probe that closes, a stale error that no longer counts -/
def exRule : BRule := ⟨"b", .errorCount, 1000, 1, 2000, 2, 50, F64.ofNat 2⟩
def exOps : List BOp :=
  [.enter 1700000000000, .complete 1700000000100 10 true, .complete 1700000000200 10 true, .enter 1700000000300,
   .enter 1700000001300, .complete 1700000001400 10 true, .enter 1700000002500, .rollback true, .enter 1700000002600,
   .complete 1700000002700 10 false, .complete 1700000002800 10 true, .enter 1700000002900]
example : OpsOk exRule.geo 0 exOps := by
  refine ⟨by decide, by decide, by decide, by decide, by decide, by decide, by decide, by decide, by decide, by decide, trivial⟩
example : ((Breaker.new exRule).run exOps).2.map (·.1) =
    [some true, none, none, some false, some true, none, some true, none, some true, none, none, some true] := by decide
example : (({ rule := exRule } : SBreaker).run exOps).2 = ((Breaker.new exRule).run exOps).2 := by decide

end Sentinel
