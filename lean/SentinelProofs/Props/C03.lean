import Sentinel.Breaker
import SentinelProofs.Lemmas.Ring
/-!
# C03 — circuit breakers follow the Closed / Open / Half-Open state machine

Theorems about `Sentinel/Breaker.lean` for every strategy, every rule (any `min_request_amount`, threshold, bucket
count, retry timeout), every state and every clock value.
-/
set_option autoImplicit false
namespace Sentinel
namespace Breaker

/-! ## requests -/

/-- **Open rejects until the retry timeout has elapsed**, without changing anything -/
theorem open_rejects_until_retry (b : Breaker) (now : Nat) (hs : b.state = .opn) (ht : now < b.nextRetry) :
    b.tryPass now = (b, false, [], false) := by
  unfold tryPass
  rw [hs]
  have : ¬ now ≥ b.nextRetry := by omega
  simp [this]

/-- at or after the retry deadline the first request becomes the probe: admitted, breaker Half-Open, one notification
with previous state Open, and the rollback hook is registered on that entry -/
theorem open_lets_one_probe_through (b : Breaker) (now : Nat) (hs : b.state = .opn) (ht : b.nextRetry ≤ now) :
    b.tryPass now = ({ b with state := .halfOpen }, true, [⟨.halfOpen, .opn, b.rule.id, "-"⟩], true) := by
  unfold tryPass
  rw [hs]
  simp [ht]

/-- while Half-Open every further request is rejected (so exactly one probe per Half-Open phase) -/
theorem half_open_rejects (b : Breaker) (now : Nat) (hs : b.state = .halfOpen) :
    b.tryPass now = (b, false, [], false) := by
  unfold tryPass; rw [hs]

/-- Closed admits everything and does nothing else -/
theorem closed_admits (b : Breaker) (now : Nat) (hs : b.state = .closed) : b.tryPass now = (b, true, [], false) := by
  unfold tryPass; rw [hs]

/-- **No pass while Open before the deadline, no second probe**: an admission means Closed, or Open with the deadline reached -/
theorem admitted_only_if (b : Breaker) (now : Nat) (h : (b.tryPass now).2.1 = true) :
    b.state = .closed ∨ (b.state = .opn ∧ b.nextRetry ≤ now) := by
  unfold tryPass at h
  cases hs : b.state with
  | closed => exact Or.inl rfl
  | halfOpen => rw [hs] at h; cases h
  | opn =>
    rw [hs] at h
    by_cases ht : now ≥ b.nextRetry
    · exact Or.inr ⟨rfl, ht⟩
    · simp [ht] at h

/-- a probe that is itself rejected (by another rule or a second breaker) returns the breaker to Open; the retry deadline
is not renewed; one notification with previous state Half-Open -/
theorem blocked_probe_reopens (b : Breaker) (hs : b.state = .halfOpen) :
    b.rollback true = ({ b with state := .opn }, [⟨.opn, .halfOpen, b.rule.id, "1"⟩]) := by
  unfold rollback; rw [hs]; rfl

/-- the hook does nothing when the entry passed, or when the breaker already left Half-Open -/
theorem rollback_noop (b : Breaker) (blocked : Bool) (h : blocked = false ∨ b.state ≠ .halfOpen) :
    b.rollback blocked = (b, []) := by
  unfold rollback
  rcases h with h | h
  · rw [h]; rfl
  · have : (b.state == BState.halfOpen) = false := by
      cases hs : b.state <;> simp_all
    rw [this]; simp

/-! ## completions -/

/-- **The probe's outcome decides** — a completion during Half-Open that counts against the breaker re-opens it with a new
retry deadline; one that does not closes it and empties the statistics of the current window -/
theorem probe_outcome_decides (b : Breaker) (now rt : Nat) (err : Bool) (ring' : List (Slot BCounter))
    (hs : b.state = .halfOpen) (hw : b.recorded now rt err = some ring') :
    b.onComplete now rt err =
      if b.counts rt err then
        ({ b with ring := ring', state := .opn, nextRetry := now + b.rule.retryMs }, [⟨.opn, .halfOpen, b.rule.id, "1"⟩])
      else
        ((({ b with ring := ring', state := .closed } : Breaker)).resetMetric now, [⟨.closed, .halfOpen, b.rule.id, "-"⟩]) := by
  unfold onComplete
  simp only [hw, hs]
  try (split <;> rfl)

/-- **Closing clears the statistics**: after `reset_metric` every counter that can be read now is zero -/
theorem closing_clears_stats (b : Breaker) (now : Nat) : (b.resetMetric now).totals now = (0, 0) := by
  unfold resetMetric totals foldSlots
  simp only []
  suffices h : ∀ (l : List Nat) (acc : Nat × Nat), acc = (0, 0) →
      l.foldl (fun (acc : Nat × Nat) i =>
        let s := slotAt BCounter.zero (b.ring.map (fun s => if validAt b.rule.geo now s.stamp = true then { s with val := BCounter.zero } else s)) i
        if validAt b.rule.geo now s.stamp = true then (acc.1 + s.val.target, acc.2 + s.val.total) else acc) acc = (0, 0) from h _ _ rfl
  intro l
  induction l with
  | nil => intro acc h; exact h
  | cons i l ih =>
    intro acc hacc
    simp only [List.foldl_cons]
    apply ih
    subst hacc
    unfold slotAt
    simp only [List.getD, List.getElem?_map]
    cases hg : b.ring[i]? with
    | none => simp [validAt, deprecated, BCounter.zero]
    | some s =>
      simp only [Option.map_some, Option.getD_some]
      by_cases hv : validAt b.rule.geo now s.stamp = true
      · simp [hv, BCounter.zero]
      · simp [hv]

/-- **Opens only when the threshold is met** — a completion in Closed opens the breaker iff, counting this completion, the
window holds at least `min_request_amount` completions and the slow/error ratio (or error count) reaches the threshold -/
theorem opens_only_when_threshold_met (b : Breaker) (now rt : Nat) (err : Bool) (ring' : List (Slot BCounter))
    (hs : b.state = .closed) (hw : b.recorded now rt err = some ring') :
    let b1 : Breaker := { b with ring := ring' }
    let met := (b1.thresholdMet (b1.totals now).1 (b1.totals now).2).1
    ((b.onComplete now rt err).1.state = .opn ↔ met = true) ∧
    (met = true → (b.onComplete now rt err).1.nextRetry = now + b.rule.retryMs) ∧
    (met = false → b.onComplete now rt err = (b1, [])) := by
  unfold onComplete
  simp only [hw, hs]
  cases hm : (({ b with ring := ring' } : Breaker).thresholdMet (({ b with ring := ring' } : Breaker).totals now).1
      (({ b with ring := ring' } : Breaker).totals now).2) with
  | mk trip snap =>
    simp only [hs] at hm
    cases trip <;> simp [hm]

/-- what "threshold met" means, strategy by strategy: enough completions in the window AND
error count ≥ ⌊threshold⌋ (error-count) / ratio target/total not below the threshold (ratio strategies, as `f64`) -/
theorem thresholdMet_spelled (b : Breaker) (target total : Nat) :
    (b.thresholdMet target total).1 = true ↔
      total ≥ b.rule.minReq ∧
      (match b.rule.strategy with
        | .errorCount => target ≥ b.rule.thr.toNatFloor
        | _ => F64.lt (F64.div (F64.ofNat target) (F64.ofNat total)) b.rule.thr = false) := by
  unfold thresholdMet
  cases b.rule.strategy <;> simp

/-- a completion while Open only records statistics -/
theorem open_completion_only_counts (b : Breaker) (now rt : Nat) (err : Bool) (ring' : List (Slot BCounter))
    (hs : b.state = .opn) (hw : b.recorded now rt err = some ring') :
    b.onComplete now rt err = ({ b with ring := ring' }, []) := by
  unfold onComplete
  simp only [hw, hs]

/-! ## notifications -/

/-- a notification is well-formed w.r.t. a step: it announces exactly the change `before → after` -/
def Announces (before after : BState) (evs : List BEvent) (id : String) : Prop :=
  (before = after ∧ evs = []) ∨ (before ≠ after ∧ ∃ snap, evs = [⟨after, before, id, snap⟩])

/-- **Every state change is announced exactly once with the correct previous state** (request side) -/
theorem tryPass_announces (b : Breaker) (now : Nat) :
    Announces b.state (b.tryPass now).1.state (b.tryPass now).2.2.1 b.rule.id := by
  unfold tryPass Announces
  cases hs : b.state with
  | closed => simp [hs]
  | halfOpen => simp [hs]
  | opn =>
    by_cases ht : now ≥ b.nextRetry
    · simp [ht]
    · simp [ht, hs]

theorem rollback_announces (b : Breaker) (blocked : Bool) :
    Announces b.state (b.rollback blocked).1.state (b.rollback blocked).2 b.rule.id := by
  unfold rollback Announces
  cases blocked <;> cases hs : b.state <;> simp [hs]

theorem resetMetric_state (b : Breaker) (now : Nat) : (b.resetMetric now).state = b.state := rfl

/-- … and on the completion side, for all three strategies -/
theorem onComplete_announces (b : Breaker) (now rt : Nat) (err : Bool) :
    Announces b.state (b.onComplete now rt err).1.state (b.onComplete now rt err).2 b.rule.id := by
  unfold onComplete Announces
  cases hw : b.recorded now rt err with
  | none => simp
  | some ring' =>
    simp only []
    cases hs : b.state with
    | opn => simp
    | halfOpen => simp only []; split <;> simp [resetMetric_state]
    | closed =>
      simp only []
      cases hm : (({ b with ring := ring' } : Breaker).thresholdMet (({ b with ring := ring' } : Breaker).totals now).1
          (({ b with ring := ring' } : Breaker).totals now).2) with
      | mk trip snap =>
        simp only [hs] at hm
        cases trip <;> simp [hm]

end Breaker

/-! ## the statistic window: what `totals` reads is the completion history of the last `n` buckets -/

/-- how a completion updates a counter (`hit` = counted as slow / failed) -/
def bApp (c : BCounter) (hit : Bool) : BCounter :=
  { target := if hit then c.target + 1 else c.target, total := c.total + 1 }

theorem foldl_pair_split (l : List Nat) (c : Nat → Bool) (f h : Nat → Nat) (a0 b0 : Nat) :
    l.foldl (fun (acc : Nat × Nat) i => if c i then (acc.1 + f i, acc.2 + h i) else acc) (a0, b0)
      = (l.foldl (fun acc i => if c i then acc + f i else acc) a0, l.foldl (fun acc i => if c i then acc + h i else acc) b0) := by
  induction l generalizing a0 b0 with
  | nil => rfl
  | cons x l ih =>
    simp only [List.foldl_cons]
    by_cases hc : c x = true
    · simp only [hc, if_true]; exact ih _ _
    · simp only [hc]; exact ih _ _

theorem foldl_congr_range (n : Nat) (c c' : Nat → Bool) (f : Nat → Nat) (a0 : Nat)
    (h : ∀ i, i < n → c i = c' i) :
    (List.range n).foldl (fun acc i => if c i then acc + f i else acc) a0
      = (List.range n).foldl (fun acc i => if c' i then acc + f i else acc) a0 := by
  have : ∀ (l : List Nat) (a : Nat), (∀ i ∈ l, i < n) →
      l.foldl (fun acc i => if c i then acc + f i else acc) a = l.foldl (fun acc i => if c' i then acc + f i else acc) a := by
    intro l
    induction l with
    | nil => intro a _; rfl
    | cons x l ih =>
      intro a hl
      simp only [List.foldl_cons]
      rw [h x (hl x List.mem_cons_self)]
      exact ih _ (fun i hi => hl i (List.mem_cons_of_mem _ hi))
  exact this _ _ (fun i hi => List.mem_range.mp hi)

/-- **Within the statistic window**: right after a completion was recorded at `now`, the totals the breaker compares with
its thresholds are exactly (number of counted completions, number of completions) among the recorded completions whose
bucket lies in the last `n` buckets `[start now − interval + L, start now]` — nothing older, nothing missed. This holds
for every history of completions with non-decreasing times (ring invariant, `ring_inv_write`). -/
theorem totals_eq_window (g : Geo) (hn : 0 < g.n) (hL : 0 < g.L) (ring : List (Slot BCounter))
    (evs : List (Nat × Bool)) (now : Nat) (hit : Bool)
    (hinv : RingInv bApp BCounter.zero g ring ((now, hit) :: evs) now) (hguard : g.interval < g.start now) :
    foldSlots BCounter.zero g ring (validAt g now) (fun (acc : Nat × Nat) c => (acc.1 + c.target, acc.2 + c.total)) (0, 0)
      = (((((now, hit) :: evs).filter (fun e => g.start now - g.interval + g.L ≤ g.start e.1 && g.start e.1 ≤ g.start now)).map
            (fun e => if e.2 then 1 else 0)).sum,
         ((((now, hit) :: evs).filter (fun e => g.start now - g.interval + g.L ≤ g.start e.1 && g.start e.1 ≤ g.start now)).map
            (fun _ => 1)).sum) := by
  unfold foldSlots
  have hsplit := foldl_pair_split (List.range g.n) (fun i => validAt g now (slotAt BCounter.zero ring i).stamp)
    (fun i => (slotAt BCounter.zero ring i).val.target) (fun i => (slotAt BCounter.zero ring i).val.total) 0 0
  try simp only [] at hsplit ⊢
  rw [hsplit]
  have hv := fun i hi => validAt_iff_inWin_after_write bApp BCounter.zero g hn hL ring evs now hit hinv hguard i hi
  rw [foldl_congr_range g.n _ (fun i => inWin g g.interval now (slotAt BCounter.zero ring i).stamp) _ 0 hv,
      foldl_congr_range g.n _ (fun i => inWin g g.interval now (slotAt BCounter.zero ring i).stamp) _ 0 hv]
  have hIle : g.interval ≤ g.start now := Nat.le_of_lt hguard
  have hres : g.start now < (g.start now - g.interval + g.L) + g.interval := by omega
  have h1 := ring_window_sum bApp BCounter.zero g hn hL ring ((now, hit) :: evs) now (fun c => c.target) (fun h => if h then 1 else 0)
    rfl (by intro b e; cases e <;> simp [bApp]) hinv g.interval now (Nat.le_refl _) hIle hres
  have h2 := ring_window_sum bApp BCounter.zero g hn hL ring ((now, hit) :: evs) now (fun c => c.total) (fun _ => 1)
    rfl (by intro b e; simp [bApp]) hinv g.interval now (Nat.le_refl _) hIle hres
  try simp only [] at h1 h2
  rw [h1, h2]

/-- the model's recording step is the ring write of `bApp` -/
theorem recorded_is_ringWrite (b : Breaker) (now rt : Nat) (err : Bool) :
    b.recorded now rt err = ringWrite BCounter.zero b.rule.geo b.ring now (fun c => bApp c (b.counts rt err)) := rfl

/-! ## several breakers on one resource -/

/-- the breaker slot blocks iff some breaker refuses (in the order in which they are tried, stopping at the first) -/
theorem brSlot_blocked_iff (brs : List Breaker) (now : Nat) :
    (brSlot brs now).2.1 = true ↔ ∃ b ∈ brs, (b.tryPass now).2.1 = false ∧
      ∀ b' ∈ brs.takeWhile (fun x => (x.tryPass now).2.1), (b'.tryPass now).2.1 = true := by
  induction brs with
  | nil => simp [brSlot]
  | cons b rest ih =>
    unfold brSlot
    cases hp : b.tryPass now with
    | mk b' r =>
      obtain ⟨ok, ev, hook⟩ := r
      simp only []
      cases ok with
      | false =>
        simp only [Bool.false_eq_true, if_false]
        refine ⟨fun _ => ⟨b, List.mem_cons_self, by rw [hp], ?_⟩, fun _ => by first | rfl | trivial⟩
        intro x hx
        rw [List.takeWhile_cons] at hx
        simp [hp] at hx
      | true =>
        simp only [if_true]
        cases hrest : brSlot rest now with
        | mk rest' r2 =>
          obtain ⟨blocked, ev', hooks'⟩ := r2
          rw [hrest] at ih
          simp only [] at ih ⊢
          rw [ih]
          constructor
          · intro ⟨x, hx, h1, h2⟩
            refine ⟨x, List.mem_cons_of_mem _ hx, h1, ?_⟩
            intro y hy
            rw [List.takeWhile_cons] at hy
            simp only [hp, if_true] at hy
            rcases List.mem_cons.mp hy with rfl | hy
            · rw [hp]
            · exact h2 y hy
          · intro ⟨x, hx, h1, h2⟩
            rcases List.mem_cons.mp hx with rfl | hx
            · rw [hp] at h1; cases h1
            · refine ⟨x, hx, h1, ?_⟩
              intro y hy
              apply h2
              rw [List.takeWhile_cons]
              simp only [hp, if_true]
              exact List.mem_cons_of_mem _ hy

/-! ## non-vacuity -/
example : ((Breaker.new ⟨"b", .errorCount, 1000, 1, 1000, 2, 50, F64.ofNat 1⟩).onComplete 1700000000100 10 true).1.state = .opn := by
  decide

end Sentinel
