import Sentinel.ConcModels
/-!
# C16 — circuit-breaker transitions are atomic under concurrency: one probe, one winner

The breaker's state lives behind one mutex; every `from_*` function is "lock, compare, set, notify, unlock" (`Cas`), and
`try_pass` reads the state under the same mutex before attempting a transition. A history is any sequence of attempts by any
number of threads (every interleaving of the threads' attempts is such a sequence).
-/
set_option autoImplicit false
namespace Sentinel.Conc

/-- **The listeners observe a valid path of the state machine**, whatever the interleaving of the attempts. -/
theorem listener_log_valid_path (s : CState) (cs : List Cas) : isPath s (casRun s cs).2 = true := by
  induction cs generalizing s with
  | nil => rfl
  | cons c rest ih =>
    unfold casRun
    by_cases h : s = c.frm
    · simp only [h, if_true]
      simp only [isPath, decide_true, Bool.true_and]
      exact ih c.to
    · simp only [h, if_false]
      exact ih s

/-- the state after a history is where the last successful transition led (or the initial state) -/
theorem final_state_last (s : CState) (cs : List Cas) :
    (casRun s cs).1 = match (casRun s cs).2.getLast? with | some c => c.to | none => s := by
  induction cs generalizing s with
  | nil => rfl
  | cons c rest ih =>
    unfold casRun
    by_cases h : s = c.frm
    · simp only [h, if_true]
      rw [ih c.to]
      cases hl : (casRun c.to rest).2 with
      | nil => simp
      | cons d ds =>
        have : ((c :: d :: ds).getLast?) = (d :: ds).getLast? := List.getLast?_cons_cons
        rw [this]
        cases hg : (d :: ds).getLast? with
        | none => simp at hg
        | some e => rfl
    · simp only [h, if_false]
      exact ih s

/-- in a path, whatever follows a transition starts where that transition ended -/
theorem path_adjacent (s : CState) (log : List Cas) (h : isPath s log = true) (i : Nat) (a b : Cas)
    (ha : log[i]? = some a) (hb : log[i + 1]? = some b) : b.frm = a.to := by
  induction log generalizing s i with
  | nil => simp at ha
  | cons c rest ih =>
    simp only [isPath, Bool.and_eq_true, decide_eq_true_eq] at h
    cases i with
    | zero =>
      simp only [List.getElem?_cons_zero, Option.some.injEq] at ha
      subst ha
      cases rest with
      | nil => simp at hb
      | cons d ds =>
        simp only [List.getElem?_cons_succ, List.getElem?_cons_zero, Option.some.injEq] at hb
        subst hb
        simp only [isPath, Bool.and_eq_true, decide_eq_true_eq] at h
        exact h.2.1
    | succ j =>
      simp only [List.getElem?_cons_succ] at ha hb
      exact ih c.to h.2 j ha hb

/-- **One probe per Half-Open phase**: after a transition into Half-Open, the next transition anyone performs leaves
Half-Open — two Open→Half-Open transitions (each of which admits exactly its winner as the probe) are never adjacent. -/
theorem one_probe_per_half_open (s : CState) (cs : List Cas) (i : Nat) (a b : Cas)
    (ha : (casRun s cs).2[i]? = some a) (hb : (casRun s cs).2[i + 1]? = some b) (hto : a.to = .halfOpen) :
    b.frm = .halfOpen := by
  rw [← hto]
  exact path_adjacent s _ (listener_log_valid_path s cs) i a b ha hb

/-- **One winner**: when any number of threads attempt the same transition `a → b` (b ≠ a) from state `a`, exactly the first
attempt in the history succeeds. -/
theorem competing_attempts_one_winner (a b : CState) (hne : b ≠ a) (cs : List Cas) (hcs : cs ≠ [])
    (hall : ∀ c ∈ cs, c.frm = a ∧ c.to = b) :
    (casRun a cs).2 = [cs.head hcs] ∧ (casRun a cs).1 = b := by
  have stay : ∀ l : List Cas, (∀ c ∈ l, c.frm = a ∧ c.to = b) → casRun b l = (b, []) := by
    intro l hl
    induction l with
    | nil => rfl
    | cons c rest ih =>
      unfold casRun
      have hc := hl c (by simp)
      have : ¬ b = c.frm := by rw [hc.1]; exact hne
      simp only [this, if_false]
      exact ih (fun d hd => hl d (by simp [hd]))
  cases cs with
  | nil => exact absurd rfl hcs
  | cons c rest =>
    have hc := hall c (by simp)
    unfold casRun
    simp only [hc.1, if_true, hc.2, List.head_cons]
    rw [stay rest (fun d hd => hall d (by simp [hd]))]
    exact ⟨rfl, rfl⟩

/-- `try_pass`, given the state it read, the clock, the retry deadline and whether its Open→Half-Open attempt won -/
def tryPassDecision (s : CState) (now retryAt : Nat) (won : Bool) : Bool :=
  match s with
  | .closed => true
  | .opn => decide (retryAt ≤ now) && won
  | .halfOpen => false

/-- **No pass while Open before the retry timeout, and none in Half-Open except the probe**: a request passes only if it read
Closed, or it read Open at or after the retry deadline and itself performed the Open→Half-Open transition. -/
theorem pass_only_closed_or_probe (s : CState) (now retryAt : Nat) (won : Bool) (h : tryPassDecision s now retryAt won = true) :
    s = .closed ∨ (s = .opn ∧ retryAt ≤ now ∧ won = true) := by
  cases s with
  | closed => exact Or.inl rfl
  | opn =>
    simp only [tryPassDecision, Bool.and_eq_true, decide_eq_true_eq] at h
    exact Or.inr ⟨rfl, h.1, h.2⟩
  | halfOpen => simp [tryPassDecision] at h

/-! ## who may end a Half-Open phase (request-level model `RSt.step`) -/

/-- **A request that is not the probe never moves the breaker**: the transitions a request performs are none, or its own
Open→Half-Open, or that followed by its own roll-back (its entry was rejected by another rule). In particular a transition
out of Half-Open performed during a request belongs to the thread that opened this very phase in the same request. -/
theorem request_transitions (s : RSt) (t now : Nat) (b : Bool) :
    (s.step (.request t now b)).2.1 = [] ∨ (s.step (.request t now b)).2.1 = [⟨t, .opn, .halfOpen⟩] ∨
    (s.step (.request t now b)).2.1 = [⟨t, .opn, .halfOpen⟩, ⟨t, .halfOpen, .opn⟩] := by
  unfold RSt.step
  cases s.state with
  | closed => left; rfl
  | halfOpen => left; rfl
  | opn =>
    simp only []
    by_cases h1 : s.retryAt ≤ now
    · by_cases h2 : b = true
      · right; right; simp [h1, h2]
      · right; left; simp [h1, h2]
    · left; simp [h1]

/-- while Half-Open every request is refused and changes nothing -/
theorem half_open_request_refused (s : RSt) (h : s.state = .halfOpen) (t now : Nat) (b : Bool) :
    s.step (.request t now b) = (s, [], some false) := by
  unfold RSt.step; rw [h]

/-- **One probe per Half-Open phase, over histories**: from a Half-Open state, in every history of requests by any threads
(no completion in between), every request is refused and the breaker stays Half-Open. -/
theorem phase_admits_no_second_probe (s : RSt) (h : s.state = .halfOpen) (hist : List RStep)
    (hreq : ∀ st ∈ hist, ∃ t now b, st = .request t now b) :
    (∀ o ∈ s.run hist, o.2.2 = some false ∧ o.2.1 = []) ∧ (s.after hist).state = .halfOpen := by
  induction hist generalizing s with
  | nil => exact ⟨fun o ho => (by cases ho), h⟩
  | cons st rest ih =>
    obtain ⟨t, now, b, rfl⟩ := hreq _ List.mem_cons_self
    have hs := half_open_request_refused s h t now b
    have ih' := ih s h (fun x hx => hreq x (List.mem_cons_of_mem _ hx))
    simp only [RSt.run, RSt.after, hs]
    refine ⟨?_, ih'.2⟩
    intro o ho
    rcases List.mem_cons.mp ho with rfl | ho
    · exact ⟨rfl, rfl⟩
    · exact ih'.1 o ho

/-- the transitions of any history, concatenated, are a path of the state machine (so the listeners see a valid path) -/
theorem run_log_is_path (s : RSt) (hist : List RStep) :
    isPath s.state ((s.run hist).flatMap (fun o => o.2.1)) = true := by
  induction hist generalizing s with
  | nil => rfl
  | cons st rest ih =>
    simp only [RSt.run, List.flatMap_cons]
    cases st with
    | request t now b =>
      unfold RSt.step
      cases hst : s.state <;> simp only []
      · have := ih s; rw [hst] at this; simpa using this
      · split
        · split
          · have := ih { s with state := .opn }
            simp only [List.cons_append, List.nil_append, isPath, decide_true, Bool.true_and]
            exact this
          · have := ih { s with state := .halfOpen }
            simp only [List.cons_append, List.nil_append, isPath, decide_true, Bool.true_and]
            exact this
        · have := ih s; rw [hst] at this; simpa using this
      · have := ih s; rw [hst] at this; simpa using this
    | complete t now hit trip =>
      unfold RSt.step
      cases hst : s.state <;> simp only []
      · split
        · have := ih { s with state := .opn, retryAt := now + s.retryMs }
          simp only [List.cons_append, List.nil_append, isPath, decide_true, Bool.true_and]
          exact this
        · have := ih s; rw [hst] at this; simpa using this
      · have := ih s; rw [hst] at this; simpa using this
      · split
        · have := ih { s with state := .opn, retryAt := now + s.retryMs }
          simp only [List.cons_append, List.nil_append, isPath, decide_true, Bool.true_and]
          exact this
        · have := ih { s with state := .closed }
          simp only [List.cons_append, List.nil_append, isPath, decide_true, Bool.true_and]
          exact this

/-! ## no probe before the retry deadline, also when the check and the transition are separate steps (D16) -/

/-- **With the deadline re-checked under the mutex, no interleaving makes a request the probe before the retry deadline in
force at that moment** - whatever the threads looked at before, however many probes failed and re-opened the breaker in
between. -/
theorem probe_not_before_deadline (s : SSt) (hist : List SStep) :
    ∀ p ∈ s.run true hist, p.2 ≤ p.1 := by
  induction hist generalizing s with
  | nil => intro p hp; cases hp
  | cons st rest ih =>
    intro p hp
    simp only [SSt.run] at hp
    rcases List.mem_append.mp hp with h | h
    · cases st with
      | check t now =>
        simp only [SSt.step] at h
        split at h <;> cases h
      | act t now =>
        simp only [SSt.step] at h
        split at h
        · split at h
          · rename_i _ hc
            simp only [List.mem_singleton] at h
            subst h
            rcases hc.2 with h1 | h1
            · cases h1
            · exact h1
          · cases h
        · cases h
      | fail t now =>
        simp only [SSt.step] at h
        split at h <;> cases h
    · exact ih _ p h

/-- **The code before the fix did allow it** (witness): thread 1 looks at the breaker (Open, deadline 5 reached at time 7),
thread 0 becomes the probe and fails at time 8 (new deadline 1008), then thread 1 performs its transition at time 9 - a probe
1000 ms before the deadline. The same history is harmless once the transition re-checks the deadline. -/
theorem stale_check_witness :
    (({ retryAt := 5 } : SSt).run false [.check 1 7, .check 0 7, .act 0 7, .fail 0 8, .act 1 9]) = [(7, 5), (9, 1008)] ∧
    (({ retryAt := 5 } : SSt).run true [.check 1 7, .check 0 7, .act 0 7, .fail 0 8, .act 1 9]) = [(7, 5)] := by decide

example : (casRun .opn [⟨1, .opn, .halfOpen⟩, ⟨2, .opn, .halfOpen⟩, ⟨1, .halfOpen, .closed⟩]).2 =
    [⟨1, .opn, .halfOpen⟩, ⟨1, .halfOpen, .closed⟩] := by decide

-- two threads race for the probe after the retry time; the loser is refused and moves nothing; the winner's failed probe re-opens
example : (({ state := .opn, retryAt := 5 } : RSt).run [.request 1 7 false, .request 2 7 false, .complete 1 9 true false]).map (fun o => (o.2.1, o.2.2)) =
    [([⟨1, .opn, .halfOpen⟩], some true), ([], some false), ([⟨1, .halfOpen, .opn⟩], none)] := by decide

end Sentinel.Conc
