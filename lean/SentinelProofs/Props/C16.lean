import Sentinel.ConcModels
/-!
# C16 — circuit-breaker transitions are atomic under concurrency: one probe, one winner

The breaker's state lives behind one mutex; every `from_*` function is "lock, compare, set, notify, unlock" (`Cas`), and
`try_pass` reads the state under the same mutex before attempting a transition. A history is any sequence of attempts by any
number of threads (every interleaving of the threads' attempts is such a sequence).
-/
set_option autoImplicit false
namespace Sentinel.Conc

/-- **The listeners observe a valid path of the state machine**, whatever the interleaving of the attempts. -/
theorem listener_log_valid_path (s : CState) (cs : List Cas) : isPath s (casRun s cs).2 = true := by
  induction cs generalizing s with
  | nil => rfl
  | cons c rest ih =>
    unfold casRun
    by_cases h : s = c.frm
    · simp only [h, if_true]
      simp only [isPath, decide_true, Bool.true_and]
      exact ih c.to
    · simp only [h, if_false]
      exact ih s

/-- the state after a history is where the last successful transition led (or the initial state) -/
theorem final_state_last (s : CState) (cs : List Cas) :
    (casRun s cs).1 = match (casRun s cs).2.getLast? with | some c => c.to | none => s := by
  induction cs generalizing s with
  | nil => rfl
  | cons c rest ih =>
    unfold casRun
    by_cases h : s = c.frm
    · simp only [h, if_true]
      rw [ih c.to]
      cases hl : (casRun c.to rest).2 with
      | nil => simp
      | cons d ds =>
        have : ((c :: d :: ds).getLast?) = (d :: ds).getLast? := List.getLast?_cons_cons
        rw [this]
        cases hg : (d :: ds).getLast? with
        | none => simp at hg
        | some e => rfl
    · simp only [h, if_false]
      exact ih s

/-- in a path, whatever follows a transition starts where that transition ended -/
theorem path_adjacent (s : CState) (log : List Cas) (h : isPath s log = true) (i : Nat) (a b : Cas)
    (ha : log[i]? = some a) (hb : log[i + 1]? = some b) : b.frm = a.to := by
  induction log generalizing s i with
  | nil => simp at ha
  | cons c rest ih =>
    simp only [isPath, Bool.and_eq_true, decide_eq_true_eq] at h
    cases i with
    | zero =>
      simp only [List.getElem?_cons_zero, Option.some.injEq] at ha
      subst ha
      cases rest with
      | nil => simp at hb
      | cons d ds =>
        simp only [List.getElem?_cons_succ, List.getElem?_cons_zero, Option.some.injEq] at hb
        subst hb
        simp only [isPath, Bool.and_eq_true, decide_eq_true_eq] at h
        exact h.2.1
    | succ j =>
      simp only [List.getElem?_cons_succ] at ha hb
      exact ih c.to h.2 j ha hb

/-- **One probe per Half-Open phase**: after a transition into Half-Open, the next transition anyone performs leaves
Half-Open — two Open→Half-Open transitions (each of which admits exactly its winner as the probe) are never adjacent. -/
theorem one_probe_per_half_open (s : CState) (cs : List Cas) (i : Nat) (a b : Cas)
    (ha : (casRun s cs).2[i]? = some a) (hb : (casRun s cs).2[i + 1]? = some b) (hto : a.to = .halfOpen) :
    b.frm = .halfOpen := by
  rw [← hto]
  exact path_adjacent s _ (listener_log_valid_path s cs) i a b ha hb

/-- **One winner**: when any number of threads attempt the same transition `a → b` (b ≠ a) from state `a`, exactly the first
attempt in the history succeeds. -/
theorem competing_attempts_one_winner (a b : CState) (hne : b ≠ a) (cs : List Cas) (hcs : cs ≠ [])
    (hall : ∀ c ∈ cs, c.frm = a ∧ c.to = b) :
    (casRun a cs).2 = [cs.head hcs] ∧ (casRun a cs).1 = b := by
  have stay : ∀ l : List Cas, (∀ c ∈ l, c.frm = a ∧ c.to = b) → casRun b l = (b, []) := by
    intro l hl
    induction l with
    | nil => rfl
    | cons c rest ih =>
      unfold casRun
      have hc := hl c (by simp)
      have : ¬ b = c.frm := by rw [hc.1]; exact hne
      simp only [this, if_false]
      exact ih (fun d hd => hl d (by simp [hd]))
  cases cs with
  | nil => exact absurd rfl hcs
  | cons c rest =>
    have hc := hall c (by simp)
    unfold casRun
    simp only [hc.1, if_true, hc.2, List.head_cons]
    rw [stay rest (fun d hd => hall d (by simp [hd]))]
    exact ⟨rfl, rfl⟩

/-- `try_pass`, given the state it read, the clock, the retry deadline and whether its Open→Half-Open attempt won -/
def tryPassDecision (s : CState) (now retryAt : Nat) (won : Bool) : Bool :=
  match s with
  | .closed => true
  | .opn => decide (retryAt ≤ now) && won
  | .halfOpen => false

/-- **No pass while Open before the retry timeout, and none in Half-Open except the probe**: a request passes only if it read
Closed, or it read Open at or after the retry deadline and itself performed the Open→Half-Open transition. -/
theorem pass_only_closed_or_probe (s : CState) (now retryAt : Nat) (won : Bool) (h : tryPassDecision s now retryAt won = true) :
    s = .closed ∨ (s = .opn ∧ retryAt ≤ now ∧ won = true) := by
  cases s with
  | closed => exact Or.inl rfl
  | opn =>
    simp only [tryPassDecision, Bool.and_eq_true, decide_eq_true_eq] at h
    exact Or.inr ⟨rfl, h.1, h.2⟩
  | halfOpen => simp [tryPassDecision] at h

example : (casRun .opn [⟨1, .opn, .halfOpen⟩, ⟨2, .opn, .halfOpen⟩, ⟨1, .halfOpen, .closed⟩]).2 =
    [⟨1, .opn, .halfOpen⟩, ⟨1, .halfOpen, .closed⟩] := by decide

end Sentinel.Conc
