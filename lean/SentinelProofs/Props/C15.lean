import SentinelProofs.Lemmas.Deadlock
import SentinelProofs.Generated.LockTraces
/-!
# C15 — concurrent rule updates and entries never deadlock

General part (any number of threads, any programs): a ranking of the locks that every program respects excludes deadlock in
every reachable configuration. Instance part (regenerated from executions of the current source on every run): the lock
traces of every manager function and of the entry / exit paths respect one ranking — checked by the kernel (`decide`).
-/
set_option autoImplicit false
namespace Sentinel.Conc

/-- **Ranking ⇒ no deadlock, in every reachable configuration.** -/
theorem rank_no_deadlock (rank : Lock → Nat) (progs : List (List Act)) (h : ∀ p ∈ progs, Ok rank [] p) (c : Cfg)
    (hr : Reachable progs c) : ¬ Deadlocked c :=
  no_deadlock rank c (reachable_LInv rank progs h c hr)

/-- a thread that runs one ranked operation after another is itself ranked -/
theorem ok_append (rank : Lock → Nat) (held : List Lock) (p q : List Act) (hp : Ok rank held p) (hq : Ok rank [] q) :
    Ok rank held (p ++ q) := by
  induction p generalizing held with
  | nil => simp only [Ok] at hp; subst hp; simpa using hq
  | cons a p ih =>
    cases a with
    | acq l => exact ⟨hp.1, hp.2.1, ih _ hp.2.2⟩
    | rel l => exact ⟨hp.1, ih _ hp.2⟩

theorem ok_flatten (rank : Lock → Nat) (ops : List (List Act)) (h : ∀ p ∈ ops, Ok rank [] p) : Ok rank [] ops.flatten := by
  induction ops with
  | nil => simp [Ok]
  | cons p rest ih =>
    simp only [List.flatten_cons]
    exact ok_append rank [] p _ (h p (by simp)) (ih (fun q hq => h q (by simp [hq])))

/-- mutual exclusion: a lock has at most one holder (the lock table is a function) and a successful acquisition finds it free -/
theorem acquire_needs_free (c c' : Cfg) (t : Tid) (l : Lock) (rest : List Act) (hp : c.prog t = Act.acq l :: rest)
    (hs : c.step t = some c') : c.holder l = none ∧ c'.holder l = some t := by
  unfold Cfg.step at hs
  rw [hp] at hs
  simp only at hs
  by_cases hf : c.holder l = none
  · simp only [hf, if_true, Option.some.injEq] at hs
    subst hs
    exact ⟨hf, by simp⟩
  · simp [hf] at hs

/-! ## termination: every execution ends with all calls returned and all locks free -/

/-- work left: the total length of the remaining programs -/
def Cfg.work (c : Cfg) : Nat := (c.progs.map List.length).sum

theorem sum_length_set (ps : List (List Act)) (t : Tid) (a : Act) (rest : List Act) (h : ps.getD t [] = a :: rest) :
    ((ps.set t rest).map List.length).sum + 1 = (ps.map List.length).sum := by
  induction ps generalizing t with
  | nil => simp [List.getD] at h
  | cons p ps ih =>
    cases t with
    | zero =>
      simp only [List.getD, List.getElem?_cons_zero, Option.getD_some] at h
      subst h
      simp only [List.set_cons_zero, List.map_cons, List.sum_cons, List.length_cons]
      omega
    | succ t =>
      have h' : ps.getD t [] = a :: rest := by simpa [List.getD] using h
      have := ih t h'
      simp only [List.set_cons_succ, List.map_cons, List.sum_cons]
      omega

/-- every step consumes one action: no execution is longer than the programs -/
theorem step_work (c c' : Cfg) (t : Tid) (hs : c.step t = some c') : c'.work + 1 = c.work := by
  unfold Cfg.step at hs
  cases hp : c.prog t with
  | nil => rw [hp] at hs; cases hs
  | cons a rest =>
    rw [hp] at hs
    have hset : ∀ h : Lock → Option Tid, (Cfg.mk (c.progs.set t rest) h).work + 1 = c.work := by
      intro h
      exact sum_length_set c.progs t a rest hp
    cases a with
    | acq l =>
      simp only at hs
      split at hs
      · cases hs; exact hset _
      · cases hs
    | rel l =>
      simp only at hs
      split at hs
      · cases hs; exact hset _
      · cases hs

/-- **Progress**: in a reachable configuration of ranked programs, while some call has not returned some thread can move -/
theorem progress (rank : Lock → Nat) (progs : List (List Act)) (h : ∀ p ∈ progs, Ok rank [] p) (c : Cfg)
    (hr : Reachable progs c) (hu : ∃ t, c.unfinished t) : ∃ t c', c.step t = some c' := by
  have hnd := rank_no_deadlock rank progs h c hr
  apply Classical.byContradiction
  intro hno
  apply hnd
  refine ⟨hu, ?_⟩
  intro t _
  cases hst : c.step t with
  | none => rfl
  | some c' => exact absurd ⟨t, c', hst⟩ hno

/-- **All calls returned ⇒ every lock is free**: nothing is left locked, so every manager still answers and accepts updates -/
theorem all_done_locks_free (rank : Lock → Nat) (progs : List (List Act)) (h : ∀ p ∈ progs, Ok rank [] p) (c : Cfg)
    (hr : Reachable progs c) (hdone : ∀ t, ¬ c.unfinished t) (l : Lock) : c.holder l = none := by
  have hinv := reachable_LInv rank progs h c hr
  cases hh : c.holder l with
  | none => rfl
  | some t => exact absurd (holder_unfinished rank c hinv l t hh) (hdone t)

/-- **Termination**: from any reachable configuration, a scheduler that keeps choosing a thread that can move — one exists as
long as a call has not returned (`progress`) — makes exactly `work` more steps, after which every call has returned and
every lock is free; no execution is longer. -/
theorem terminates (rank : Lock → Nat) (progs : List (List Act)) (h : ∀ p ∈ progs, Ok rank [] p) (c : Cfg)
    (hr : Reachable progs c) :
    ∃ c', Reachable progs c' ∧ (∀ t, ¬ c'.unfinished t) ∧ ∀ l, c'.holder l = none := by
  generalize hw : c.work = w
  induction w generalizing c with
  | zero =>
    have hdone : ∀ t, ¬ c.unfinished t := by
      intro t ⟨hlt, hne⟩
      have hmem : c.prog t ∈ c.progs := by
        unfold Cfg.prog
        have : c.progs.getD t [] = c.progs[t]'hlt := by simp [List.getD, hlt]
        rw [this]; exact List.getElem_mem _
      have : (c.prog t).length ≤ (c.progs.map List.length).sum := le_sum_of_mem' _ _ (List.mem_map_of_mem hmem)
      unfold Cfg.work at hw
      have hz : (c.prog t).length = 0 := by omega
      exact hne (List.length_eq_zero_iff.mp hz)
    exact ⟨c, hr, hdone, all_done_locks_free rank progs h c hr hdone⟩
  | succ w ih =>
    by_cases hu : ∃ t, c.unfinished t
    · obtain ⟨t, c', hst⟩ := progress rank progs h c hr hu
      have := step_work c c' t hst
      exact ih c' (Reachable.step c c' t hr hst) (by omega)
    · have hdone : ∀ t, ¬ c.unfinished t := fun t ht => hu ⟨t, ht⟩
      exact ⟨c, hr, hdone, all_done_locks_free rank progs h c hr hdone⟩

/-! ## the instance extracted from the current source -/

open Generated

/-- **every recorded operation respects the ranking** (kernel-checked; regenerated on every run) -/
theorem traces_ranked : traces.all (fun t => okB rankOf [] t.2) = true := by decide

theorem trace_ok (name : String) (p : List Act) (h : (name, p) ∈ traces) : Ok rankOf [] p := by
  have := List.all_eq_true.mp traces_ranked (name, p) h
  exact (okB_iff rankOf [] p).mp this

/-- **The managers are deadlock-free**: threads that each run any sequence of the recorded operations (manager functions of
all five families, entry, exit, with a listener calling back into read-only manager functions) never reach a configuration in
which the unfinished threads all wait for each other — for any number of threads and every schedule. -/
theorem managers_deadlock_free (progs : List (List Act))
    (h : ∀ p ∈ progs, ∃ ops : List (List Act), (∀ o ∈ ops, ∃ name, (name, o) ∈ traces) ∧ p = ops.flatten)
    (c : Cfg) (hr : Reachable progs c) : ¬ Deadlocked c := by
  apply rank_no_deadlock rankOf progs _ c hr
  intro p hp
  obtain ⟨ops, hops, rfl⟩ := h p hp
  apply ok_flatten
  intro o ho
  obtain ⟨name, hn⟩ := hops o ho
  exact trace_ok name o hn

/-- **The managers' calls terminate and leave every lock free** (same hypotheses as `managers_deadlock_free`) -/
theorem managers_terminate (progs : List (List Act))
    (h : ∀ p ∈ progs, ∃ ops : List (List Act), (∀ o ∈ ops, ∃ name, (name, o) ∈ traces) ∧ p = ops.flatten)
    (c : Cfg) (hr : Reachable progs c) :
    ∃ c', Reachable progs c' ∧ (∀ t, ¬ c'.unfinished t) ∧ ∀ l, c'.holder l = none := by
  apply terminates rankOf progs _ c hr
  intro p hp
  obtain ⟨ops, hops, rfl⟩ := h p hp
  apply ok_flatten
  intro o ho
  obtain ⟨name, hn⟩ := hops o ho
  exact trace_ok name o hn

/-- the criterion is not vacuous: a two-lock inversion is rejected, and it does deadlock -/
example : okB (fun l => l) [] [.acq 1, .acq 0, .rel 0, .rel 1] = false := by decide

end Sentinel.Conc
