import SentinelProofs.Lemmas.Deadlock
import SentinelProofs.Generated.LockTraces
/-!
# C15 — concurrent rule updates and entries never deadlock

General part (any number of threads, any programs): a ranking of the locks that every program respects excludes deadlock in
every reachable configuration. Instance part (regenerated from executions of the current source on every run): the lock
traces of every manager function and of the entry / exit paths respect one ranking — checked by the kernel (`decide`).
-/
set_option autoImplicit false
namespace Sentinel.Conc

/-- **Ranking ⇒ no deadlock, in every reachable configuration.** -/
theorem rank_no_deadlock (rank : Lock → Nat) (progs : List (List Act)) (h : ∀ p ∈ progs, Ok rank [] p) (c : Cfg)
    (hr : Reachable progs c) : ¬ Deadlocked c :=
  no_deadlock rank c (reachable_LInv rank progs h c hr)

/-- a thread that runs one ranked operation after another is itself ranked -/
theorem ok_append (rank : Lock → Nat) (held : List Lock) (p q : List Act) (hp : Ok rank held p) (hq : Ok rank [] q) :
    Ok rank held (p ++ q) := by
  induction p generalizing held with
  | nil => simp only [Ok] at hp; subst hp; simpa using hq
  | cons a p ih =>
    cases a with
    | acq l => exact ⟨hp.1, hp.2.1, ih _ hp.2.2⟩
    | rel l => exact ⟨hp.1, ih _ hp.2⟩

theorem ok_flatten (rank : Lock → Nat) (ops : List (List Act)) (h : ∀ p ∈ ops, Ok rank [] p) : Ok rank [] ops.flatten := by
  induction ops with
  | nil => simp [Ok]
  | cons p rest ih =>
    simp only [List.flatten_cons]
    exact ok_append rank [] p _ (h p (by simp)) (ih (fun q hq => h q (by simp [hq])))

/-- mutual exclusion: a lock has at most one holder (the lock table is a function) and a successful acquisition finds it free -/
theorem acquire_needs_free (c c' : Cfg) (t : Tid) (l : Lock) (rest : List Act) (hp : c.prog t = Act.acq l :: rest)
    (hs : c.step t = some c') : c.holder l = none ∧ c'.holder l = some t := by
  unfold Cfg.step at hs
  rw [hp] at hs
  simp only at hs
  by_cases hf : c.holder l = none
  · simp only [hf, if_true, Option.some.injEq] at hs
    subst hs
    exact ⟨hf, by simp⟩
  · simp [hf] at hs

/-! ## the instance extracted from the current source -/

open Generated

/-- **every recorded operation respects the ranking** (kernel-checked; regenerated on every run) -/
theorem traces_ranked : traces.all (fun t => okB rankOf [] t.2) = true := by decide

theorem trace_ok (name : String) (p : List Act) (h : (name, p) ∈ traces) : Ok rankOf [] p := by
  have := List.all_eq_true.mp traces_ranked (name, p) h
  exact (okB_iff rankOf [] p).mp this

/-- **The managers are deadlock-free**: threads that each run any sequence of the recorded operations (manager functions of
all five families, entry, exit, with a listener calling back into read-only manager functions) never reach a configuration in
which the unfinished threads all wait for each other — for any number of threads and every schedule. -/
theorem managers_deadlock_free (progs : List (List Act))
    (h : ∀ p ∈ progs, ∃ ops : List (List Act), (∀ o ∈ ops, ∃ name, (name, o) ∈ traces) ∧ p = ops.flatten)
    (c : Cfg) (hr : Reachable progs c) : ¬ Deadlocked c := by
  apply rank_no_deadlock rankOf progs _ c hr
  intro p hp
  obtain ⟨ops, hops, rfl⟩ := h p hp
  apply ok_flatten
  intro o ho
  obtain ⟨name, hn⟩ := hops o ho
  exact trace_ok name o hn

/-- the criterion is not vacuous: a two-lock inversion is rejected, and it does deadlock -/
example : okB (fun l => l) [] [.acq 1, .acq 0, .rel 0, .rel 1] = false := by decide

end Sentinel.Conc
