import Sentinel.Manager
/-!
# C10 — rule managers hold and enforce exactly the valid rules last given, including appends

`Mgr` mirrors the managers' maps (`given` / `enforced`, unchanged tests, per-resource replacement, append, clear);
`RefMap` is the reference: per resource the valid rules of the most recent replacement plus later appends.
`run_refines_ref`: for every family and every operation sequence of any length, what the manager reports/enforces equals
the reference map as a set under rule equality (a rule is identified by resource + parameters; ids are ignored, because the
managers keep the controller — and its original rule object — of an equal rule). Corollaries name the property's clauses.
-/
set_option autoImplicit false
namespace Sentinel

/-! ## sets of rules under rule equality -/

def Sub (a b : List MRule) : Prop := ∀ x ∈ a, ∃ y ∈ b, x.sameRule y = true
def RuleSetEq (a b : List MRule) : Prop := Sub a b ∧ Sub b a

theorem sameRule_refl (x : MRule) : x.sameRule x = true := by simp [MRule.sameRule]
theorem sameRule_symm {x y : MRule} (h : x.sameRule y = true) : y.sameRule x = true := by
  simp [MRule.sameRule] at *; exact ⟨h.1.symm, h.2.symm⟩
theorem sameRule_trans {x y z : MRule} (h1 : x.sameRule y = true) (h2 : y.sameRule z = true) : x.sameRule z = true := by
  simp [MRule.sameRule] at *; exact ⟨h1.1.trans h2.1, h1.2.trans h2.2⟩
theorem valid_of_sameRule {x y : MRule} (h : x.sameRule y = true) : x.valid = y.valid := by
  simp [MRule.sameRule] at h; simp [MRule.valid, h.1, h.2]
theorem res_of_sameRule {x y : MRule} (h : x.sameRule y = true) : x.res = y.res := by
  simp [MRule.sameRule] at h; exact h.1

theorem sub_refl (a : List MRule) : Sub a a := fun x hx => ⟨x, hx, sameRule_refl x⟩
theorem sub_trans {a b c : List MRule} (h1 : Sub a b) (h2 : Sub b c) : Sub a c := by
  intro x hx
  obtain ⟨y, hy, hxy⟩ := h1 x hx
  obtain ⟨z, hz, hyz⟩ := h2 y hy
  exact ⟨z, hz, sameRule_trans hxy hyz⟩
theorem rse_refl (a : List MRule) : RuleSetEq a a := ⟨sub_refl a, sub_refl a⟩
theorem rse_symm {a b : List MRule} (h : RuleSetEq a b) : RuleSetEq b a := ⟨h.2, h.1⟩
theorem rse_trans {a b c : List MRule} (h1 : RuleSetEq a b) (h2 : RuleSetEq b c) : RuleSetEq a c :=
  ⟨sub_trans h1.1 h2.1, sub_trans h2.2 h1.2⟩

theorem sub_of_subset {a b : List MRule} (h : ∀ x ∈ a, x ∈ b) : Sub a b := fun x hx => ⟨x, h x hx, sameRule_refl x⟩

theorem sub_filter_valid {a b : List MRule} (h : Sub a b) : Sub (a.filter (·.valid)) (b.filter (·.valid)) := by
  intro x hx
  obtain ⟨hxa, hxv⟩ := List.mem_filter.mp hx
  obtain ⟨y, hy, hxy⟩ := h x hxa
  exact ⟨y, List.mem_filter.mpr ⟨hy, by rw [← valid_of_sameRule hxy]; exact hxv⟩, hxy⟩

theorem sub_notRes {a b : List MRule} (res : String) (h : Sub a b) : Sub (Mgr.notRes a res) (Mgr.notRes b res) := by
  intro x hx
  obtain ⟨hxa, hxr⟩ := List.mem_filter.mp hx
  obtain ⟨y, hy, hxy⟩ := h x hxa
  exact ⟨y, List.mem_filter.mpr ⟨hy, by rw [← res_of_sameRule hxy]; exact hxr⟩, hxy⟩

theorem sub_append {a b c d : List MRule} (h1 : Sub a c) (h2 : Sub b d) : Sub (a ++ b) (c ++ d) := by
  intro x hx
  rcases List.mem_append.mp hx with h | h
  · obtain ⟨y, hy, e⟩ := h1 x h; exact ⟨y, List.mem_append_left _ hy, e⟩
  · obtain ⟨y, hy, e⟩ := h2 x h; exact ⟨y, List.mem_append_right _ hy, e⟩

theorem mem_dedup (l : List MRule) (x : MRule) : x ∈ dedup l ↔ x ∈ l := by
  unfold dedup
  suffices h : ∀ (acc : List MRule), x ∈ l.foldl (fun acc r => if acc.contains r then acc else acc ++ [r]) acc ↔ x ∈ acc ∨ x ∈ l by
    simpa using h []
  induction l with
  | nil => intro acc; simp
  | cons a l ih =>
    intro acc
    simp only [List.foldl_cons]
    rw [ih]
    by_cases hc : acc.contains a = true
    · have hm : a ∈ acc := by simpa using hc
      simp only [hc, if_true, List.mem_cons]
      constructor
      · rintro (h | h)
        · exact Or.inl h
        · exact Or.inr (Or.inr h)
      · rintro (h | h | h)
        · exact Or.inl h
        · rw [h]; exact Or.inl hm
        · exact Or.inr h
    · have hc' : acc.contains a = false := by simpa using hc
      simp only [hc', Bool.false_eq_true, if_false, List.mem_append, List.mem_cons, List.not_mem_nil, or_false]
      constructor
      · rintro ((h | h) | h)
        · exact Or.inl h
        · exact Or.inr (Or.inl h)
        · exact Or.inr (Or.inr h)
      · rintro (h | h | h)
        · exact Or.inl (Or.inl h)
        · exact Or.inl (Or.inr h)
        · exact Or.inr h

theorem rse_dedup (l : List MRule) : RuleSetEq (dedup l) l :=
  ⟨sub_of_subset (fun x hx => (mem_dedup l x).mp hx), sub_of_subset (fun x hx => (mem_dedup l x).mpr hx)⟩

theorem setEq_sub {a b : List MRule} (h : setEq a b = true) : RuleSetEq a b := by
  simp only [setEq, Bool.and_eq_true, List.all_eq_true] at h
  exact ⟨sub_of_subset (fun x hx => by simpa using h.1 x hx), sub_of_subset (fun x hx => by simpa using h.2 x hx)⟩

/-- element-wise rule equality of two sequences gives equality as rule sets -/
theorem zip_sameRule_rse : ∀ (a b : List MRule), a.length = b.length →
    ((a.zip b).all (fun p => p.1.sameRule p.2) = true) → RuleSetEq a b
  | [], [], _, _ => rse_refl []
  | [], _ :: _, h, _ => by simp at h
  | _ :: _, [], h, _ => by simp at h
  | x :: a, y :: b, hl, h => by
    simp only [List.zip_cons_cons, List.all_cons, Bool.and_eq_true] at h
    have ih := zip_sameRule_rse a b (by simpa using hl) h.2
    constructor
    · intro z hz
      rcases List.mem_cons.mp hz with rfl | hz
      · exact ⟨y, List.mem_cons_self, h.1⟩
      · obtain ⟨w, hw, e⟩ := ih.1 z hz; exact ⟨w, List.mem_cons_of_mem _ hw, e⟩
    · intro z hz
      rcases List.mem_cons.mp hz with rfl | hz
      · exact ⟨x, List.mem_cons_self, sameRule_symm h.1⟩
      · obtain ⟨w, hw, e⟩ := ih.2 z hz; exact ⟨w, List.mem_cons_of_mem _ hw, e⟩

/-! ## the invariant and the refinement -/

/-- operations of a manager -/
inductive MOp where
  | loadAll (rs : List MRule)
  | loadRes (res : String) (rs : List MRule)
  | append (r : MRule)
  | clear
  | clearRes (res : String)

def Mgr.step (m : Mgr) : MOp → Mgr
  | .loadAll rs => m.loadAllState rs
  | .loadRes res rs => m.loadResState res rs
  | .append r => m.appendState r
  | .clear => m.clear
  | .clearRes res => m.clearRes res

def RefMap.step (m : RefMap) : MOp → RefMap
  | .loadAll rs => m.loadAll rs
  | .loadRes res rs => m.loadRes res rs
  | .append r => m.append r
  | .clear => m.clear
  | .clearRes res => m.clearRes res

/-- per-resource loads are given rules of that resource (what every caller does; the managers skip mismatching rules);
the system manager has no per-resource operations -/
def MOp.wellFormed (fam : Fam) : MOp → Prop
  | .loadRes res rs => fam ≠ .system ∧ ∀ r ∈ rs, r.res = res
  | .clearRes _ => fam ≠ .system
  | _ => True

/-- the manager's two views are consistent, and the enforced rules are the reference rules -/
structure Rel (m : Mgr) (rf : RefMap) : Prop where
  inv : RuleSetEq m.enforced (m.given.filter (·.valid))
  invSeq : m.fam = .system → RuleSetEq m.enforced (m.givenSeq.filter (·.valid))
  ref : RuleSetEq m.enforced rf.rules

theorem filter_dedup_rse (rs : List MRule) : RuleSetEq ((dedup rs).filter (·.valid)) (dedup (rs.filter (·.valid))) := by
  have h1 : RuleSetEq ((dedup rs).filter (·.valid)) (rs.filter (·.valid)) :=
    ⟨sub_filter_valid (rse_dedup rs).1, sub_filter_valid (rse_dedup rs).2⟩
  exact rse_trans h1 (rse_symm (rse_dedup _))

theorem rel_init (f : Fam) : Rel { fam := f } {} :=
  ⟨rse_refl [], fun _ => rse_refl [], rse_refl []⟩

theorem sub_ofRes {a b : List MRule} (res : String) (h : Sub a b) : Sub (Mgr.ofRes a res) (Mgr.ofRes b res) := by
  intro x hx
  obtain ⟨hxa, hxr⟩ := List.mem_filter.mp hx
  obtain ⟨y, hy, hxy⟩ := h x hxa
  exact ⟨y, List.mem_filter.mpr ⟨hy, by rw [← res_of_sameRule hxy]; exact hxr⟩, hxy⟩

theorem rse_partition (a : List MRule) (res : String) : RuleSetEq a (Mgr.notRes a res ++ Mgr.ofRes a res) := by
  constructor
  · apply sub_of_subset
    intro x hx
    by_cases h : x.res = res
    · exact List.mem_append_right _ (List.mem_filter.mpr ⟨hx, by simp [h]⟩)
    · exact List.mem_append_left _ (List.mem_filter.mpr ⟨hx, by simp [h]⟩)
  · apply sub_of_subset
    intro x hx
    rcases List.mem_append.mp hx with h | h <;> exact (List.mem_filter.mp h).1

theorem rse_append {a b c d : List MRule} (h1 : RuleSetEq a c) (h2 : RuleSetEq b d) : RuleSetEq (a ++ b) (c ++ d) :=
  ⟨sub_append h1.1 h2.1, sub_append h1.2 h2.2⟩

theorem rse_filter_valid {a b : List MRule} (h : RuleSetEq a b) : RuleSetEq (a.filter (·.valid)) (b.filter (·.valid)) :=
  ⟨sub_filter_valid h.1, sub_filter_valid h.2⟩

theorem rse_notRes {a b : List MRule} (res : String) (h : RuleSetEq a b) : RuleSetEq (Mgr.notRes a res) (Mgr.notRes b res) :=
  ⟨sub_notRes res h.1, sub_notRes res h.2⟩

theorem rse_ofRes {a b : List MRule} (res : String) (h : RuleSetEq a b) : RuleSetEq (Mgr.ofRes a res) (Mgr.ofRes b res) :=
  ⟨sub_ofRes res h.1, sub_ofRes res h.2⟩

theorem filter_valid_res (rs : List MRule) (res : String) (h : ∀ r ∈ rs, r.res = res) :
    rs.filter (fun r => r.valid && r.res == res) = rs.filter (·.valid) := by
  apply List.filter_congr
  intro r hr
  simp [h r hr]

theorem notRes_filter_valid (l : List MRule) (res : String) :
    (Mgr.notRes l res).filter (·.valid) = Mgr.notRes (l.filter (·.valid)) res := by
  simp only [Mgr.notRes, List.filter_filter]; congr 1; funext r; exact Bool.and_comm _ _

theorem ofRes_filter_valid (l : List MRule) (res : String) :
    (Mgr.ofRes l res).filter (·.valid) = Mgr.ofRes (l.filter (·.valid)) res := by
  simp only [Mgr.ofRes, List.filter_filter]; congr 1; funext r; exact Bool.and_comm _ _

theorem ofRes_all (g : List MRule) (res : String) (h : ∀ r ∈ g, r.res = res) : Mgr.ofRes g res = g := by
  unfold Mgr.ofRes
  apply List.filter_eq_self.mpr
  intro r hr; simp [h r hr]

theorem step_fam (m : Mgr) (op : MOp) : (m.step op).fam = m.fam := by
  cases op <;> simp only [Mgr.step, Mgr.loadAllState, Mgr.loadResState, Mgr.appendState, Mgr.clear, Mgr.clearRes]
  all_goals (repeat' split)
  all_goals rfl

/-- **One step preserves the refinement relation**, for every family and every operation -/
theorem rel_step (m : Mgr) (rf : RefMap) (op : MOp) (h : Rel m rf) (hw : op.wellFormed m.fam) : Rel (m.step op) (rf.step op) := by
  cases op with
  | clear =>
    exact ⟨rse_refl [], fun _ => rse_refl [], rse_refl []⟩
  | clearRes res =>
    simp only [Mgr.step, RefMap.step, Mgr.clearRes, RefMap.clearRes]
    refine ⟨?_, fun hs => absurd hs hw, rse_notRes res h.ref⟩
    rw [notRes_filter_valid]; exact rse_notRes res h.inv
  | append r =>
    simp only [Mgr.step, RefMap.step, Mgr.appendState, RefMap.append]
    by_cases hp : m.holds r = true
    · rw [if_pos hp]
      refine ⟨h.inv, h.invSeq, ?_⟩
      by_cases hv : (r.valid && !rf.rules.contains r) = true
      · rw [if_pos hv]
        have hrv : r.valid = true := by simp at hv; exact hv.1
        -- the rule is held, hence (being valid) enforced up to rule equality
        have hin : ∃ y ∈ m.enforced, r.sameRule y = true := by
          unfold Mgr.holds at hp
          cases hf : m.fam <;> simp only [hf] at hp
          all_goals first
            | (have hm : r ∈ m.enforced := by simpa using hp
               exact ⟨r, hm, sameRule_refl r⟩)
            | (have hm : r ∈ m.given := by simpa using hp
               exact h.inv.2 r (List.mem_filter.mpr ⟨hm, hrv⟩))
        constructor
        · exact sub_trans h.ref.1 (sub_of_subset (fun x hx => List.mem_append_left _ hx))
        · intro x hx
          rcases List.mem_append.mp hx with hx | hx
          · exact h.ref.2 x hx
          · simp only [List.mem_singleton] at hx; subst hx; exact hin
      · rw [if_neg hv]; exact h.ref
    · rw [if_neg hp]
      by_cases hrv : r.valid = true
      · rw [if_pos hrv]
        have hfr : [r].filter (·.valid) = [r] := by simp [hrv]
        refine ⟨?_, fun hs => ?_, ?_⟩
        · show RuleSetEq (m.enforced ++ [r]) ((m.given ++ [r]).filter (·.valid))
          rw [List.filter_append, hfr]; exact rse_append h.inv (rse_refl [r])
        · show RuleSetEq (m.enforced ++ [r]) ((m.givenSeq ++ [r]).filter (·.valid))
          rw [List.filter_append, hfr]; exact rse_append (h.invSeq hs) (rse_refl [r])
        · show RuleSetEq (m.enforced ++ [r]) (if (r.valid && !rf.rules.contains r) = true then (⟨rf.rules ++ [r]⟩ : RefMap) else rf).rules
          by_cases hc : rf.rules.contains r = true
          · have : (r.valid && !rf.rules.contains r) = false := by rw [hc]; simp
            rw [this]; simp only [Bool.false_eq_true, if_false]
            have hm : r ∈ rf.rules := by simpa using hc
            constructor
            · intro x hx
              rcases List.mem_append.mp hx with hx | hx
              · exact h.ref.1 x hx
              · simp only [List.mem_singleton] at hx; subst hx; exact ⟨x, hm, sameRule_refl x⟩
            · exact sub_trans h.ref.2 (sub_of_subset (fun x hx => List.mem_append_left _ hx))
          · have hc' : rf.rules.contains r = false := by simpa using hc
            have : (r.valid && !rf.rules.contains r) = true := by rw [hrv, hc']; rfl
            rw [this]; simp only [if_true]
            exact rse_append h.ref (rse_refl [r])
      · rw [if_neg hrv]
        have hrv' : r.valid = false := by simpa using hrv
        refine ⟨h.inv, h.invSeq, ?_⟩
        have : (r.valid && !rf.rules.contains r) = false := by simp [hrv']
        rw [this]; simp only [Bool.false_eq_true, if_false]; exact h.ref
  | loadAll rs =>
    simp only [Mgr.step, RefMap.step, Mgr.loadAllState, RefMap.loadAll]
    by_cases hu : m.unchangedAll rs = true
    · rw [if_pos hu]
      refine ⟨h.inv, h.invSeq, ?_⟩
      -- an unchanged reload: the rules handed in are, as a rule set, the ones already held
      have key : RuleSetEq m.enforced (rs.filter (·.valid)) := by
        unfold Mgr.unchangedAll at hu
        cases hf : m.fam <;> simp only [hf] at hu
        case system =>
          simp only [Bool.and_eq_true, beq_iff_eq] at hu
          exact rse_trans (h.invSeq hf) (rse_filter_valid (zip_sameRule_rse _ _ hu.1 hu.2))
        all_goals exact rse_trans h.inv (rse_filter_valid (rse_trans (setEq_sub hu) (rse_dedup rs)))
      exact rse_trans key (rse_symm (rse_dedup _))
    · rw [if_neg hu]
      exact ⟨rse_refl _, fun _ => rse_filter_valid (rse_dedup rs), filter_dedup_rse rs⟩
  | loadRes res rs =>
    obtain ⟨hns, hres⟩ := hw
    simp only [Mgr.step, RefMap.step, Mgr.loadResState, RefMap.loadRes]
    by_cases he : (res == "") = true
    · rw [if_pos he, if_pos he]; exact h
    · rw [if_neg he, if_neg he]
      have hresd : ∀ r ∈ dedup rs, r.res = res := fun r hr => hres r ((mem_dedup rs r).mp hr)
      have hfv : rs.filter (fun r => r.valid && r.res == res) = rs.filter (·.valid) := filter_valid_res rs res hres
      have hfvd : (dedup rs).filter (fun r => r.valid && r.res == res) = (dedup rs).filter (·.valid) := filter_valid_res _ res hresd
      rw [hfv]
      have hpart_ref : RuleSetEq (dedup (rs.filter (·.valid))) ((dedup rs).filter (·.valid)) := rse_symm (filter_dedup_rse rs)
      by_cases hem : (dedup rs).isEmpty = true
      · rw [if_pos hem]
        have hnil : dedup rs = [] := by simpa using hem
        have hrs : rs.filter (·.valid) = [] := by
          apply List.filter_eq_nil_iff.mpr
          intro r hr; exfalso
          have := (mem_dedup rs r).mpr hr; rw [hnil] at this; cases this
        rw [hrs]
        refine ⟨?_, fun hs => absurd hs hns, ?_⟩
        · show RuleSetEq (Mgr.notRes m.enforced res) ((Mgr.notRes m.given res).filter (·.valid))
          rw [notRes_filter_valid]; exact rse_notRes res h.inv
        · show RuleSetEq (Mgr.notRes m.enforced res) (Mgr.notRes rf.rules res ++ dedup [])
          have : dedup ([] : List MRule) = [] := rfl
          rw [this, List.append_nil]; exact rse_notRes res h.ref
      · rw [if_neg hem]
        by_cases hu : setEq (Mgr.ofRes m.given res) (dedup rs) = true
        · rw [if_pos hu]
          refine ⟨h.inv, h.invSeq, ?_⟩
          -- unchanged: the resource's held rules are, as a set, the ones handed in
          have h1 : RuleSetEq (Mgr.ofRes m.enforced res) ((dedup rs).filter (·.valid)) := by
            have a1 := rse_ofRes res h.inv
            rw [← ofRes_filter_valid] at a1
            exact rse_trans a1 (rse_filter_valid (setEq_sub hu))
          exact rse_trans (rse_partition m.enforced res)
            (rse_append (rse_notRes res h.ref) (rse_trans h1 (rse_symm hpart_ref)))
        · rw [if_neg hu]
          refine ⟨?_, fun hs => absurd hs hns, ?_⟩
          · show RuleSetEq (Mgr.notRes m.enforced res ++ (dedup rs).filter (fun r => r.valid && r.res == res))
                ((Mgr.notRes m.given res ++ dedup rs).filter (·.valid))
            rw [hfvd, List.filter_append, notRes_filter_valid]
            exact rse_append (rse_notRes res h.inv) (rse_refl _)
          · show RuleSetEq (Mgr.notRes m.enforced res ++ (dedup rs).filter (fun r => r.valid && r.res == res))
                (Mgr.notRes rf.rules res ++ dedup (rs.filter (·.valid)))
            rw [hfvd]
            exact rse_append (rse_notRes res h.ref) (rse_symm hpart_ref)

/-- **Refinement over every operation sequence** (oldest first), for every family: reported/enforced rules = the reference map -/
theorem run_refines_ref (f : Fam) (ops : List MOp) (hw : ∀ op ∈ ops, op.wellFormed f) :
    Rel (ops.foldl Mgr.step { fam := f }) (ops.foldl RefMap.step {}) ∧ (ops.foldl Mgr.step { fam := f }).fam = f := by
  suffices h : ∀ (m : Mgr) (rf : RefMap), Rel m rf → m.fam = f →
      Rel (ops.foldl Mgr.step m) (ops.foldl RefMap.step rf) ∧ (ops.foldl Mgr.step m).fam = f from h _ _ (rel_init f) rfl
  induction ops with
  | nil => intro m rf h hf; exact ⟨h, hf⟩
  | cons op rest ih =>
    intro m rf h hf
    simp only [List.foldl_cons]
    apply ih (fun o ho => hw o (List.mem_cons_of_mem _ ho))
    · exact rel_step m rf op h (by rw [hf]; exact hw op List.mem_cons_self)
    · rw [step_fam, hf]

/-! ## the property's clauses -/

/-- an append never drops or disables a rule that was already active -/
theorem append_keeps_existing (m : Mgr) (r x : MRule) (hx : x ∈ m.enforced) : x ∈ (m.appendState r).enforced := by
  unfold Mgr.appendState
  split
  · exact hx
  · split
    · exact List.mem_append_left _ hx
    · exact hx

/-- an appended valid rule that was not held becomes active, and the call reports it as added -/
theorem append_adds (m : Mgr) (r : MRule) (hv : r.valid = true) (hn : m.holds r = false) :
    r ∈ (m.appendState r).enforced ∧ m.appendRet r = .bool true := by
  unfold Mgr.appendState Mgr.appendRet
  simp only [hn, hv, Bool.false_eq_true, if_false, if_true, Bool.not_false, and_true]
  exact List.mem_append_right _ List.mem_cons_self

/-- invalid rules are ignored: an invalid append changes nothing … -/
theorem invalid_append_ignored (m : Mgr) (r : MRule) (hv : r.valid = false) : m.appendState r = m := by
  unfold Mgr.appendState
  simp only [hv, Bool.false_eq_true, if_false]
  split <;> rfl

/-- … and loads never enforce an invalid rule -/
theorem load_enforces_only_valid (m : Mgr) (rs : List MRule) (x : MRule)
    (hm : ∀ y ∈ m.enforced, y.valid = true) (hx : x ∈ (m.loadAllState rs).enforced) : x.valid = true := by
  unfold Mgr.loadAllState at hx
  split at hx
  · exact hm x hx
  · exact (List.mem_filter.mp hx).2

/-- replacing one resource's rules leaves the other resources untouched -/
theorem load_res_frame (m : Mgr) (res : String) (rs : List MRule) (x : MRule) (hne : x.res ≠ res)
    (hres : ∀ r ∈ rs, r.res = res) :
    x ∈ (m.loadResState res rs).enforced ↔ x ∈ m.enforced := by
  unfold Mgr.loadResState
  have hnr : x ∈ Mgr.notRes m.enforced res ↔ x ∈ m.enforced := by
    simp [Mgr.notRes, hne]
  split
  · rfl
  · split
    · exact hnr
    · split
      · rfl
      · show x ∈ Mgr.notRes m.enforced res ++ (dedup rs).filter (fun r => r.valid && r.res == res) ↔ x ∈ m.enforced
        simp only [List.mem_append, hnr, List.mem_filter]
        constructor
        · rintro (h | ⟨h, _⟩)
          · exact h
          · exact absurd (hres x ((mem_dedup rs x).mp h)) hne
        · exact fun h => Or.inl h

/-- re-loading an identical set is reported as unchanged (families whose load reports a result) -/
theorem reload_reports_unchanged (m : Mgr) (rs : List MRule) (hf : m.fam = .flow ∨ m.fam = .breaker ∨ m.fam = .hotspot) :
    (m.loadAllState rs).loadAllRet rs = .bool false := by
  have hself : setEq (dedup rs) (dedup rs) = true := by simp [setEq]
  have hfam : (m.loadAllState rs).fam = m.fam := step_fam m (.loadAll rs)
  have hun : (m.loadAllState rs).unchangedAll rs = true := by
    unfold Mgr.unchangedAll
    rw [hfam]
    unfold Mgr.loadAllState
    by_cases hu : m.unchangedAll rs = true
    · rw [if_pos hu]
      unfold Mgr.unchangedAll at hu
      rcases hf with hf | hf | hf <;> simp only [hf] at hu ⊢ <;> exact hu
    · rw [if_neg hu]
      rcases hf with hf | hf | hf <;> simp only [hf] <;> exact hself
  unfold Mgr.loadAllRet
  rw [hfam, hun]
  rcases hf with hf | hf | hf <;> simp [hf]

/-! ## non-vacuity -/
example : Rel { fam := .breaker } {} := rel_init .breaker
example : MOp.wellFormed .flow (.loadRes "r" [⟨"a", "r", "t3"⟩, ⟨"b", "r", "xneg"⟩]) := ⟨by decide, by decide⟩

end Sentinel
