import Sentinel.Validity
import Sentinel.World
/-!
# C12 — valid rules are enforceable without panics; invalid input never poisons

Two layers.

1. The five validity checks, stated outright: `…_valid_iff` says which rules are accepted.
2. Every operation between "accepted" and "enforced" that can panic in Rust is an `Except Panic` function in
   `Sentinel/Validity.lean`; the theorems below show that for accepted rules (and, where the code needs none, for all rules)
   the `error` branch is unreachable. `no_panic_no_poison` ties this to lock poisoning.

What is *not* proved here: floating-point arithmetic inside the checkers (casts saturate, no panic site) and the `u64` token
arithmetic of the warm-up calculator for thresholds beyond the documented range — those are exercised by the exhaustive grid.
-/
set_option autoImplicit false
namespace Sentinel

/-! ## the validity checks -/

theorem flow_valid_iff (r : VFlow) (totalMem : Nat) :
    r.check totalMem = none ↔
      (r.resource.isEmpty = false ∧ r.thr.ltZero = false ∧ ¬ (r.assoc = true ∧ r.refResource.isEmpty = true) ∧
       (r.calcs = .warmUp → r.period ≠ 0 ∧ r.cold ≠ 1) ∧
       (r.calcs = .memAdaptive → r.lwm ≠ 0 ∧ r.hwm ≠ 0 ∧ r.hmu ≠ 0 ∧ r.lmu ≠ 0 ∧ r.hmu < r.lmu ∧ r.hwm ≤ totalMem ∧ r.lwm < r.hwm)) := by
  unfold VFlow.check
  constructor
  · intro h
    split at h; · cases h
    split at h; · cases h
    split at h; · cases h
    split at h; · cases h
    split at h; · cases h
    split at h; · cases h
    split at h; · cases h
    split at h; · cases h
    split at h; · cases h
    rename_i h1 h2 h3 h4 h5 h6 h7 h8 h9
    refine ⟨by simpa using h1, by simpa using h2, ?_, ?_, ?_⟩
    · intro hc; apply h3; simp [hc.1, hc.2]
    · intro hw; constructor
      · intro hp; exact h4 ⟨hw, hp⟩
      · intro hp; exact h5 ⟨hw, hp⟩
    · intro hm
      have a1 : ¬ (r.lwm = 0 ∨ r.hwm = 0 ∨ r.hmu = 0 ∨ r.lmu = 0) := fun hx => h6 ⟨hm, hx⟩
      have a2 : ¬ r.hmu ≥ r.lmu := fun hx => h7 ⟨hm, hx⟩
      have a3 : ¬ r.hwm > totalMem := fun hx => h8 ⟨hm, hx⟩
      have a4 : ¬ r.lwm ≥ r.hwm := fun hx => h9 ⟨hm, hx⟩
      refine ⟨fun hx => a1 (Or.inl hx), fun hx => a1 (Or.inr (Or.inl hx)), fun hx => a1 (Or.inr (Or.inr (Or.inl hx))),
        fun hx => a1 (Or.inr (Or.inr (Or.inr hx))), by omega, by omega, by omega⟩
  · rintro ⟨h1, h2, h3, h4, h5⟩
    have e3 : ¬ ((r.assoc && r.refResource.isEmpty) = true) := by
      intro hx; apply h3; simpa using hx
    rw [if_neg (by simp [h1]), if_neg (by simp [h2]), if_neg e3,
      if_neg (fun hx => (h4 hx.1).1 hx.2), if_neg (fun hx => (h4 hx.1).2 hx.2)]
    rw [if_neg (fun hx => by
      have := h5 hx.1
      rcases hx.2 with hx | hx | hx | hx
      · exact this.1 hx
      · exact this.2.1 hx
      · exact this.2.2.1 hx
      · exact this.2.2.2.1 hx)]
    rw [if_neg (fun hx => by have := h5 hx.1; omega), if_neg (fun hx => by have := h5 hx.1; omega),
      if_neg (fun hx => by have := h5 hx.1; omega)]

theorem br_valid_iff (r : VBr) :
    r.check = none ↔
      (r.resource.isEmpty = false ∧ r.ivl ≠ 0 ∧ r.retry ≠ 0 ∧ r.thr.ltZero = false ∧ (r.strat ≠ .count → r.thr.gtNat 1 = false)) := by
  unfold VBr.check
  constructor
  · intro h
    split at h; · cases h
    split at h; · cases h
    split at h; · cases h
    split at h; · cases h
    split at h; · cases h
    rename_i h1 h2 h3 h4 h5
    refine ⟨by simpa using h1, h2, h3, by simpa using h4, ?_⟩
    intro hs
    cases hg : r.thr.gtNat 1 with
    | false => rfl
    | true => exact absurd ⟨hs, hg⟩ h5
  · rintro ⟨h1, h2, h3, h4, h5⟩
    rw [if_neg (by simp [h1]), if_neg h2, if_neg h3, if_neg (by simp [h4]),
      if_neg (fun hx => by have := h5 hx.1; rw [this] at hx; exact Bool.noConfusion hx.2)]

theorem hs_valid_iff (r : VHs) :
    r.check = none ↔ (r.resource.isEmpty = false ∧ (r.qps = true → r.dur ≠ 0) ∧ ¬ (r.idx > 0 ∧ r.key.isEmpty = false)) := by
  unfold VHs.check
  constructor
  · intro h
    split at h; · cases h
    split at h; · cases h
    split at h; · cases h
    rename_i h1 h2 h3
    refine ⟨by simpa using h1, fun hq hd => h2 ⟨hq, hd⟩, ?_⟩
    rintro ⟨ha, hb⟩; apply h3; simp [ha, hb]
  · rintro ⟨h1, h2, h3⟩
    rw [if_neg (by simp [h1]), if_neg (fun hx => h2 hx.1 hx.2)]
    rw [if_neg (fun hx => h3 (by
      have hk : r.key.isEmpty = false := by
        cases hk : r.key.isEmpty with
        | false => rfl
        | true => simp [hk] at hx
      exact ⟨hx.1, hk⟩))]

theorem iso_valid_iff (r : VIso) : r.check = none ↔ (r.resource.isEmpty = false ∧ r.thr ≠ 0) := by
  unfold VIso.check
  constructor
  · intro h
    split at h; · cases h
    split at h; · cases h
    rename_i h1 h2
    exact ⟨by simpa using h1, h2⟩
  · rintro ⟨h1, h2⟩
    rw [if_neg (by simp [h1]), if_neg h2]

theorem sys_valid_iff (r : VSys) :
    r.check = none ↔
      (r.thr.ltZero = false ∧ (r.metric = .cpu → r.thr.gtNat 100 = false) ∧ (r.metric = .load → r.thr.gtNat 1 = false)) := by
  unfold VSys.check
  constructor
  · intro h
    split at h; · cases h
    split at h; · cases h
    split at h; · cases h
    rename_i h1 h2 h3
    refine ⟨by simpa using h1, ?_, ?_⟩
    · intro hm
      cases hg : r.thr.gtNat 100 with
      | false => rfl
      | true => exact absurd ⟨hm, Or.inl hg⟩ h2
    · intro hm
      cases hg : r.thr.gtNat 1 with
      | false => rfl
      | true => exact absurd ⟨hm, Or.inl hg⟩ h3
  · rintro ⟨h1, h2, h3⟩
    rw [if_neg (by simp [h1])]
    rw [if_neg (fun hx => by
      rcases hx.2 with hg | hg
      · rw [h2 hx.1] at hg; exact Bool.noConfusion hg
      · rw [h1] at hg; exact Bool.noConfusion hg)]
    rw [if_neg (fun hx => by
      rcases hx.2 with hg | hg
      · rw [h3 hx.1] at hg; exact Bool.noConfusion hg
      · rw [h1] at hg; exact Bool.noConfusion hg)]

/-- NaN is not negative: a NaN threshold passes the flow, breaker and system checks (and is enforced as "never blocks") -/
theorem nan_threshold_accepted : (Fl.nan).ltZero = false ∧ (Fl.nan).gtNat 1 = false := ⟨rfl, rfl⟩

/-! ## from accepted to enforced: the panic sites -/

/-- every accepted breaker rule has a constructible counter window (`CounterLeapArray::new(..).unwrap()` cannot fail):
the bucket count falls back to 1 unless it divides the non-zero interval -/
theorem br_counter_constructible (r : VBr) (_h : r.check = none) : ∃ g, brCounterNew r = .ok g := by
  have : leapNewOk r.bucketCount r.ivl = true := by
    unfold leapNewOk VBr.bucketCount
    by_cases hb : r.buckets = 0 ∨ r.ivl % r.buckets ≠ 0
    · rw [if_pos hb]; simp [Nat.mod_one]
    · rw [if_neg hb]
      have h1 : r.buckets ≠ 0 := fun hx => hb (Or.inl hx)
      have h2 : r.ivl % r.buckets = 0 := Decidable.byContradiction (fun hx => hb (Or.inr hx))
      simp [h1, h2]
  unfold brCounterNew
  rw [if_pos this]
  exact ⟨_, rfl⟩

/-- the sample count always divides the interval (it is `ivl/500` only when 500 divides `ivl`, else 1) -/
theorem flowSampleCount_divides (ivl : Nat) : flowSampleCount ivl ≠ 0 ∧ ivl % flowSampleCount ivl = 0 := by
  unfold flowSampleCount
  by_cases h : ivl > 500 ∧ ivl < 10000 ∧ ivl % 500 = 0
  · rw [if_pos h]
    obtain ⟨h1, _, h3⟩ := h
    have hk : ivl = 500 * (ivl / 500) := by omega
    constructor
    · omega
    · have : (500 * (ivl / 500)) % (ivl / 500) = 0 := Nat.mul_mod_left _ _
      rw [← hk] at this
      exact this
  · rw [if_neg h]; exact ⟨by decide, Nat.mod_one _⟩

/-- **every statistic interval gets a statistic**: `generate_stat_for` returns `Ok` for every interval (no accepted flow rule is
skipped for want of a window): when the global window cannot be reused, the private array and its reader are constructible -/
theorem flow_stat_total (ivl : Nat) : ∃ k, flowStatNew ivl = .ok k := by
  unfold flowStatNew
  by_cases h0 : ivl = 0 ∨ ivl = 1000
  · rw [if_pos h0]; exact ⟨_, rfl⟩
  · rw [if_neg h0]
    have hi : ivl ≠ 0 := fun h => h0 (Or.inl h)
    obtain ⟨hs, hd⟩ := flowSampleCount_divides ivl
    simp only []
    by_cases hr : checkReuse (flowSampleCount ivl) ivl 20 10000 = 0
    · rw [if_pos hr]; exact ⟨_, rfl⟩
    · rw [if_neg hr]
      have hl : leapNewOk (flowSampleCount ivl) ivl = true := by simp [leapNewOk, hs, hd]
      have hso : statOk (flowSampleCount ivl) ivl = true := by simp [statOk, hi, hs, hd]
      have hc : checkReuse (flowSampleCount ivl) ivl (flowSampleCount ivl) ivl = 0 := by
        simp [checkReuse, hso]
      simp [hl, hc]

/-- ... and it is the statistic the entry-level model (`flowStatFor`, C01) works with -/
theorem flow_stat_matches_world (ivl : Nat) :
    (flowStatNew ivl = .ok .default ↔ (ivl = 0 ∨ ivl = 1000)) ∧
    (∀ sc iv, flowStatNew ivl = .ok (.reuse sc iv) → sc = flowSampleCount ivl ∧ iv = ivl ∧ checkReuse sc ivl 20 10000 = 0) ∧
    (∀ sc iv, flowStatNew ivl = .ok (.priv sc iv) → sc = flowSampleCount ivl ∧ iv = ivl ∧ checkReuse sc ivl 20 10000 ≠ 0) := by
  unfold flowStatNew
  by_cases h0 : ivl = 0 ∨ ivl = 1000
  · simp [h0]
  · rw [if_neg h0]
    simp only []
    by_cases hr : checkReuse (flowSampleCount ivl) ivl 20 10000 = 0
    · simp [hr, h0]
    · rw [if_neg hr]
      refine ⟨?_, ?_, ?_⟩
      · constructor
        · intro h; split at h <;> (try split at h) <;> simp at h
        · intro h; exact absurd h h0
      · intro sc iv h; split at h <;> (try split at h) <;> simp at h
      · intro sc iv h
        split at h
        · simp at h
        · split at h
          · simp at h
          · simp at h; obtain ⟨h1, h2⟩ := h; subst h1; subst h2; exact ⟨rfl, rfl, hr⟩

/-- the statistic the entry-level model (`flowStatFor`, used by C01's theorems and every world-based driver) gives a rule is the one
`generate_stat_for`'s explicit model constructs -/
theorem flow_stat_is_world_stat (ivl : Nat) :
    (match flowStatNew ivl with
     | .ok .default => flowStatFor ivl = .global defaultReader
     | .ok (.reuse sc iv) => flowStatFor ivl = .global ⟨sc, iv⟩
     | .ok (.priv sc iv) => flowStatFor ivl = .priv ⟨sc, iv / sc⟩ (ringInit MetricBucket.zero ⟨sc, iv / sc⟩) ⟨sc, iv⟩ []
     | .error _ => False) := by
  obtain ⟨hs, hd⟩ := flowSampleCount_divides ivl
  unfold flowStatNew flowStatFor
  by_cases h0 : ivl = 0 ∨ ivl = 1000
  · simp [h0]
  · have hi : ivl ≠ 0 := fun h => h0 (Or.inl h)
    rw [if_neg h0, if_neg h0]
    simp only []
    have hsc : (if ivl > 500 ∧ ivl < 10000 ∧ ivl % 500 = 0 then ivl / 500 else 1) = flowSampleCount ivl := rfl
    rw [hsc]
    by_cases hr : checkReuse (flowSampleCount ivl) ivl 20 10000 = 0
    · simp [hr]
    · have hl : leapNewOk (flowSampleCount ivl) ivl = true := by simp [leapNewOk, hs, hd]
      have hso : statOk (flowSampleCount ivl) ivl = true := by simp [statOk, hi, hs, hd]
      have hc : checkReuse (flowSampleCount ivl) ivl (flowSampleCount ivl) ivl = 0 := by simp [checkReuse, hso]
      simp [hr, hl, hc]

/-- non-vacuity: 1700 ms and 1001 ms get a one-bucket private window, 2000 ms reuses the global window with 4 buckets, 1500 ms gets a 3-bucket private one -/
example : flowStatNew 1700 = .ok (.priv 1 1700) ∧ flowStatNew 1001 = .ok (.priv 1 1001) ∧ flowStatNew 2000 = .ok (.reuse 4 2000) ∧
    flowStatNew 1500 = .ok (.priv 3 1500) ∧ flowStatNew 1000 = .ok .default := ⟨by rfl, by rfl, by rfl, by rfl, by rfl⟩

/-- `ThrottlingChecker::new` cannot panic for any `u32` millisecond values -/
theorem throttling_new_total (maxq ivl : Nat) (h1 : maxq ≤ 4294967295) (h2 : ivl ≤ 4294967295) : ∃ p, throttlingNew maxq ivl = .ok p := by
  have b : maxq * 1000000 ≤ 9223372036854775807 := by omega
  have a : (if ivl = 0 then 1000 else ivl) * 1000000 ≤ 9223372036854775807 := by
    by_cases h0 : ivl = 0
    · rw [if_pos h0]; decide
    · rw [if_neg h0]; clear b h0; omega
  have a' : (if ivl = 0 then 1000 else ivl) * 1000000 ≤ i64Max := a
  have b' : maxq * 1000000 ≤ i64Max := b
  unfold throttlingNew tryIntoI64
  rw [if_pos a']
  simp only []
  rw [if_pos b']
  exact ⟨_, rfl⟩

/-- the cold factor in effect is at least 2, so `cold_factor − 1 ≥ 1`: no division by zero in the token formulas -/
theorem cold_eff_ge_two (cold : Nat) : 2 ≤ coldEff cold := by
  unfold coldEff; split <;> omega

/-- `WarmUpCalculator::new`'s token arithmetic cannot panic, whatever the (saturated) casts produced — including the
`u64::MAX` that an infinite threshold yields -/
theorem warmup_tokens_total (w x : Nat) (hw : w ≤ 18446744073709551615) : ∃ t, warmUpTokens w x = .ok t ∧ t.1 ≤ t.2.1 := by
  unfold warmUpTokens subU satAddU64
  simp only []
  have : w ≤ min (w + min (2 * x) 18446744073709551615) 18446744073709551615 := by omega
  rw [if_pos this]
  exact ⟨_, rfl, this⟩

/-- positional hotspot parameters: the indexing `args[idx as usize]` is never out of bounds, for any index (negative
indices count from the end) and any argument list -/
theorem arg_index_total (args : List String) (idx : Int) : ∃ r, argAt args idx = .ok r := by
  unfold argAt
  generalize (if idx < 0 then idx + ↑args.length else idx) = i
  unfold argAtIdx
  by_cases h1 : i < 0
  · rw [if_pos h1]; exact ⟨_, rfl⟩
  · rw [if_neg h1]
    by_cases h2 : i.toNat ≥ args.length
    · rw [if_pos h2]; exact ⟨_, rfl⟩
    · rw [if_neg h2, List.getElem?_eq_getElem (by omega)]
      exact ⟨_, rfl⟩

/-- it agrees with the executable hotspot model used for C05–C07 -/
theorem argAt_eq_model (r : HsRule) (args : List String) :
    argAt args r.paramIndex = .ok (extractArgs r (some args) none) := by
  unfold argAt extractArgs
  simp only []
  generalize (if r.paramIndex < 0 then r.paramIndex + ↑args.length else r.paramIndex) = i
  unfold argAtIdx
  by_cases h1 : i < 0
  · rw [if_pos h1, if_pos h1]
  · rw [if_neg h1, if_neg h1]
    by_cases h2 : i.toNat ≥ args.length
    · rw [if_pos h2, List.getElem?_eq_none (by omega)]
    · rw [if_neg h2, List.getElem?_eq_getElem (by omega)]

/-- an `Associated` flow rule is checked without panicking whether or not the referenced resource has ever been seen -/
theorem assoc_node_total {ν : Type} (nodes : List (String × ν)) (ref : String) : ∃ r, assocNode nodes ref = .ok r := ⟨_, rfl⟩

/-- the per-value in-flight counter never wraps: releasing at zero stays at zero, so the next check's `+ 1` cannot overflow
as long as fewer than 2^64 − 1 entries are in flight -/
theorem conc_counter_total (c : Nat) (h : c < 18446744073709551615) :
    ∃ c', concRelease c = .ok c' ∧ c' ≤ c ∧ ∃ n, concNext c' = .ok n := by
  refine ⟨c - 1, rfl, Nat.sub_le _ _, ?_⟩
  unfold concNext
  have : c - 1 + 1 ≤ 18446744073709551615 := by omega
  simp only [this, if_true]
  exact ⟨_, rfl⟩

/-! ## poisoning -/

/-- an operation that does not panic poisons nothing, and an operation on unpoisoned locks fails only if its body does -/
theorem no_panic_no_poison {α : Type} (s : LockSt) (locks : List String) (body : Except Panic α) (a : α)
    (hclean : ∀ l ∈ locks, s.poisoned.contains l = false) (hb : body = .ok a) :
    s.withLocks locks body = (s, .ok a) := by
  unfold LockSt.withLocks
  have : locks.find? (fun l => s.poisoned.contains l) = none := by
    rw [List.find?_eq_none]; intro l hl; have := hclean l hl; simpa using this
  rw [this, hb]

/-- later calls keep working: after any sequence of operations none of which panics, no lock is poisoned -/
theorem later_calls_work {α : Type} (ops : List (List String × Except Panic α)) (h : ∀ o ∈ ops, ∃ a, o.2 = .ok a) :
    (ops.foldl (fun (s : LockSt) o => (s.withLocks o.1 o.2).1) {}).poisoned = [] := by
  suffices ∀ s : LockSt, s.poisoned = [] → (ops.foldl (fun (s : LockSt) o => (s.withLocks o.1 o.2).1) s).poisoned = [] from this {} rfl
  induction ops with
  | nil => intro s hs; exact hs
  | cons o rest ih =>
    intro s hs
    simp only [List.foldl_cons]
    apply ih (fun o' ho' => h o' (List.mem_cons_of_mem _ ho'))
    obtain ⟨a, ha⟩ := h o List.mem_cons_self
    rw [no_panic_no_poison s o.1 o.2 a (by intro l _; simp [hs]) ha]
    exact hs

/-- conversely a panic under a lock poisons it: the next operation on that lock fails whatever its body -/
theorem panic_poisons {α : Type} (s : LockSt) (l : String) (e : Panic) (body : Except Panic α)
    (hclean : s.poisoned.contains l = false) :
    ∃ e', ((s.withLocks [l] (.error e : Except Panic α)).1.withLocks [l] body).2 = .error e' := by
  have h1 : (s.withLocks [l] (.error e : Except Panic α)).1 = { poisoned := [l] ++ s.poisoned } := by
    unfold LockSt.withLocks
    have : [l].find? (fun l => s.poisoned.contains l) = none := by
      rw [List.find?_eq_none]; intro x hx
      have : x = l := by simpa using hx
      subst this; simpa using hclean
    rw [this]
  rw [h1]
  unfold LockSt.withLocks
  have : [l].find? (fun x => ([l] ++ s.poisoned).contains x) = some l := by simp
  simp only [this]
  exact ⟨_, rfl⟩

/-! ## non-vacuity -/

example : (VFlow.check { resource := "a", thr := .nonneg (F64.ofNat 5), calcs := .warmUp, period := 10, cold := 3 } 1000) = none := by decide
example : (VFlow.check { resource := "a", thr := .nonneg (F64.ofNat 5), assoc := true, refResource := "" } 1000) = some "ref" := by decide
example : (VBr.check { resource := "a", strat := .ratio, retry := 1000, ivl := 1000, thr := .nonneg (F64.roundDiv 1 2) }) = none := by decide
example : (VSys.check { metric := .load, thr := .nonneg (F64.roundDiv 3 2) }) = some "load" := by decide

end Sentinel
