import Sentinel.World
import SentinelProofs.Lemmas.Lru
/-!
# C07 — throttling paces admissions, bounds queueing and really delays the caller

Flow throttling: `throttleCheck` (one controller, nanoseconds) and `flowSlot` (the caller is put to sleep inside the
slot). Hotspot throttling: `HsCtrl.checkThrottle` per value (milliseconds) — stated on the per-value cell.
All theorems hold for every threshold, interval, maximum queueing time, batch and arrival instant.
-/
set_option autoImplicit false
namespace Sentinel

/-- the spacing one request of `batch` tokens costs under allowed threshold `thr` -/
def flowCost (thr : F64) (statIntervalNs batch : Nat) : Nat :=
  (F64.mul (F64.div (F64.ofNat batch) thr) (F64.ofNat statIntervalNs)).toNatFloor

/-- the "always rejected" inputs: threshold ≤ 0 or batch above the threshold -/
def neverServable (thr : F64) (batch : Nat) : Bool := !F64.lt F64.zero thr || F64.ltNat thr batch

/-- the five outcomes of `throttleCheck` for a request of at least one token -/
theorem throttleCheck_cases (id : String) (thr : F64) (ivl maxq last now batch : Nat) (hb : batch ≠ 0) :
    (neverServable thr batch = true ∧ ∃ r s, throttleCheck id thr ivl maxq last now batch = (last, .blocked r s)) ∨
    (neverServable thr batch = false ∧ last + flowCost thr ivl batch ≤ now ∧
        throttleCheck id thr ivl maxq last now batch = (now, .pass)) ∨
    (neverServable thr batch = false ∧ last + flowCost thr ivl batch > now ∧ last + flowCost thr ivl batch - now > maxq ∧
        ∃ r s, throttleCheck id thr ivl maxq last now batch = (last, .blocked r s)) ∨
    (neverServable thr batch = false ∧ last + flowCost thr ivl batch > now ∧ last + flowCost thr ivl batch - now ≤ maxq ∧
        throttleCheck id thr ivl maxq last now batch =
          (last + flowCost thr ivl batch, .wait (last + flowCost thr ivl batch - now))) := by
  unfold throttleCheck neverServable flowCost
  simp only [hb, if_false]
  by_cases h1 : F64.lt F64.zero thr = true
  · by_cases h2 : F64.ltNat thr batch = true
    · left; simp only [h1, h2, Bool.not_true, Bool.false_eq_true, if_false, if_true, Bool.or_true, true_and]
      exact ⟨_, _, rfl⟩
    · have h2' : F64.ltNat thr batch = false := by simpa using h2
      simp only [h1, h2', Bool.not_true, Bool.false_eq_true, if_false, Bool.or_self, false_and, false_or, true_and]
      by_cases hle : last + (F64.mul (F64.div (F64.ofNat batch) thr) (F64.ofNat ivl)).toNatFloor ≤ now
      · left; simp only [hle, if_true, and_self]
      · right
        have hgt : last + (F64.mul (F64.div (F64.ofNat batch) thr) (F64.ofNat ivl)).toNatFloor > now := by omega
        simp only [hle, if_false]
        by_cases hq : last + (F64.mul (F64.div (F64.ofNat batch) thr) (F64.ofNat ivl)).toNatFloor - now > maxq
        · left; simp only [hq, if_true]; refine ⟨hgt, ?_⟩; first | exact ⟨trivial, _, _, rfl⟩ | exact ⟨_, _, rfl⟩ | trivial
        · right; simp only [hq, if_false]; refine ⟨hgt, by omega, ?_⟩; first | rfl | trivial
  · have h1' : F64.lt F64.zero thr = false := by simpa using h1
    left; simp only [h1', Bool.not_false, if_true, Bool.true_or, true_and]
    exact ⟨_, _, rfl⟩

/-- **Decision.** A request of at least one token is rejected iff it can never be served or its wait would exceed the
maximum queueing time; otherwise it is admitted at once (slot free) or queued -/
theorem flow_block_iff (id : String) (thr : F64) (ivl maxq last now batch : Nat) (hb : batch ≠ 0) :
    (∃ r s, (throttleCheck id thr ivl maxq last now batch).2 = .blocked r s) ↔
      neverServable thr batch = true ∨ (last + flowCost thr ivl batch > now ∧ last + flowCost thr ivl batch - now > maxq) := by
  rcases throttleCheck_cases id thr ivl maxq last now batch hb with ⟨h1, r, s, e⟩ | ⟨h1, h2, e⟩ | ⟨h1, h2, h3, r, s, e⟩ | ⟨h1, h2, h3, e⟩
  · rw [e]; exact ⟨fun _ => Or.inl h1, fun _ => ⟨r, s, rfl⟩⟩
  · rw [e]; constructor
    · intro ⟨r, s, h⟩; cases h
    · intro h; rcases h with h | ⟨h, _⟩
      · rw [h1] at h; cases h
      · omega
  · rw [e]; exact ⟨fun _ => Or.inr ⟨h2, h3⟩, fun _ => ⟨r, s, rfl⟩⟩
  · rw [e]; constructor
    · intro ⟨r, s, h⟩; cases h
    · intro h; rcases h with h | ⟨_, h⟩
      · rw [h1] at h; cases h
      · omega

/-- a request of 0 tokens always passes, undelayed -/
theorem flow_zero_batch (id : String) (thr : F64) (ivl maxq last now : Nat) :
    throttleCheck id thr ivl maxq last now 0 = (last, .pass) := by
  simp [throttleCheck]

/-- **Queueing is bounded**: a queued request waits at most the maximum queueing time -/
theorem flow_wait_le_max (id : String) (thr : F64) (ivl maxq last now batch ns : Nat)
    (h : (throttleCheck id thr ivl maxq last now batch).2 = .wait ns) : ns ≤ maxq := by
  by_cases hb : batch = 0
  · subst hb; rw [flow_zero_batch] at h; cases h
  · rcases throttleCheck_cases id thr ivl maxq last now batch hb with ⟨h1, r, s, e⟩ | ⟨h1, h2, e⟩ | ⟨h1, h2, h3, r, s, e⟩ | ⟨h1, h2, h3, e⟩
    · rw [e] at h; cases h
    · rw [e] at h; cases h
    · rw [e] at h; cases h
    · rw [e] at h; simp only [FlowRes.wait.injEq] at h; omega

/-- **Pacing**: whenever a request is admitted (at once or queued), the new scheduled time is at least one cost after the
previous scheduled time, is never in the past, and equals arrival + wait -/
theorem flow_spacing (id : String) (thr : F64) (ivl maxq last now batch : Nat) (hb : batch ≠ 0)
    (h : ∀ r s, (throttleCheck id thr ivl maxq last now batch).2 ≠ .blocked r s) :
    (throttleCheck id thr ivl maxq last now batch).1 ≥ last + flowCost thr ivl batch ∧
    (throttleCheck id thr ivl maxq last now batch).1 ≥ now ∧
      (∀ ns, (throttleCheck id thr ivl maxq last now batch).2 = .wait ns →
        (throttleCheck id thr ivl maxq last now batch).1 = now + ns) ∧
      ((throttleCheck id thr ivl maxq last now batch).2 = .pass → (throttleCheck id thr ivl maxq last now batch).1 = now) := by
  rcases throttleCheck_cases id thr ivl maxq last now batch hb with ⟨h1, r, s, e⟩ | ⟨h1, h2, e⟩ | ⟨h1, h2, h3, r, s, e⟩ | ⟨h1, h2, h3, e⟩
  · rw [e] at h; exact absurd rfl (h r s)
  · rw [e]; exact ⟨h2, Nat.le_refl _, ⟨(fun ns hns => by cases hns), (fun _ => rfl)⟩⟩
  · rw [e] at h; exact absurd rfl (h r s)
  · rw [e]; refine ⟨Nat.le_refl _, by simp only []; omega, fun ns hns => ?_, fun hp => by cases hp⟩
    simp only [FlowRes.wait.injEq] at hns; simp only []; omega

/-- a rejected request leaves the schedule untouched -/
theorem flow_block_keeps_schedule (id : String) (thr : F64) (ivl maxq last now batch : Nat) (r s : String)
    (h : (throttleCheck id thr ivl maxq last now batch).2 = .blocked r s) :
    (throttleCheck id thr ivl maxq last now batch).1 = last := by
  by_cases hb : batch = 0
  · subst hb; rw [flow_zero_batch]
  · rcases throttleCheck_cases id thr ivl maxq last now batch hb with ⟨h1, r', s', e⟩ | ⟨h1, h2, e⟩ | ⟨h1, h2, h3, r', s', e⟩ | ⟨h1, h2, h3, e⟩
    · rw [e]
    · rw [e] at h; cases h
    · rw [e]
    · rw [e] at h; cases h

/-- **The caller is really held**: a flow slot with one throttling controller returns with the clock at the scheduled
time of the request (arrival + wait); the protected code cannot start earlier -/
theorem flow_caller_held (c : FlowCtrl) (node : Node) (now batch ns : Nat) (c' : FlowCtrl)
    (h : c.step node now batch = (c', .wait ns)) :
    (flowSlot [c] node now batch).2.1 = now + ns := by
  simp only [flowSlot, h]

/-- the clock never goes backwards through the flow slot, whatever the controllers -/
theorem flowSlot_clock_mono (ctrls : List FlowCtrl) (node : Node) (now batch : Nat) :
    now ≤ (flowSlot ctrls node now batch).2.1 := by
  induction ctrls generalizing now with
  | nil => exact Nat.le_refl _
  | cons c rest ih =>
    unfold flowSlot
    cases hs : c.step node now batch with
    | mk c' r =>
      cases r with
      | pass => simp only []; exact ih now
      | wait ns => simp only []; exact Nat.le_trans (Nat.le_add_right _ _) (ih (now + ns))
      | blocked a b => simp only []; exact Nat.le_refl _

/-! ### whole histories of one flow throttling rule -/

/-- run arrivals `(time ns, batch)` (newest first); returns the schedule variable and the list of scheduled times with
the cost each admitted request was charged (newest first) -/
def throttleRun (id : String) (thr : F64) (ivl maxq : Nat) : List (Nat × Nat) → Nat × List (Nat × Nat)
  | [] => (0, [])
  | (t, n) :: older =>
    let (last, sched) := throttleRun id thr ivl maxq older
    let (last', r) := throttleCheck id thr ivl maxq last t n
    match r with
    | .blocked _ _ => (last', sched)
    | _ => if n = 0 then (last', sched) else (last', (last', flowCost thr ivl n) :: sched)

/-- consecutive scheduled times are at least the later request's cost apart -/
def Spaced : List (Nat × Nat) → Prop
  | [] => True
  | [_] => True
  | a :: b :: rest => a.1 ≥ b.1 + a.2 ∧ Spaced (b :: rest)

/-- **Pacing over every history**: for every arrival sequence of any length (any instants, bursts included) the
scheduled times of admitted requests are spaced by at least the cost of the later request -/
theorem flow_spacing_run (id : String) (thr : F64) (ivl maxq : Nat) (arr : List (Nat × Nat)) :
    Spaced (throttleRun id thr ivl maxq arr).2 ∧
      (∀ a, (throttleRun id thr ivl maxq arr).2.head? = some a → a.1 = (throttleRun id thr ivl maxq arr).1) := by
  induction arr with
  | nil => exact ⟨trivial, fun _ h => by cases h⟩
  | cons a older ih =>
    obtain ⟨t, n⟩ := a
    obtain ⟨hsp, hhead⟩ := ih
    simp only [throttleRun]
    cases hrun : throttleRun id thr ivl maxq older with
    | mk last sched =>
      rw [hrun] at hsp hhead
      simp only [] at hsp hhead ⊢
      cases hchk : throttleCheck id thr ivl maxq last t n with
      | mk last' r =>
        cases r with
        | blocked x y =>
          simp only []
          have := flow_block_keeps_schedule id thr ivl maxq last t n x y (by rw [hchk])
          rw [hchk] at this
          simp only [] at this
          subst this
          exact ⟨hsp, hhead⟩
        | pass =>
          simp only []
          by_cases hn : n = 0
          · simp only [hn, if_true]
            subst hn
            rw [flow_zero_batch] at hchk
            simp only [Prod.mk.injEq] at hchk
            rw [← hchk.1]
            exact ⟨hsp, hhead⟩
          · simp only [hn, if_false]
            have hs := flow_spacing id thr ivl maxq last t n hn (by rw [hchk]; intro r s h; cases h)
            rw [hchk] at hs
            simp only [] at hs
            refine ⟨?_, fun a h => by simp at h; rw [← h]⟩
            cases sched with
            | nil => trivial
            | cons b rest =>
              have := hhead b rfl
              exact ⟨by simp only []; omega, hsp⟩
        | wait ns =>
          simp only []
          by_cases hn : n = 0
          · subst hn
            rw [flow_zero_batch] at hchk
            simp only [Prod.mk.injEq] at hchk
            cases hchk.2
          · simp only [hn, if_false]
            have hs := flow_spacing id thr ivl maxq last t n hn (by rw [hchk]; intro r s h; cases h)
            rw [hchk] at hs
            simp only [] at hs
            refine ⟨?_, fun a h => by simp at h; rw [← h]⟩
            cases sched with
            | nil => trivial
            | cons b rest =>
              have := hhead b rfl
              exact ⟨by simp only []; omega, hsp⟩

/-! ### hotspot throttling, per value -/

/-- what `checkThrottle` does to one value's last-scheduled time (ms): `none` = first request -/
def hsThrottleStep (q durSec maxq : Nat) (cell : Option Nat) (now batch : Nat) : Option Nat × HsRes :=
  if q = 0 then (cell, .blocked 0 "zero-threshold") else
  let cost := throttleCost batch durSec q
  match cell with
  | none => (some now, .pass)
  | some last =>
    let expected := last + cost
    if expected ≤ now ∨ expected - now < maxq then
      if expected > now then (some expected, .wait (expected - now)) else (some now, .pass)
    else (some last, .blocked q "queue-too-long")

/-- a queued request waits less than the maximum queueing time and is scheduled exactly one cost after the previous one -/
theorem hs_throttle_wait (q durSec maxq last now batch w : Nat) (cell' : Option Nat)
    (h : hsThrottleStep q durSec maxq (some last) now batch = (cell', .wait w)) :
    cell' = some (now + w) ∧ w < maxq ∧ now + w = last + throttleCost batch durSec q := by
  unfold hsThrottleStep at h
  by_cases hq : q = 0
  · simp only [hq, if_true, Prod.mk.injEq] at h; cases h.2
  · simp only [hq, if_false] at h
    by_cases hc : last + throttleCost batch durSec q ≤ now ∨ last + throttleCost batch durSec q - now < maxq
    · simp only [hc, if_true] at h
      by_cases hg : last + throttleCost batch durSec q > now
      · simp only [hg, if_true, Prod.mk.injEq, HsRes.wait.injEq] at h
        refine ⟨by rw [← h.1]; congr 1; omega, by omega, by omega⟩
      · simp only [hg, if_false, Prod.mk.injEq] at h; cases h.2
    · simp only [hc, if_false, Prod.mk.injEq] at h; cases h.2

/-- a request admitted at once finds its slot free: the previous schedule plus one cost is not in the future -/
theorem hs_throttle_pass (q durSec maxq last now batch : Nat) (cell' : Option Nat)
    (h : hsThrottleStep q durSec maxq (some last) now batch = (cell', .pass)) :
    cell' = some now ∧ last + throttleCost batch durSec q ≤ now := by
  unfold hsThrottleStep at h
  by_cases hq : q = 0
  · simp only [hq, if_true, Prod.mk.injEq] at h; cases h.2
  · simp only [hq, if_false] at h
    by_cases hc : last + throttleCost batch durSec q ≤ now ∨ last + throttleCost batch durSec q - now < maxq
    · simp only [hc, if_true] at h
      by_cases hg : last + throttleCost batch durSec q > now
      · simp only [hg, if_true, Prod.mk.injEq] at h; cases h.2
      · simp only [hg, if_false, Prod.mk.injEq] at h
        exact ⟨h.1.symm, by omega⟩
    · simp only [hc, if_false, Prod.mk.injEq] at h; cases h.2

/-- a rejected request (threshold > 0) would have waited at least the maximum queueing time; the schedule is untouched -/
theorem hs_throttle_blocked (q durSec maxq last now batch snap : Nat) (why : String) (cell' : Option Nat) (hq : q ≠ 0)
    (h : hsThrottleStep q durSec maxq (some last) now batch = (cell', .blocked snap why)) :
    cell' = some last ∧ last + throttleCost batch durSec q > now ∧ last + throttleCost batch durSec q - now ≥ maxq := by
  unfold hsThrottleStep at h
  simp only [hq, if_false] at h
  by_cases hc : last + throttleCost batch durSec q ≤ now ∨ last + throttleCost batch durSec q - now < maxq
  · simp only [hc, if_true] at h
    by_cases hg : last + throttleCost batch durSec q > now
    · simp only [hg, if_true, Prod.mk.injEq] at h; cases h.2
    · simp only [hg, if_false, Prod.mk.injEq] at h; cases h.2
  · simp only [hc, if_false, Prod.mk.injEq] at h
    exact ⟨h.1.symm, by omega, by omega⟩

/-- the first request for a value passes undelayed (its schedule starts now) -/
theorem hs_throttle_first (q durSec maxq now batch : Nat) (hq : q ≠ 0) :
    hsThrottleStep q durSec maxq none now batch = (some now, .pass) := by
  simp [hsThrottleStep, hq]

/-- the hotspot slot holds the caller for the wait the checker returned, converted to nanoseconds -/
theorem hs_caller_held (sleepNs : Nat → Nat) (c c' : HsCtrl) (now batch w : Nat) (args : Option (List String))
    (atts : Option (List (String × String))) (arg : String)
    (ha : extractArgs c.rule args atts = some arg) (h : c.check (now / 1000000) arg batch = (c', .wait w)) :
    (hsSlot sleepNs [c] now args atts batch).2.1 = now + sleepNs w := by
  simp only [hsSlot, ha, h]

theorem hsWaitToNs_is_ms_to_ns (ms : Nat) : hsWaitToNs ms = ms * 1000000 := rfl

/-- **The controller is the per-value schedule**: for a value with room in the time counter, `checkThrottle` returns what
`hsThrottleStep` returns on that value's cell, writes that cell only, and leaves every other value's cell untouched -/
theorem checkThrottle_cell (c : HsCtrl) (now : Nat) (arg other : String) (batch : Nat) (h : c.time.Room arg) :
    (c.checkThrottle now arg batch).2 =
        (hsThrottleStep (c.rule.thrFor arg) c.rule.durSec c.rule.maxQueueMs (c.time.peek arg) now batch).2 ∧
    ((c.checkThrottle now arg batch).1.time.peek arg =
        (hsThrottleStep (c.rule.thrFor arg) c.rule.durSec c.rule.maxQueueMs (c.time.peek arg) now batch).1) ∧
    (other ≠ arg → (c.checkThrottle now arg batch).1.time.peek other = c.time.peek other) := by
  have hTa := Lru.peek_addIfAbsent c.time arg arg now h
  have hTo := Lru.peek_addIfAbsent c.time arg other now h
  simp only [if_true] at hTa
  unfold HsCtrl.checkThrottle hsThrottleStep
  have hcap : ¬ c.time.cap = 0 := h.1
  simp only [hcap, if_false]
  by_cases hq : c.rule.thrFor arg = 0
  · simp only [hq, if_true]
    refine ⟨?_, ?_, ?_⟩ <;> first | trivial | rfl | (intro _; rfl) | simp
  · simp only [hq, if_false]
    cases hp : c.time.peek arg with
    | none =>
      have e : c.time.addIfAbsent arg now = ((c.time.addIfAbsent arg now).1, none) := by
        have := hTa.1; rw [hp] at this; rw [← this]
      rw [e]; simp only []
      refine ⟨by first | trivial | rfl, by first | trivial | (rw [hTa.2, hp]; rfl) | simp [hTa.2, hp], fun hne => by rw [hTo.2]; simp [hne]⟩
    | some lastT =>
      have e : c.time.addIfAbsent arg now = ((c.time.addIfAbsent arg now).1, some lastT) := by
        have := hTa.1; rw [hp] at this; rw [← this]
      have hT1 : (c.time.addIfAbsent arg now).1.peek arg = some lastT := by rw [hTa.2, hp]; rfl
      have hTo' : other ≠ arg → (c.time.addIfAbsent arg now).1.peek other = c.time.peek other := by
        intro hne; rw [hTo.2]; simp [hne]
      rw [e]; simp only []
      split
      · split
        · refine ⟨rfl, by simp only [Lru.peek_store, if_true, hT1, Option.map_some], fun hne => ?_⟩
          simp only [Lru.peek_store, hne, if_false]; exact hTo' hne
        · refine ⟨rfl, by simp only [Lru.peek_store, if_true, hT1, Option.map_some], fun hne => ?_⟩
          simp only [Lru.peek_store, hne, if_false]; exact hTo' hne
      · exact ⟨rfl, hT1, hTo'⟩

/-! ## every history: no eviction and no cross-talk while the distinct values fit the capacity -/

/-- a throttling check changes the time counter only by an `LruStep` -/
theorem checkThrottle_step (c : HsCtrl) (now : Nat) (arg : String) (batch : Nat) (h : c.time.Room arg) :
    LruStep c.time (c.checkThrottle now arg batch).1.time arg := by
  have sT := LruStep.add c.time arg now h
  unfold HsCtrl.checkThrottle
  have hcap : ¬ c.time.cap = 0 := h.1
  simp only [hcap, if_false]
  split
  · exact LruStep.same _ _
  · cases hl : (c.time.addIfAbsent arg now).2 with
    | none =>
      have e : c.time.addIfAbsent arg now = ((c.time.addIfAbsent arg now).1, none) := by rw [← hl]
      rw [e]; exact sT
    | some lastT =>
      have e : c.time.addIfAbsent arg now = ((c.time.addIfAbsent arg now).1, some lastT) := by rw [← hl]
      rw [e]; simp only []
      split
      · split
        · exact sT.store _ _
        · exact sT.store _ _
      · exact sT

theorem checkThrottle_rule (c : HsCtrl) (now : Nat) (arg : String) (batch : Nat) : (c.checkThrottle now arg batch).1.rule = c.rule := by
  unfold HsCtrl.checkThrottle
  split
  · rfl
  · simp only []
    split
    · rfl
    · generalize c.time.addIfAbsent arg now = p
      obtain ⟨time', last⟩ := p
      cases last <;> simp only [] <;> (repeat' split) <;> rfl

/-- the time counter's invariant with respect to a universe `U` of parameter values that fits it -/
structure TimeInv (c : HsCtrl) (U : List String) : Prop where
  capT : c.time.cap ≠ 0
  fitT : U.length ≤ c.time.cap
  subT : ∀ x ∈ c.time.keys, x ∈ U
  ndT : c.time.keys.Nodup

theorem TimeInv.room {c : HsCtrl} {U : List String} (h : TimeInv c U) (arg : String) (ha : arg ∈ U) : c.time.Room arg :=
  Lru.room_of_universe c.time U arg h.capT h.fitT h.ndT h.subT ha

theorem checkThrottle_inv (c : HsCtrl) (U : List String) (now : Nat) (arg : String) (batch : Nat) (h : TimeInv c U) (ha : arg ∈ U) :
    TimeInv (c.checkThrottle now arg batch).1 U := by
  obtain ⟨t1, t2, t3⟩ := checkThrottle_step c now arg batch (h.room arg ha)
  refine ⟨by rw [t3]; exact h.capT, by rw [t3]; exact h.fitT, ?_, t2 h.ndT⟩
  intro x hx
  rcases t1 x hx with rfl | hx'
  · exact ha
  · exact h.subT x hx'

/-- run a sequence of throttling checks `(time, value, batch)` (oldest first), collecting the verdicts -/
def HsCtrl.runThrottle (c : HsCtrl) : List (Nat × String × Nat) → HsCtrl × List HsRes
  | [] => (c, [])
  | (t, v, n) :: rest =>
    let (c1, r) := c.checkThrottle t v n
    let (c2, rs) := c1.runThrottle rest
    (c2, r :: rs)

/-- the same sequence seen by independent per-value schedules -/
def schedulesRun (rule : HsRule) (cells : String → Option Nat) : List (Nat × String × Nat) → (String → Option Nat) × List HsRes
  | [] => (cells, [])
  | (t, v, n) :: rest =>
    let (s', r) := hsThrottleStep (rule.thrFor v) rule.durSec rule.maxQueueMs (cells v) t n
    let (cells2, rs) := schedulesRun rule (fun x => if x = v then s' else cells x) rest
    (cells2, r :: rs)

/-- **No cross-talk, every history (hotspot throttling)**: for every sequence of requests, of any length, over a set of distinct
values no larger than the rule's capacity, the controller's verdicts - pass, wait with its amount, or block - are exactly those of
independent per-value pacing schedules (`hs_throttle_wait/_pass/_blocked/_first` say what each of those does); nothing is evicted. -/
theorem throttle_run_refines_schedules (c : HsCtrl) (U : List String) (reqs : List (Nat × String × Nat)) (h : TimeInv c U)
    (hU : ∀ r ∈ reqs, r.2.1 ∈ U) :
    (c.runThrottle reqs).2 = (schedulesRun c.rule c.time.peek reqs).2 ∧
    TimeInv (c.runThrottle reqs).1 U ∧
    (∀ v, (c.runThrottle reqs).1.time.peek v = (schedulesRun c.rule c.time.peek reqs).1 v) := by
  induction reqs generalizing c with
  | nil => exact ⟨rfl, h, fun _ => rfl⟩
  | cons r rest ih =>
    obtain ⟨t, v, n⟩ := r
    have hv : v ∈ U := hU (t, v, n) (by simp)
    have hroom := h.room v hv
    have hinv := checkThrottle_inv c U t v n h hv
    have hrule := checkThrottle_rule c t v n
    have hcells : (c.checkThrottle t v n).1.time.peek =
        (fun x => if x = v then (hsThrottleStep (c.rule.thrFor v) c.rule.durSec c.rule.maxQueueMs (c.time.peek v) t n).1 else c.time.peek x) := by
      funext x
      obtain ⟨_, c2, c3⟩ := checkThrottle_cell c t v x n hroom
      by_cases hx : x = v
      · subst hx; simp only [if_true]; exact c2
      · simp only [hx, if_false]; exact c3 hx
    obtain ⟨c1, _, _⟩ := checkThrottle_cell c t v v n hroom
    obtain ⟨i1, i2, i3⟩ := ih (c.checkThrottle t v n).1 hinv (fun r hr => hU r (by simp [hr]))
    rw [hrule, hcells] at i1 i3
    simp only [HsCtrl.runThrottle, schedulesRun]
    refine ⟨?_, i2, i3⟩
    rw [i1, c1]

/-- the hotspot slot's dispatch is `checkThrottle` for a QPS rule with the throttling strategy -/
theorem check_is_checkThrottle (c : HsCtrl) (now : Nat) (arg : String) (batch : Nat) (hm : c.rule.metric = .qps) (hs : c.rule.strategy = .throttling) :
    c.check now arg batch = c.checkThrottle now arg batch := by
  unfold HsCtrl.check; rw [hm, hs]

/-! ## non-vacuity -/
example : (throttleRun "t" (F64.ofNat 2) 1000000000 500000000 [(10, 1), (5, 1), (0, 1)]).2.length = 1 := by decide

end Sentinel
