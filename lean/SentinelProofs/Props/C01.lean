import Sentinel.World
import SentinelProofs.Props.C02
/-!
# C01 — reject-type flow control admits a request iff it fits every rule's window

The flow part of `World.build` is `flowCheck` (decision) followed by `Node.recordPass` /
`FlowCtrl.recordPass` (on admission) or `Node.recordBlock`. `FlowSys` below is exactly that
composition for one resource. Theorems quantify over every list of controllers (any number, any
thresholds, any `stat_interval_ms`), every operation sequence of any length with non-decreasing
times, every batch count (incl. 0) and every completion interleaving.
-/
set_option autoImplicit false
namespace Sentinel

/-! ## Spec -/

/-- tokens admitted (history of `(time, tokens)`, newest first) whose bucket of length `L` starts in `[lo, hi]` -/
def admittedSum (L : Nat) (adm : List (Nat × Nat)) (lo hi : Nat) : Nat :=
  ((adm.filter (fun a => lo ≤ a.1 - a.1 % L && a.1 - a.1 % L ≤ hi)).map (·.2)).sum

/-- bucket length and width of a controller's statistic window -/
def FlowCtrl.geo (c : FlowCtrl) : Nat × Nat :=
  match c.stat with
  | .global rd => (500, rd.iv)
  | .priv g _ rd _ => (g.L, rd.iv)
  | .nop => (1, 1)

/-- the request of `n` tokens at `now` fits a rule with threshold `thr` whose window is `W` wide in buckets of `L`:
admitted-in-window + n ≤ threshold (exact comparison) -/
def FitsW (adm : List (Nat × Nat)) (thr : F64) (L W now n : Nat) : Prop :=
  F64.ltNat thr (admittedSum L adm ((now - now % L) - W + L) (now - now % L) + n) = false

def Fits (adm : List (Nat × Nat)) (c : FlowCtrl) (now n : Nat) : Prop :=
  FitsW adm c.thr c.geo.1 c.geo.2 now n

/-! ## the system: one resource, its node and its controllers -/

structure FlowSys where
  node : Node
  ctrls : List FlowCtrl

/-- the flow-relevant part of `World.build` -/
def FlowSys.enter (s : FlowSys) (now batch : Nat) : FlowSys × Bool :=
  match flowCheck s.ctrls s.node now batch with
  | some _ => ({ s with node := s.node.recordBlock now batch }, false)
  | none => ({ node := s.node.recordPass now batch, ctrls := s.ctrls.map (fun c => c.recordPass now batch) }, true)

/-- the flow-relevant part of `World.exit` -/
def FlowSys.complete (s : FlowSys) (now batch rt : Nat) : FlowSys :=
  { s with node := s.node.recordComplete now batch rt }

inductive FOp where
  | enter (t n : Nat)
  | complete (t n rt : Nat)

def FOp.time : FOp → Nat
  | .enter t _ => t
  | .complete t _ _ => t

/-- run a list of operations (newest first); returns the state and the admitted history (newest first) -/
def FlowSys.run (s0 : FlowSys) : List FOp → FlowSys × List (Nat × Nat)
  | [] => (s0, [])
  | .enter t n :: older =>
    let (s, adm) := FlowSys.run s0 older
    let (s', ok) := s.enter t n
    (s', if ok then (t, n) :: adm else adm)
  | .complete t n rt :: older =>
    let (s, adm) := FlowSys.run s0 older
    (s.complete t n rt, adm)

/-! ## helper lemmas -/

theorem windowSum_cons (L : Nat) (e : TEv) (evs : List TEv) (lo hi : Nat) (k : Kind) :
    windowSum L (e :: evs) lo hi k =
      (if lo ≤ e.1 - e.1 % L ∧ e.1 - e.1 % L ≤ hi then e.2.amount k else 0) + windowSum L evs lo hi k := by
  unfold windowSum
  rw [List.filter_cons]
  by_cases h : lo ≤ e.1 - e.1 % L ∧ e.1 - e.1 % L ≤ hi
  · have hd : (decide (lo ≤ e.1 - e.1 % L) && decide (e.1 - e.1 % L ≤ hi)) = true := by
      simp only [Bool.and_eq_true, decide_eq_true_eq]; exact h
    rw [if_pos hd, if_pos h, List.map_cons, List.sum_cons]
  · have hd : ¬ ((decide (lo ≤ e.1 - e.1 % L) && decide (e.1 - e.1 % L ≤ hi)) = true) := by
      simp only [Bool.and_eq_true, decide_eq_true_eq]; exact h
    rw [if_neg hd, if_neg h, Nat.zero_add]

theorem admittedSum_cons (L : Nat) (a : Nat × Nat) (adm : List (Nat × Nat)) (lo hi : Nat) :
    admittedSum L (a :: adm) lo hi =
      (if lo ≤ a.1 - a.1 % L ∧ a.1 - a.1 % L ≤ hi then a.2 else 0) + admittedSum L adm lo hi := by
  unfold admittedSum
  rw [List.filter_cons]
  by_cases h : lo ≤ a.1 - a.1 % L ∧ a.1 - a.1 % L ≤ hi
  · have hd : (decide (lo ≤ a.1 - a.1 % L) && decide (a.1 - a.1 % L ≤ hi)) = true := by
      simp only [Bool.and_eq_true, decide_eq_true_eq]; exact h
    rw [if_pos hd, if_pos h, List.map_cons, List.sum_cons]
  · have hd : ¬ ((decide (lo ≤ a.1 - a.1 % L) && decide (a.1 - a.1 % L ≤ hi)) = true) := by
      simp only [Bool.and_eq_true, decide_eq_true_eq]; exact h
    rw [if_neg hd, if_neg h, Nat.zero_add]

theorem binv_mono (g : Geo) (r : BRing) (evs : List TEv) (tl t : Nat) (h : BInv g r evs tl) (ht : tl ≤ t) :
    BInv g r evs t :=
  ⟨h.len, fun i hi hne => ⟨(h.slot i hi hne).1, (h.slot i hi hne).2.1,
      Nat.le_trans (h.slot i hi hne).2.2 (g.start_mono ht)⟩, h.val, h.newest,
    fun e he => Nat.le_trans (h.times e he) ht⟩

/-- the pass amounts in a ring history are exactly the admitted tokens -/
def PassAgree (hist : List TEv) (adm : List (Nat × Nat)) : Prop :=
  ∀ L lo hi, windowSum L hist lo hi .pass = admittedSum L adm lo hi

theorem passAgree_nil : PassAgree [] [] := fun _ _ _ => rfl

theorem passAgree_other (hist : List TEv) (adm : List (Nat × Nat)) (t : Nat) (e : Ev)
    (h : PassAgree hist adm) (he : e.amount .pass = 0) : PassAgree ((t, e) :: hist) adm := by
  intro L lo hi
  rw [windowSum_cons, h L lo hi, he]; simp

theorem passAgree_pass (hist : List TEv) (adm : List (Nat × Nat)) (t n : Nat)
    (h : PassAgree hist adm) : PassAgree ((t, .add .pass n) :: hist) ((t, n) :: adm) := by
  intro L lo hi
  rw [windowSum_cons, admittedSum_cons, h L lo hi]
  simp [Ev.amount]

/-- node invariant: ring refinement + pass amounts = admitted tokens -/
structure NodeOk (n : Node) (adm : List (Nat × Nat)) (tl : Nat) : Prop where
  inv : BInv globalGeo n.ring n.hist tl
  agree : PassAgree n.hist adm

theorem globalGeo_n : 0 < globalGeo.n := by decide
theorem globalGeo_L : 0 < globalGeo.L := by decide

theorem node_record (n : Node) (adm : List (Nat × Nat)) (tl t : Nat) (e : Ev)
    (h : NodeOk n adm tl) (ht : tl ≤ t) (hpos : 0 < globalGeo.start t) :
    BInv globalGeo (n.record t e).ring (n.record t e).hist t ∧ (n.record t e).hist = (t, e) :: n.hist ∧
      (n.record t e).conc = n.conc := by
  obtain ⟨r', hw, hinv⟩ := ring_inv_record globalGeo globalGeo_n globalGeo_L n.ring n.hist tl t e h.inv ht hpos
  unfold Node.record
  rw [hw]
  exact ⟨hinv, rfl, rfl⟩

theorem nodeOk_recordPass (n : Node) (adm : List (Nat × Nat)) (tl t b : Nat)
    (h : NodeOk n adm tl) (ht : tl ≤ t) (hpos : 0 < globalGeo.start t) :
    NodeOk (n.recordPass t b) ((t, b) :: adm) t := by
  unfold Node.recordPass Node.increaseConcurrency Node.addCount
  have h0 : NodeOk { n with conc := n.conc + 1 } adm tl := ⟨h.inv, h.agree⟩
  obtain ⟨i1, e1, _⟩ := node_record _ adm tl t (.conc (n.conc + 1)) h0 ht hpos
  have h1 : NodeOk (({ n with conc := n.conc + 1 } : Node).record t (.conc (n.conc + 1))) adm t :=
    ⟨i1, by rw [e1]; exact passAgree_other _ _ _ _ h.agree rfl⟩
  obtain ⟨i2, e2, _⟩ := node_record _ adm t t (.add .pass b) h1 (Nat.le_refl _) hpos
  exact ⟨i2, by rw [e2]; exact passAgree_pass _ _ _ _ h1.agree⟩

theorem nodeOk_recordBlock (n : Node) (adm : List (Nat × Nat)) (tl t b : Nat)
    (h : NodeOk n adm tl) (ht : tl ≤ t) (hpos : 0 < globalGeo.start t) :
    NodeOk (n.recordBlock t b) adm t := by
  unfold Node.recordBlock Node.addCount
  obtain ⟨i1, e1, _⟩ := node_record _ adm tl t (.add .block b) h ht hpos
  exact ⟨i1, by rw [e1]; exact passAgree_other _ _ _ _ h.agree rfl⟩

theorem nodeOk_recordComplete (n : Node) (adm : List (Nat × Nat)) (tl t b rt : Nat)
    (h : NodeOk n adm tl) (ht : tl ≤ t) (hpos : 0 < globalGeo.start t) :
    NodeOk (n.recordComplete t b rt) adm t := by
  unfold Node.recordComplete Node.addCount Node.decreaseConcurrency
  obtain ⟨i1, e1, _⟩ := node_record _ adm tl t (.add .rt rt) h ht hpos
  have h1 : NodeOk (n.record t (.add .rt rt)) adm t := ⟨i1, by rw [e1]; exact passAgree_other _ _ _ _ h.agree rfl⟩
  obtain ⟨i2, e2, _⟩ := node_record _ adm t t (.add .complete b) h1 (Nat.le_refl _) hpos
  exact ⟨i2, by rw [e2]; exact passAgree_other _ _ _ _ h1.agree rfl⟩

/-- a controller's statistics are well formed w.r.t. the admitted history -/
def CtrlOk (c : FlowCtrl) (adm : List (Nat × Nat)) (tl : Nat) : Prop :=
  match c.stat with
  | .global rd => 500 ≤ rd.iv ∧ rd.iv ≤ 10000
  | .priv g ring rd hist => 0 < g.n ∧ 0 < g.L ∧ g.L ≤ rd.iv ∧ rd.iv ≤ g.interval ∧ BInv g ring hist tl ∧ PassAgree hist adm
  | .nop => False      -- a rule that needs statistics (every reject rule) never gets the no-op statistic

/-- guard: no `u64` wrap in `end - interval + bucket_len`, stamp 0 means never used -/
def CtrlGuard (c : FlowCtrl) (t : Nat) : Prop :=
  match c.stat with
  | .global rd => rd.iv ≤ globalGeo.start t
  | .priv g _ rd _ => rd.iv ≤ g.start t ∧ 0 < g.start t
  | .nop => True

/-- whatever `stat_interval_ms` a rule carries, the statistics generated for it are well formed -/
theorem flowStatFor_ok (id : String) (thr : F64) (ivl : Nat) (tl : Nat) :
    CtrlOk { id := id, thr := thr, ivl := ivl, stat := flowStatFor ivl } [] tl := by
  unfold CtrlOk flowStatFor
  by_cases h0 : ivl = 0 ∨ ivl = 1000
  · simp only [h0, if_true]; decide
  · simp only [h0, if_false]
    by_cases hr : checkReuse (if ivl > 500 ∧ ivl < 10000 ∧ ivl % 500 = 0 then ivl / 500 else 1) ivl 20 10000 = 0
    · simp only [hr, if_true]
      have := checkReuse_tiles _ _ _ _ hr
      exact ⟨by omega, by omega⟩
    · simp only [hr, if_false]
      have hiv : 0 < ivl := by omega
      by_cases hs : ivl > 500 ∧ ivl < 10000 ∧ ivl % 500 = 0
      · simp only [hs, and_self, if_true]
        have hsc : 0 < ivl / 500 := Nat.div_pos (by omega) (by decide)
        have hdiv : ivl / (ivl / 500) = 500 := by
          have h5 : ivl = 500 * (ivl / 500) := by have := Nat.mod_add_div ivl 500; omega
          conv => lhs; lhs; rw [h5]
          exact Nat.mul_div_cancel _ hsc
        refine ⟨hsc, by rw [hdiv]; decide, by rw [hdiv]; omega, ?_, ring_inv_init' _ tl, passAgree_nil⟩
        show ivl ≤ (ivl / 500) * (ivl / (ivl / 500))
        rw [hdiv]; have := Nat.mod_add_div ivl 500; omega
      · simp only [hs, if_false]
        refine ⟨by decide, by simpa using hiv, by simp, ?_, ring_inv_init' _ tl, passAgree_nil⟩
        show ivl ≤ 1 * (ivl / 1); simp

theorem ctrlOk_mono (c : FlowCtrl) (adm : List (Nat × Nat)) (tl t : Nat) (h : CtrlOk c adm tl) (ht : tl ≤ t) :
    CtrlOk c adm t := by
  unfold CtrlOk at *
  cases hs : c.stat with
  | global rd => rw [hs] at h; exact h
  | priv g ring rd hist =>
    rw [hs] at h
    exact ⟨h.1, h.2.1, h.2.2.1, h.2.2.2.1, binv_mono g ring hist tl t h.2.2.2.2.1 ht, h.2.2.2.2.2⟩
  | nop => rw [hs] at h; exact h.elim

theorem ctrlOk_recordPass (c : FlowCtrl) (adm : List (Nat × Nat)) (tl t b : Nat)
    (h : CtrlOk c adm tl) (ht : tl ≤ t) (hg : CtrlGuard c t) :
    CtrlOk (c.recordPass t b) ((t, b) :: adm) t ∧ (c.recordPass t b).thr = c.thr ∧ (c.recordPass t b).geo = c.geo := by
  unfold FlowCtrl.recordPass
  cases hs : c.stat with
  | global rd =>
    simp only []
    unfold CtrlOk at *; rw [hs] at h
    refine ⟨by rw [hs]; exact h, ?_, ?_⟩ <;> first | trivial | rfl
  | priv g ring rd hist =>
    simp only []
    unfold CtrlOk at h; rw [hs] at h
    unfold CtrlGuard at hg; rw [hs] at hg
    obtain ⟨r', hw, hinv⟩ := ring_inv_record g h.1 h.2.1 ring hist tl t (.add .pass b) h.2.2.2.2.1 ht hg.2
    rw [hw]
    refine ⟨?_, rfl, ?_⟩
    · unfold CtrlOk
      exact ⟨h.1, h.2.1, h.2.2.1, h.2.2.2.1, hinv, passAgree_pass _ _ _ _ h.2.2.2.2.2⟩
    · unfold FlowCtrl.geo; rw [hs]
  | nop => unfold CtrlOk at h; rw [hs] at h; exact h.elim

/-- what a controller reads is the Spec's window count -/
theorem curCount_eq (c : FlowCtrl) (node : Node) (adm : List (Nat × Nat)) (tl now : Nat)
    (hn : NodeOk node adm tl) (hc : CtrlOk c adm tl) (hnow : tl ≤ now) (hg : CtrlGuard c now) :
    c.curCount node now =
      admittedSum c.geo.1 adm ((now - now % c.geo.1) - c.geo.2 + c.geo.1) (now - now % c.geo.1) := by
  unfold FlowCtrl.curCount FlowCtrl.geo
  unfold CtrlOk at hc
  unfold CtrlGuard at hg
  cases hs : c.stat with
  | global rd =>
    rw [hs] at hc hg
    simp only []
    unfold Node.sum
    rw [sliding_sum_eq globalGeo globalGeo_n globalGeo_L node.ring node.hist tl rd now .pass hn.inv hnow
      (by show 500 ≤ rd.iv; exact hc.1) (by show rd.iv ≤ 20 * 500; omega) hg]
    exact hn.agree _ _ _
  | priv g ring rd hist =>
    rw [hs] at hc hg
    simp only []
    rw [sliding_sum_eq g hc.1 hc.2.1 ring hist tl rd now .pass hc.2.2.2.2.1 hnow hc.2.2.1 hc.2.2.2.1 hg.1]
    exact hc.2.2.2.2.2 _ _ _
  | nop => rw [hs] at hc; exact hc.elim

theorem blocks_iff (c : FlowCtrl) (node : Node) (adm : List (Nat × Nat)) (tl now n : Nat)
    (hn : NodeOk node adm tl) (hc : CtrlOk c adm tl) (hnow : tl ≤ now) (hg : CtrlGuard c now) :
    c.blocks node now n = false ↔ Fits adm c now n := by
  unfold FlowCtrl.blocks Fits FitsW
  rw [curCount_eq c node adm tl now hn hc hnow hg]

/-! ## property theorems -/

/-- **Admission rule.** With the invariants in place, the flow slot admits iff the request fits every rule -/
theorem flow_admit_iff (s : FlowSys) (adm : List (Nat × Nat)) (tl now n : Nat)
    (hn : NodeOk s.node adm tl) (hc : ∀ c ∈ s.ctrls, CtrlOk c adm tl) (hnow : tl ≤ now)
    (hg : ∀ c ∈ s.ctrls, CtrlGuard c now) :
    flowCheck s.ctrls s.node now n = none ↔ ∀ c ∈ s.ctrls, Fits adm c now n := by
  unfold flowCheck
  constructor
  · intro h c hcm
    cases hf : s.ctrls.find? (fun c => c.blocks s.node now n) with
    | some c' => rw [hf] at h; cases h
    | none =>
      have := List.find?_eq_none.mp hf c hcm
      exact (blocks_iff c s.node adm tl now n hn (hc c hcm) hnow (hg c hcm)).mp (by simpa using this)
  · intro h
    cases hf : s.ctrls.find? (fun c => c.blocks s.node now n) with
    | none => rfl
    | some c' =>
      exfalso
      have hm := List.mem_of_find?_eq_some hf
      have hb := List.find?_some hf
      have := (blocks_iff c' s.node adm tl now n hn (hc c' hm) hnow (hg c' hm)).mpr (h c' hm)
      rw [this] at hb; cases hb

/-- a request that fits every rule is never rejected by flow control -/
theorem flow_no_false_reject (s : FlowSys) (adm : List (Nat × Nat)) (tl now n : Nat)
    (hn : NodeOk s.node adm tl) (hc : ∀ c ∈ s.ctrls, CtrlOk c adm tl) (hnow : tl ≤ now)
    (hg : ∀ c ∈ s.ctrls, CtrlGuard c now) (hfit : ∀ c ∈ s.ctrls, Fits adm c now n) :
    (s.enter now n).2 = true := by
  unfold FlowSys.enter
  rw [(flow_admit_iff s adm tl now n hn hc hnow hg).mpr hfit]

/-- a flow rejection names a rule that the request does not fit, with that rule's window count as snapshot -/
theorem flow_block_names_rule (s : FlowSys) (adm : List (Nat × Nat)) (tl now n : Nat) (id : String) (snap : Nat)
    (hn : NodeOk s.node adm tl) (hc : ∀ c ∈ s.ctrls, CtrlOk c adm tl) (hnow : tl ≤ now)
    (hg : ∀ c ∈ s.ctrls, CtrlGuard c now) (hb : flowCheck s.ctrls s.node now n = some (id, snap)) :
    ∃ c ∈ s.ctrls, c.id = id ∧ ¬ Fits adm c now n ∧
      snap = admittedSum c.geo.1 adm ((now - now % c.geo.1) - c.geo.2 + c.geo.1) (now - now % c.geo.1) := by
  unfold flowCheck at hb
  cases hf : s.ctrls.find? (fun c => c.blocks s.node now n) with
  | none => rw [hf] at hb; cases hb
  | some c =>
    rw [hf] at hb
    simp only [Option.some.injEq, Prod.mk.injEq] at hb
    have hm := List.mem_of_find?_eq_some hf
    have hbl := List.find?_some hf
    refine ⟨c, hm, hb.1, ?_, ?_⟩
    · intro hfit
      have := (blocks_iff c s.node adm tl now n hn (hc c hm) hnow (hg c hm)).mpr hfit
      rw [this] at hbl; cases hbl
    · rw [← hb.2]; exact curCount_eq c s.node adm tl now hn (hc c hm) hnow (hg c hm)

/-- system invariant carried along every run -/
structure SysOk (s : FlowSys) (adm : List (Nat × Nat)) (tl : Nat) : Prop where
  node : NodeOk s.node adm tl
  ctrls : ∀ c ∈ s.ctrls, CtrlOk c adm tl

/-- operations are admissible when times do not decrease (newest first) and satisfy the guards -/
def OpsOk (s0 : FlowSys) : List FOp → Prop
  | [] => True
  | op :: older => (∀ o ∈ older, o.time ≤ op.time) ∧ 0 < globalGeo.start op.time ∧
      (∀ c ∈ s0.ctrls, CtrlGuard c op.time) ∧ OpsOk s0 older

theorem ctrlGuard_recordPass (c : FlowCtrl) (t b t' : Nat) (h : CtrlGuard c t') : CtrlGuard (c.recordPass t b) t' := by
  unfold FlowCtrl.recordPass
  cases hs : c.stat with
  | global rd => simp only []; exact h
  | priv g ring rd hist =>
    simp only []
    unfold CtrlGuard at h; rw [hs] at h
    cases ring.record g t (.add .pass b) with
    | none => simp only []; unfold CtrlGuard; rw [hs]; exact h
    | some r => simp only []; exact h
  | nop => simp only []; exact h

/-- the guard of a controller only depends on its (immutable) geometry -/
def SameGuards (a b : List FlowCtrl) : Prop := ∀ t, (∀ c ∈ a, CtrlGuard c t) → (∀ c ∈ b, CtrlGuard c t)

theorem sameGuards_map_recordPass (l : List FlowCtrl) (t b : Nat) :
    SameGuards l (l.map (fun c => c.recordPass t b)) := by
  intro t' h c hc
  obtain ⟨c0, hc0, rfl⟩ := List.mem_map.mp hc
  exact ctrlGuard_recordPass c0 t b t' (h c0 hc0)

/-- **Every reachable state satisfies the invariant** (unbounded runs), starting from a fresh node and freshly
generated controllers -/
theorem run_sysOk (s0 : FlowSys) (ops : List FOp) (t0 : Nat)
    (h0 : SysOk s0 [] t0) (hops : OpsOk s0 ops) (hstart : ∀ o ∈ ops, t0 ≤ o.time) :
    ∃ tl, SysOk (s0.run ops).1 (s0.run ops).2 tl ∧ (∀ o ∈ ops, o.time ≤ tl) ∧
      SameGuards s0.ctrls (s0.run ops).1.ctrls ∧ ((ops = [] ∧ tl = t0) ∨ ∃ o ∈ ops, tl = o.time) := by
  induction ops with
  | nil => exact ⟨t0, h0, by simp, fun _ h => h, Or.inl ⟨rfl, rfl⟩⟩
  | cons op older ih =>
    obtain ⟨hmono, hpos, hguard, holder⟩ := hops
    obtain ⟨tl, hok, htl, hsg, hlast⟩ := ih holder (fun o ho => hstart o (List.mem_cons_of_mem _ ho))
    have htlt : tl ≤ op.time := by
      rcases hlast with ⟨_, rfl⟩ | ⟨o, ho, rfl⟩
      · exact hstart op List.mem_cons_self
      · exact hmono o ho
    have hg' := hsg op.time hguard
    have hrest : ∀ o ∈ op :: older, o.time ≤ op.time := by
      intro o ho
      rcases List.mem_cons.mp ho with rfl | ho
      · exact Nat.le_refl _
      · exact hmono o ho
    cases op with
    | enter t n =>
      simp only [FOp.time] at htlt hpos hg' hrest
      refine ⟨t, ?_, hrest, ?_, Or.inr ⟨_, List.mem_cons_self, rfl⟩⟩
      · simp only [FlowSys.run]
        cases hrun : FlowSys.run s0 older with
        | mk s adm =>
          rw [hrun] at hok hg'
          simp only [] at hok hg' ⊢
          unfold FlowSys.enter
          cases hf : flowCheck s.ctrls s.node t n with
          | some p =>
            simp only []
            exact ⟨nodeOk_recordBlock _ _ _ _ _ hok.node htlt hpos,
              fun c hc => ctrlOk_mono c adm tl t (hok.ctrls c hc) htlt⟩
          | none =>
            simp only [if_true]
            refine ⟨nodeOk_recordPass _ _ _ _ _ hok.node htlt hpos, ?_⟩
            intro c hc
            obtain ⟨c0, hc0, rfl⟩ := List.mem_map.mp hc
            exact (ctrlOk_recordPass c0 adm tl t n (hok.ctrls c0 hc0) htlt (hg' c0 hc0)).1
      · simp only [FlowSys.run]
        cases hrun : FlowSys.run s0 older with
        | mk s adm =>
          rw [hrun] at hsg
          simp only [] at hsg ⊢
          unfold FlowSys.enter
          cases hf : flowCheck s.ctrls s.node t n with
          | some p => simp only []; exact hsg
          | none =>
            simp only []
            intro t' h
            exact sameGuards_map_recordPass s.ctrls t n t' (hsg t' h)
    | complete t n rt =>
      simp only [FOp.time] at htlt hpos hg' hrest
      refine ⟨t, ?_, hrest, ?_, Or.inr ⟨_, List.mem_cons_self, rfl⟩⟩
      · simp only [FlowSys.run]
        cases hrun : FlowSys.run s0 older with
        | mk s adm =>
          rw [hrun] at hok
          simp only [] at hok ⊢
          unfold FlowSys.complete
          exact ⟨nodeOk_recordComplete _ _ _ _ _ _ hok.node htlt hpos,
            fun c hc => ctrlOk_mono c adm tl t (hok.ctrls c hc) htlt⟩
      · simp only [FlowSys.run]
        cases hrun : FlowSys.run s0 older with
        | mk s adm =>
          rw [hrun] at hsg
          exact hsg

/-- a fresh resource: new node, controllers generated for any list of rules `(id, threshold, stat_interval_ms)` -/
def FlowSys.fresh (rules : List (String × F64 × Nat)) : FlowSys :=
  { node := {}, ctrls := rules.map (fun r => { id := r.1, thr := r.2.1, ivl := r.2.2, stat := flowStatFor r.2.2 }) }

theorem fresh_sysOk (rules : List (String × F64 × Nat)) (t0 : Nat) : SysOk (FlowSys.fresh rules) [] t0 := by
  refine ⟨⟨ring_inv_init' _ t0, passAgree_nil⟩, ?_⟩
  intro c hc
  obtain ⟨r, _, rfl⟩ := List.mem_map.mp hc
  exact flowStatFor_ok _ _ _ _

/-- **C01, end to end.** For every rule set, every admissible operation history of any length and the admitted
history it produced, the next request (at a time not earlier than the last operation) is admitted
exactly when it fits every rule's window. -/
theorem flow_admit_iff_run (rules : List (String × F64 × Nat)) (ops : List FOp) (t0 now n : Nat)
    (hops : OpsOk (FlowSys.fresh rules) ops) (hstart : ∀ o ∈ ops, t0 ≤ o.time)
    (hnow : ∀ o ∈ ops, o.time ≤ now) (ht0 : t0 ≤ now)
    (hg : ∀ c ∈ (FlowSys.fresh rules).ctrls, CtrlGuard c now) :
    (((FlowSys.fresh rules).run ops).1.enter now n).2 = true ↔
      ∀ c ∈ ((FlowSys.fresh rules).run ops).1.ctrls, Fits ((FlowSys.fresh rules).run ops).2 c now n := by
  obtain ⟨tl, hok, _, hsg, hlast⟩ := run_sysOk (FlowSys.fresh rules) ops t0 (fresh_sysOk rules t0) hops hstart
  have htl : tl ≤ now := by
    rcases hlast with ⟨_, rfl⟩ | ⟨o, ho, rfl⟩
    · exact ht0
    · exact hnow o ho
  have hiff := flow_admit_iff _ _ tl now n hok.node hok.ctrls htl (hsg now hg)
  unfold FlowSys.enter
  constructor
  · intro h
    apply hiff.mp
    cases hf : flowCheck ((FlowSys.fresh rules).run ops).1.ctrls ((FlowSys.fresh rules).run ops).1.node now n with
    | none => rfl
    | some p => rw [hf] at h; cases h
  · intro h
    rw [hiff.mpr h]

/-! ## consequence: no bucket-aligned window ever holds more than the threshold -/

theorem ltNat_mono (x : F64) (a b : Nat) (hab : a ≤ b) (h : F64.ltNat x b = false) : F64.ltNat x a = false := by
  unfold F64.ltNat at *
  simp only [decide_eq_false_iff_not, Nat.not_lt] at *
  exact Nat.le_trans (Nat.mul_le_mul_right _ hab) h

/-- widening the window downwards cannot decrease the sum -/
theorem admittedSum_mono_lo (L : Nat) (adm : List (Nat × Nat)) (lo lo' hi : Nat) (h : lo' ≤ lo) :
    admittedSum L adm lo hi ≤ admittedSum L adm lo' hi := by
  induction adm with
  | nil => exact Nat.le_refl _
  | cons a adm ih =>
    rw [admittedSum_cons, admittedSum_cons]
    by_cases h1 : lo ≤ a.1 - a.1 % L ∧ a.1 - a.1 % L ≤ hi
    · have h2 : lo' ≤ a.1 - a.1 % L ∧ a.1 - a.1 % L ≤ hi := ⟨by omega, h1.2⟩
      rw [if_pos h1, if_pos h2]; omega
    · rw [if_neg h1]; split <;> omega

/-- when no admission lies in a bucket later than `b ≤ hi`, the window may be cut at `b` -/
theorem admittedSum_cut_hi (L : Nat) (adm : List (Nat × Nat)) (lo hi b : Nat) (hb : b ≤ hi)
    (hall : ∀ a ∈ adm, a.1 - a.1 % L ≤ b) : admittedSum L adm lo hi = admittedSum L adm lo b := by
  induction adm with
  | nil => rfl
  | cons a adm ih =>
    rw [admittedSum_cons, admittedSum_cons, ih (fun x hx => hall x (List.mem_cons_of_mem _ hx))]
    have := hall a List.mem_cons_self
    by_cases h1 : lo ≤ a.1 - a.1 % L
    · rw [if_pos ⟨h1, by omega⟩, if_pos ⟨h1, this⟩]
    · rw [if_neg (fun h => h1 h.1), if_neg (fun h => h1 h.1)]

theorem bucket_mono (L a b : Nat) (h : a ≤ b) : a - a % L ≤ b - b % L := by
  have := Geo.start_mono ⟨1, L⟩ h
  simpa [Geo.start] using this

/-- an admitted history in which every admission fitted the rule when it was made (newest first, times non-decreasing) -/
def AdmOk (thr : F64) (L W : Nat) : List (Nat × Nat) → Prop
  | [] => True
  | a :: older => FitsW older thr L W a.1 a.2 ∧ (∀ o ∈ older, o.1 ≤ a.1) ∧ AdmOk thr L W older

/-- **Window cap.** In any such history, the tokens admitted in any window `[hi - W + L, hi]` of bucket starts
never exceed the threshold. -/
theorem flow_window_cap (thr : F64) (L W : Nat) (adm : List (Nat × Nat)) (h : AdmOk thr L W adm) (hi : Nat) :
    F64.ltNat thr (admittedSum L adm (hi - W + L) hi) = false := by
  induction adm with
  | nil => simp [admittedSum, F64.ltNat]
  | cons a older ih =>
    obtain ⟨hfit, hmono, hold⟩ := h
    rw [admittedSum_cons]
    by_cases hin : hi - W + L ≤ a.1 - a.1 % L ∧ a.1 - a.1 % L ≤ hi
    · rw [if_pos hin]
      have hcut := admittedSum_cut_hi L older (hi - W + L) hi (a.1 - a.1 % L) hin.2
        (fun o ho => bucket_mono L _ _ (hmono o ho))
      have hwide := admittedSum_mono_lo L older (hi - W + L) ((a.1 - a.1 % L) - W + L) (a.1 - a.1 % L) (by omega)
      unfold FitsW at hfit
      apply ltNat_mono thr _ _ _ hfit
      rw [hcut]; omega
    · rw [if_neg hin, Nat.zero_add]; exact ih hold

/-- the admitted history produced by any run satisfies `AdmOk` for every rule, hence the cap -/
theorem run_admOk (rules : List (String × F64 × Nat)) (ops : List FOp) (t0 : Nat)
    (hops : OpsOk (FlowSys.fresh rules) ops) (hstart : ∀ o ∈ ops, t0 ≤ o.time) :
    (((FlowSys.fresh rules).run ops).1.ctrls.map (fun c => (c.thr, c.geo)) = (FlowSys.fresh rules).ctrls.map (fun c => (c.thr, c.geo))) ∧
    ∀ c ∈ (FlowSys.fresh rules).ctrls, AdmOk c.thr c.geo.1 c.geo.2 ((FlowSys.fresh rules).run ops).2 := by
  induction ops with
  | nil => exact ⟨rfl, fun _ _ => trivial⟩
  | cons op older ih =>
    have hops' := hops
    obtain ⟨hmono, hpos, hguard, holder⟩ := hops
    have hstart' : ∀ o ∈ older, t0 ≤ o.time := fun o ho => hstart o (List.mem_cons_of_mem _ ho)
    obtain ⟨hspec, hadm⟩ := ih holder hstart'
    obtain ⟨tl, hok, htl, hsg, hlast⟩ := run_sysOk (FlowSys.fresh rules) older t0 (fresh_sysOk rules t0) holder hstart'
    have htlt : tl ≤ op.time := by
      rcases hlast with ⟨_, rfl⟩ | ⟨o, ho, rfl⟩
      · exact hstart op List.mem_cons_self
      · exact hmono o ho
    cases op with
    | complete t n rt =>
      simp only [FlowSys.run]
      cases hrun : FlowSys.run (FlowSys.fresh rules) older with
      | mk s adm =>
        rw [hrun] at hspec hadm
        exact ⟨hspec, hadm⟩
    | enter t n =>
      simp only [FOp.time] at htlt hguard
      have hmono' : ∀ o ∈ older, o.time ≤ t := hmono
      simp only [FlowSys.run]
      cases hrun : FlowSys.run (FlowSys.fresh rules) older with
      | mk s adm =>
        rw [hrun] at hspec hadm hok hsg
        simp only [] at hspec hadm hok hsg ⊢
        unfold FlowSys.enter
        cases hf : flowCheck s.ctrls s.node t n with
        | some p => simp only []; exact ⟨hspec, hadm⟩
        | none =>
          simp only [if_true]
          have hfits := (flow_admit_iff s adm tl t n hok.node hok.ctrls htlt (hsg t hguard)).mp hf
          refine ⟨?_, ?_⟩
          · rw [← hspec, List.map_map]
            apply List.map_congr_left
            intro c hc
            have := ctrlOk_recordPass c adm tl t n (hok.ctrls c hc) htlt (hsg t hguard c hc)
            simp only [Function.comp, this.2.1, this.2.2]
          · intro c hc
            refine ⟨?_, ?_, hadm c hc⟩
            · -- the rule's (thr, geo) occurs among the current controllers
              have hmem : (c.thr, c.geo) ∈ s.ctrls.map (fun c => (c.thr, c.geo)) := by
                rw [hspec]; exact List.mem_map_of_mem hc
              obtain ⟨c', hc', heq⟩ := List.mem_map.mp hmem
              have hf' := hfits c' hc'
              unfold Fits at hf'
              simp only [Prod.mk.injEq] at heq
              rw [heq.1, heq.2] at hf'
              exact hf'
            · -- times: every earlier admission happened at an earlier operation
              intro o ho
              have : ∀ (ops : List FOp), (∀ x ∈ ops, x.time ≤ t) →
                  ∀ o ∈ ((FlowSys.fresh rules).run ops).2, o.1 ≤ t := by
                intro ops
                induction ops with
                | nil => intro _ o ho; cases ho
                | cons op' ops' ih' =>
                  intro hle o ho
                  have hle' : ∀ x ∈ ops', x.time ≤ t := fun x hx => hle x (List.mem_cons_of_mem _ hx)
                  cases op' with
                  | complete t' n' rt' =>
                    simp only [FlowSys.run] at ho
                    exact ih' hle' o ho
                  | enter t' n' =>
                    simp only [FlowSys.run] at ho
                    split at ho
                    · rcases List.mem_cons.mp ho with rfl | ho
                      · exact hle _ List.mem_cons_self
                      · exact ih' hle' o ho
                    · exact ih' hle' o ho
              exact this older hmono' o (by rw [hrun]; exact ho)

/-! ## the tie to `World.build`: on direct/reject controllers the general flow slot is `flowCheck` -/

def FlowCtrl.isDirectReject (c : FlowCtrl) : Prop :=
  (match c.calcr with | .direct => True | _ => False) ∧ (match c.checker with | .reject => True | _ => False)

theorem step_directReject (c : FlowCtrl) (node : Node) (nowNs batch : Nat) (h : c.isDirectReject) :
    c.step node nowNs batch =
      (c, if c.blocks node (nowNs / 1000000) batch then .blocked c.id (toString (c.curCount node (nowNs / 1000000))) else .pass) := by
  obtain ⟨h1, h2⟩ := h
  unfold FlowCtrl.step FlowCtrl.allowed FlowCtrl.blocks
  cases hc : c.calcr with
  | warmUp s => rw [hc] at h1; exact h1.elim
  | direct =>
    simp only []
    cases hk : c.checker with
    | throttling l => rw [hk] at h2; exact h2.elim
    | reject => simp only []; split <;> rfl

/-- `World.build` runs `flowSlot`; for direct/reject controllers it changes no controller, sleeps nothing, and
blocks exactly as `flowCheck` says (same rule, same snapshot) -/
theorem flowSlot_is_flowCheck (ctrls : List FlowCtrl) (node : Node) (nowNs batch : Nat)
    (h : ∀ c ∈ ctrls, c.isDirectReject) :
    flowSlot ctrls node nowNs batch =
      (ctrls, nowNs, (flowCheck ctrls node (nowNs / 1000000) batch).map (fun p => (p.1, toString p.2))) := by
  induction ctrls with
  | nil => rfl
  | cons c rest ih =>
    have hc := h c List.mem_cons_self
    have hr := ih (fun x hx => h x (List.mem_cons_of_mem _ hx))
    unfold flowSlot
    rw [step_directReject c node nowNs batch hc]
    unfold flowCheck at hr ⊢
    by_cases hb : c.blocks node (nowNs / 1000000) batch = true
    · simp only [hb, if_true, List.find?_cons, Option.map_some]
    · have hb' : c.blocks node (nowNs / 1000000) batch = false := by simpa using hb
      simp only [hb', Bool.false_eq_true, if_false, List.find?_cons]
      rw [hr]

/-! ## non-vacuity -/

example : OpsOk (FlowSys.fresh [("a", F64.ofNat 3, 0), ("b", F64.roundDiv 5 2, 1500)])
    [.enter 1700000000700 1, .complete 1700000000600 1 100, .enter 1700000000100 2] := by
  refine ⟨by decide, by decide, ?_, by decide, by decide, ?_, by decide, by decide, ?_, trivial⟩ <;>
  · intro c hc
    simp only [FlowSys.fresh, List.map_cons, List.map_nil, List.mem_cons, List.not_mem_nil, or_false] at hc
    rcases hc with rfl | rfl <;>
      simp [CtrlGuard, flowStatFor, checkReuse, statOk, defaultReader, globalGeo, Geo.start, FOp.time]

end Sentinel
