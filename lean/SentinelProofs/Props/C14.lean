import Sentinel.ConcModels
/-!
# C14 — concurrent entries share one statistics node, accounted without loss or excess

All statements quantify over every interleaving (`Interleaving ps h`: `h` is any history in which each thread's actions
appear in program order) of any number of threads.
-/
set_option autoImplicit false
namespace Sentinel.Conc

theorem flatten_pick {α : Type} (ps : List (List α)) (i : Nat) (a : α) (rest : List α) (h : ps[i]? = some (a :: rest)) :
    ps.flatten.Perm (a :: (ps.set i rest).flatten) := by
  induction ps generalizing i with
  | nil => simp at h
  | cons p ps ih =>
    cases i with
    | zero =>
      simp only [List.getElem?_cons_zero, Option.some.injEq] at h
      subst h
      simp
    | succ j =>
      simp only [List.getElem?_cons_succ] at h
      simp only [List.flatten_cons, List.set_cons_succ]
      have := ih j h
      exact (List.Perm.append_left p this).trans List.perm_middle

/-- an interleaving is a permutation of the programs' actions -/
theorem interleaving_perm {α : Type} (ps : List (List α)) (h : List α) (hi : Interleaving ps h) : h.Perm ps.flatten := by
  induction hi with
  | done ps hall =>
    have : ps.flatten = [] := by
      induction ps with
      | nil => rfl
      | cons p ps ih =>
        simp only [List.flatten_cons]
        rw [hall p (by simp), ih (fun q hq => hall q (by simp [hq]))]
        rfl
    rw [this]
  | pick ps i a rest h hget _ ih =>
    exact (List.Perm.cons a ih).trans (flatten_pick ps i a rest hget).symm

theorem concOf_perm (h h' : List NAct) (hp : h.Perm h') : concOf h = concOf h' := by
  unfold concOf
  rw [hp.countP_eq, hp.countP_eq]

theorem concOf_append (a b : List NAct) : concOf (a ++ b) = concOf a + concOf b := by
  unfold concOf
  simp only [List.countP_append]
  omega

theorem concOf_flatten (ps : List (List NAct)) : concOf ps.flatten = (ps.map concOf).sum := by
  induction ps with
  | nil => rfl
  | cons p ps ih => simp only [List.flatten_cons, concOf_append, ih, List.map_cons, List.sum_cons]

/-- **In-flight count = un-exited entries, whatever the interleaving**: after any history in which the threads' increments and
decrements interleave arbitrarily, the counter equals the sum over the threads of (entries passed − entries exited). -/
theorem conc_eq_open (ps : List (List NAct)) (h : List NAct) (hi : Interleaving ps h) :
    concOf h = (ps.map concOf).sum := by
  rw [concOf_perm h ps.flatten (interleaving_perm ps h hi), concOf_flatten]

/-- a thread that passed `n` entries and exited `m` of them contributes `n − m` -/
theorem concOf_thread (n m : Nat) : concOf (List.replicate n .inc ++ List.replicate m .dec) = (n : Int) - m := by
  unfold concOf
  simp [List.countP_append, List.countP_replicate]

theorem recorded_perm (k : Nat) (h h' : List NAct) (hp : h.Perm h') : recorded k h = recorded k h' := by
  unfold recorded
  exact (hp.map _).sum_nat

theorem recorded_append (k : Nat) (a b : List NAct) : recorded k (a ++ b) = recorded k a + recorded k b := by
  unfold recorded; simp [List.sum_append]

theorem recorded_flatten (k : Nat) (ps : List (List NAct)) : recorded k ps.flatten = (ps.map (recorded k)).sum := by
  induction ps with
  | nil => rfl
  | cons p ps ih => simp only [List.flatten_cons, recorded_append, ih, List.map_cons, List.sum_cons]

theorem counterFrom_no_reset (k acc : Nat) (h : List NAct) (hn : ∀ a ∈ h, ∀ k', a ≠ .reset k') :
    counterFrom k acc h = acc + recorded k h := by
  induction h generalizing acc with
  | nil => simp [counterFrom, recorded]
  | cons a rest ih =>
    have hrest : ∀ a ∈ rest, ∀ k', a ≠ .reset k' := fun b hb => hn b (by simp [hb])
    cases a with
    | inc => simp only [counterFrom, ih acc hrest]; simp [recorded, NAct.amount]
    | dec => simp only [counterFrom, ih acc hrest]; simp [recorded, NAct.amount]
    | add k' v =>
      simp only [counterFrom]
      rw [ih _ hrest]
      simp only [recorded, List.map_cons, List.sum_cons, NAct.amount]
      split <;> omega
    | reset k' => exact absurd rfl (hn (.reset k') (by simp) k')

/-- **Within one statistic bucket (no roll-over), every total equals the sum over all threads**, for every interleaving. -/
theorem totals_eq_sums_one_bucket (k : Nat) (ps : List (List NAct)) (h : List NAct) (hi : Interleaving ps h)
    (hn : ∀ p ∈ ps, ∀ a ∈ p, ∀ k', a ≠ .reset k') :
    counterOf k h = (ps.map (recorded k)).sum := by
  have hperm := interleaving_perm ps h hi
  have hn' : ∀ a ∈ h, ∀ k', a ≠ .reset k' := by
    intro a ha
    have : a ∈ ps.flatten := hperm.subset ha
    obtain ⟨p, hp, hap⟩ := List.mem_flatten.mp this
    exact hn p hp a hap
  unfold counterOf
  rw [counterFrom_no_reset k 0 h hn', Nat.zero_add, recorded_perm k h ps.flatten hperm, recorded_flatten]

theorem counterFrom_le (k acc : Nat) (h : List NAct) : counterFrom k acc h ≤ acc + recorded k h := by
  induction h generalizing acc with
  | nil => simp [counterFrom, recorded]
  | cons a rest ih =>
    cases a with
    | inc => simp only [counterFrom]; have := ih acc; simpa [recorded, NAct.amount] using this
    | dec => simp only [counterFrom]; have := ih acc; simpa [recorded, NAct.amount] using this
    | add k' v =>
      simp only [counterFrom]
      by_cases hk : k' = k
      · have := ih (acc + v)
        simp only [hk, if_true, recorded, List.map_cons, List.sum_cons, NAct.amount] at this ⊢
        omega
      · have := ih acc
        simp only [hk, if_false, recorded, List.map_cons, List.sum_cons, NAct.amount] at this ⊢
        omega
    | reset k' =>
      simp only [counterFrom]
      by_cases hk : k' = k
      · have := ih 0
        simp only [hk, if_true, recorded, List.map_cons, List.sum_cons, NAct.amount] at this ⊢
        omega
      · have := ih acc
        simp only [hk, if_false, recorded, List.map_cons, List.sum_cons, NAct.amount] at this ⊢
        omega

/-- **Across roll-overs a total may miss events that raced with a reset, but never exceeds what was recorded**, for every
interleaving, with resets anywhere. -/
theorem totals_le_recorded_across_rollover (k : Nat) (ps : List (List NAct)) (h : List NAct) (hi : Interleaving ps h) :
    counterOf k h ≤ (ps.map (recorded k)).sum := by
  have := counterFrom_le k 0 h
  unfold counterOf
  rw [Nat.zero_add, recorded_perm k h ps.flatten (interleaving_perm ps h hi), recorded_flatten] at this
  exact this

/-! ## one node -/

theorem acquireAll_some (n m next : Nat) : ∀ id ∈ acquireAll n (some m, next), id = m := by
  induction n with
  | zero => intro id h; simp [acquireAll] at h
  | succ n ih =>
    intro id h
    simp only [acquireAll, getOrInsert, List.mem_cons] at h
    rcases h with h | h
    · exact h
    · exact ih id h

/-- **All threads obtain the same node**: with the get-or-insert done in one critical section, every acquisition of a fresh
resource's node — in whatever order the threads arrive — returns the node the first arrival created. -/
theorem one_node (n next : Nat) (st : Option Nat × Nat) (hst : st = (none, next) ∨ ∃ m, st = (some m, next)) :
    ∀ a ∈ acquireAll n st, ∀ b ∈ acquireAll n st, a = b := by
  rcases hst with rfl | ⟨m, rfl⟩
  · intro a ha b hb
    cases n with
    | zero => simp [acquireAll] at ha
    | succ n =>
      simp only [acquireAll, getOrInsert, List.mem_cons] at ha hb
      have ha' : a = next := by
        rcases ha with h | h
        · exact h
        · exact acquireAll_some n next (next + 1) a h
      have hb' : b = next := by
        rcases hb with h | h
        · exact h
        · exact acquireAll_some n next (next + 1) b h
      rw [ha', hb']
  · intro a ha b hb
    rw [acquireAll_some n m next a ha, acquireAll_some n m next b hb]

/-- the code as it was (look-up, then an overwriting insert in a separate critical section) does **not** have this property:
under this two-thread schedule the threads end up with different nodes -/
theorem two_nodes_witness :
    ([OldStep.lookup 0, .lookup 1, .insert 0, .readBack 0, .insert 1, .readBack 1].foldl OldSt.step {}).got = [(1, 1), (0, 0)] := by
  decide

example : Interleaving [[NAct.inc, NAct.dec], [NAct.inc]] [NAct.inc, NAct.inc, NAct.dec] :=
  .pick _ 0 NAct.inc [NAct.dec] _ rfl (.pick _ 1 NAct.inc [] _ rfl (.pick _ 0 NAct.dec [] _ rfl (.done _ (by simp))))

end Sentinel.Conc
