import Sentinel.LeapArray
import SentinelProofs.Lemmas.Ring
/-!
More read lemmas for the ring refinement (C02): a read loop with an arbitrary slot filter, maxima
(`max_of_single_bucket`, `max_concurrency`) and the raw `is_deprecated` filter of `count_with_time`.
-/
set_option autoImplicit false
namespace Sentinel

/-! ### maxima with default 0 -/

def maxOver (l : List Nat) : Nat := l.foldr max 0

theorem maxOver_cons (x : Nat) (l : List Nat) : maxOver (x :: l) = max x (maxOver l) := rfl

theorem le_maxOver {l : List Nat} {x : Nat} (h : x ∈ l) : x ≤ maxOver l := by
  induction l with
  | nil => cases h
  | cons y ys ih =>
    rw [maxOver_cons]
    rcases List.mem_cons.mp h with rfl | h
    · omega
    · have := ih h; omega

theorem maxOver_le {l : List Nat} {b : Nat} (h : ∀ x ∈ l, x ≤ b) : maxOver l ≤ b := by
  induction l with
  | nil => simp [maxOver]
  | cons y ys ih =>
    rw [maxOver_cons]
    have := h y List.mem_cons_self
    have := ih (fun x hx => h x (List.mem_cons_of_mem _ hx))
    omega

/-- `maxOver l` is 0 or attained -/
theorem maxOver_mem_or_zero (l : List Nat) : maxOver l = 0 ∨ maxOver l ∈ l := by
  induction l with
  | nil => left; rfl
  | cons y ys ih =>
    rw [maxOver_cons]
    by_cases h : maxOver ys ≤ y
    · right; rw [Nat.max_eq_left h]; exact List.mem_cons_self
    · rw [Nat.max_eq_right (by omega)]
      rcases ih with h0 | hm
      · left; exact h0
      · right; exact List.mem_cons_of_mem _ hm

/-- mutual domination gives equal maxima -/
theorem maxOver_eq_of_dom {a b : List Nat}
    (hab : ∀ x ∈ a, x = 0 ∨ ∃ y ∈ b, x ≤ y) (hba : ∀ y ∈ b, y = 0 ∨ ∃ x ∈ a, y ≤ x) :
    maxOver a = maxOver b := by
  apply Nat.le_antisymm
  · apply maxOver_le
    intro x hx
    rcases hab x hx with h | ⟨y, hy, hxy⟩
    · omega
    · exact Nat.le_trans hxy (le_maxOver hy)
  · apply maxOver_le
    intro y hy
    rcases hba y hy with h | ⟨x, hx, hyx⟩
    · omega
    · exact Nat.le_trans hyx (le_maxOver hx)

theorem foldl_cond_max (l : List Nat) (c : Nat → Bool) (x : Nat → Nat) (init : Nat) :
    l.foldl (fun acc i => if c i then max acc (x i) else acc) init
      = max init (maxOver (l.map (fun i => if c i then x i else 0))) := by
  induction l generalizing init with
  | nil => simp [maxOver]
  | cons a l ih =>
    simp only [List.foldl_cons, List.map_cons, maxOver_cons]
    by_cases h : c a
    · simp only [h, if_true]; rw [ih]; omega
    · simp only [h, Bool.false_eq_true, if_false]; rw [ih]; omega

theorem sum_filter_mono {α : Type} (l : List α) (p q : α → Bool) (f : α → Nat) (h : ∀ x ∈ l, p x = true → q x = true) :
    ((l.filter p).map f).sum ≤ ((l.filter q).map f).sum := by
  induction l with
  | nil => simp
  | cons x xs ih =>
    have ih' := ih (fun y hy => h y (List.mem_cons_of_mem _ hy))
    have hx := h x List.mem_cons_self
    by_cases hp : p x = true
    · have hq := hx hp
      simp only [List.filter_cons, hp, hq, if_true, List.map_cons, List.sum_cons]; omega
    · by_cases hq : q x = true
      · simp only [List.filter_cons, hp, hq, if_true, Bool.false_eq_true, if_false, List.map_cons, List.sum_cons]; omega
      · simp only [List.filter_cons, hp, hq, Bool.false_eq_true, if_false]; exact ih'

section GenericRead
variable {β ε : Type}

/-- **Slot ↔ bucket, one direction**: a stamped slot of a ring in the invariant holds exactly the value its bucket has
according to the history, and its stamp is a bucket start of its own index not after the last write -/
theorem slot_is_bucket (app : β → ε → β) (zero : β) (g : Geo) (r : List (Slot β)) (evs : List (Nat × ε)) (tl : Nat)
    (hinv : RingInv app zero g r evs tl) (i : Nat) (hi : i < g.n) (hne : (slotAt zero r i).stamp ≠ 0) :
    (slotAt zero r i).val = bucketVal app zero g evs (slotAt zero r i).stamp ∧
      (slotAt zero r i).stamp % g.L = 0 ∧ g.idx (slotAt zero r i).stamp = i ∧ (slotAt zero r i).stamp ≤ g.start tl := by
  have hv := hinv.val i hi
  simp only [hne, if_false] at hv
  exact ⟨hv, hinv.slot i hi hne⟩

/-- **Slot ↔ bucket, other direction**: the bucket of an event that is less than one interval older than the newest
bucket is still resident in its slot -/
theorem event_bucket_resident (app : β → ε → β) (zero : β) (g : Geo) (hn : 0 < g.n) (hL : 0 < g.L)
    (r : List (Slot β)) (evs : List (Nat × ε)) (tl : Nat)
    (hinv : RingInv app zero g r evs tl) (e : Nat × ε) (he : e ∈ evs) (hres : g.start tl < g.start e.1 + g.interval) :
    (slotAt zero r (g.idx e.1)).stamp = g.start e.1 := by
  have hnw := hinv.newest e he
  have hne : (slotAt zero r (g.idx e.1)).stamp ≠ 0 := by omega
  have hs := hinv.slot (g.idx e.1) (g.idx_lt hn _) hne
  by_cases heq : (slotAt zero r (g.idx e.1)).stamp = g.start e.1
  · exact heq
  · exfalso
    have hlt : g.start e.1 < (slotAt zero r (g.idx e.1)).stamp := by omega
    have hgap := g.same_slot_gap (g.start_mod e.1) hs.1 (by rw [g.idx_start hL, hs.2.1]) hlt
    omega

/-- **A read loop with an arbitrary slot filter.** If the slot filter `c` (on stamps) and the bucket predicate `p`
(on bucket starts) select the same buckets — every selected stamped slot satisfies `p`, and every event whose bucket
satisfies `p` is resident in a selected slot — then the loop returns the `p`-selected events' total weight. -/
theorem ring_pred_sum (app : β → ε → β) (zero : β) (g : Geo) (hn : 0 < g.n) (hL : 0 < g.L)
    (r : List (Slot β)) (evs : List (Nat × ε)) (tl : Nat) (m : β → Nat) (w : ε → Nat)
    (hm0 : m zero = 0) (hmapp : ∀ b e, m (app b e) = m b + w e)
    (hinv : RingInv app zero g r evs tl) (c p : Nat → Bool)
    (h1 : ∀ i, i < g.n → c (slotAt zero r i).stamp = true → (slotAt zero r i).stamp ≠ 0 → p (slotAt zero r i).stamp = true)
    (h2 : ∀ e ∈ evs, p (g.start e.1) = true →
      (slotAt zero r (g.idx e.1)).stamp = g.start e.1 ∧ c (g.start e.1) = true) :
    (List.range g.n).foldl (fun acc i => if c (slotAt zero r i).stamp then acc + m (slotAt zero r i).val else acc) 0
      = ((evs.filter (fun e => p (g.start e.1))).map (fun e => w e.2)).sum := by
  have hfold := foldl_cond_add (List.range g.n)
    (fun i => c (slotAt zero r i).stamp) (fun i => m (slotAt zero r i).val) 0
  try simp only [] at hfold ⊢
  rw [hfold, Nat.zero_add]
  rw [sum_partition g.n _ (fun e : Nat × ε => g.idx e.1) (fun e : Nat × ε => w e.2) (by intro x _; exact g.idx_lt hn _)]
  apply sum_map_congr
  intro i hi'
  have hi'' : i < g.n := List.mem_range.mp hi'
  rw [List.filter_filter]
  by_cases hc : c (slotAt zero r i).stamp = true
  · simp only [hc, if_true]
    by_cases hne : (slotAt zero r i).stamp = 0
    · -- unstamped slot: value zero; no selected event can live here
      have hv := hinv.val i hi''
      simp only [hne, if_true] at hv
      rw [hv, hm0]
      symm
      apply sum_zero_of_all_zero
      intro x hx
      simp only [List.mem_map, List.mem_filter, Bool.and_eq_true, decide_eq_true_eq] at hx
      obtain ⟨e, ⟨he, hidx, hp⟩, rfl⟩ := hx
      exfalso
      have := (h2 e he hp).1
      have hnw := hinv.newest e he
      rw [hidx] at this
      omega
    · obtain ⟨hv, hmod, hidx, _⟩ := slot_is_bucket app zero g r evs tl hinv i hi'' hne
      rw [hv, measure_bucketVal app zero g m w hm0 hmapp]
      congr 2
      apply List.filter_congr
      intro e he
      by_cases heq : g.start e.1 = (slotAt zero r i).stamp
      · have hie : g.idx e.1 = i := by rw [← g.idx_start hL, heq, hidx]
        have hp := h1 i hi'' hc hne
        rw [← heq] at hp
        simp [heq, hie]
        rw [← heq]; exact hp
      · simp only [heq, decide_false]
        symm
        apply Bool.eq_false_iff.mpr
        intro hh
        simp only [Bool.and_eq_true, decide_eq_true_eq] at hh
        obtain ⟨hidx', hp⟩ := hh
        have := (h2 e he hp).1
        rw [hidx'] at this
        exact heq this.symm
  · rw [if_neg hc]
    symm
    apply sum_zero_of_all_zero
    intro x hx
    simp only [List.mem_map, List.mem_filter, Bool.and_eq_true, decide_eq_true_eq] at hx
    obtain ⟨e, ⟨he, hidx, hp⟩, rfl⟩ := hx
    exfalso
    obtain ⟨h3, h4⟩ := h2 e he hp
    rw [hidx] at h3
    rw [h3] at hc
    exact hc h4

end GenericRead

end Sentinel
