import Sentinel.Conc
/-!
Lock ranking ⇒ no deadlock, for any number of threads running programs that respect the ranking.
`LInv` (each thread's set of held locks matches the lock table and its remaining program respects the ranking) holds
initially, is preserved by every step, and excludes deadlock.
-/
set_option autoImplicit false
namespace Sentinel.Conc

theorem okB_iff (rank : Lock → Nat) (held : List Lock) (p : List Act) : okB rank held p = true ↔ Ok rank held p := by
  induction p generalizing held with
  | nil => simp [okB, Ok, List.isEmpty_iff]
  | cons a p ih =>
    cases a with
    | acq l =>
      simp only [okB, Ok, Bool.and_eq_true, List.all_eq_true, decide_eq_true_eq, Bool.not_eq_true', ih]
      constructor
      · rintro ⟨⟨h1, h2⟩, h3⟩
        exact ⟨h1, by simpa using h2, h3⟩
      · rintro ⟨h1, h2, h3⟩
        exact ⟨⟨h1, by simpa using h2⟩, h3⟩
    | rel l =>
      simp only [okB, Ok, Bool.and_eq_true, ih]
      constructor
      · rintro ⟨h1, h2⟩; exact ⟨by simpa using h1, h2⟩
      · rintro ⟨h1, h2⟩; exact ⟨by simpa using h1, h2⟩

structure LInv (rank : Lock → Nat) (c : Cfg) : Prop where
  ok : ∀ t, t < c.progs.length → ∃ held : List Lock,
        (∀ l, l ∈ held ↔ c.holder l = some t) ∧ Ok rank held (c.prog t)
  own : ∀ l t, c.holder l = some t → t < c.progs.length

theorem prog_set_same (c : Cfg) (t : Tid) (rest : List Act) (h : t < c.progs.length) :
    (c.progs.set t rest).getD t [] = rest := by
  simp [List.getD, List.getElem?_set, h]

theorem prog_set_other (c : Cfg) (t u : Tid) (rest : List Act) (h : u ≠ t) :
    (c.progs.set t rest).getD u [] = c.progs.getD u [] := by
  simp [List.getD, List.getElem?_set, Ne.symm h]

theorem init_LInv (rank : Lock → Nat) (progs : List (List Act)) (h : ∀ p ∈ progs, Ok rank [] p) :
    LInv rank (Cfg.init progs) := by
  constructor
  · intro t ht
    refine ⟨[], by simp [Cfg.init], ?_⟩
    apply h
    unfold Cfg.prog Cfg.init
    simp only [List.getD]
    have ht' : t < progs.length := ht
    rw [List.getElem?_eq_getElem ht']
    exact List.getElem_mem ht'
  · intro l t hh
    simp [Cfg.init] at hh

theorem prog_nil_of_ge (c : Cfg) (t : Tid) (h : ¬ t < c.progs.length) : c.prog t = [] := by
  unfold Cfg.prog
  simp [List.getD, List.getElem?_eq_none (Nat.le_of_not_lt h)]

/-- every step preserves the invariant -/
theorem step_LInv (rank : Lock → Nat) (c c' : Cfg) (t : Tid) (hinv : LInv rank c) (hs : c.step t = some c') :
    LInv rank c' := by
  have ht : t < c.progs.length := by
    apply Decidable.byContradiction
    intro hn
    unfold Cfg.step at hs
    rw [prog_nil_of_ge c t hn] at hs
    cases hs
  obtain ⟨held, hheld, hok⟩ := hinv.ok t ht
  unfold Cfg.step at hs
  cases hp : c.prog t with
  | nil => rw [hp] at hs; cases hs
  | cons a rest =>
    rw [hp] at hs hok
    cases a with
    | acq l =>
      simp only at hs
      by_cases hfree : c.holder l = none
      · simp only [hfree, if_true, Option.some.injEq] at hs
        subst hs
        constructor
        · intro u hu
          simp only [List.length_set] at hu
          by_cases hut : u = t
          · subst hut
            refine ⟨l :: held, ?_, ?_⟩
            · intro x
              simp only [List.mem_cons]
              by_cases hx : x = l
              · subst hx; simp
              · simp only [hx, false_or, if_false]; exact hheld x
            · simp only [Cfg.prog]
              rw [prog_set_same c u rest ht]
              exact hok.2.2
          · obtain ⟨hu_held, hu1, hu2⟩ := hinv.ok u hu
            refine ⟨hu_held, ?_, ?_⟩
            · intro x
              by_cases hx : x = l
              · subst hx
                simp only [if_true, Option.some.injEq]
                constructor
                · intro hm
                  have := (hu1 x).mp hm
                  rw [hfree] at this; cases this
                · intro e; exact absurd e.symm hut
              · simp only [hx, if_false]; exact hu1 x
            · simp only [Cfg.prog]
              rw [prog_set_other c t u rest hut]
              exact hu2
        · intro x u hh
          simp only [List.length_set]
          by_cases hx : x = l
          · simp only [hx, if_true, Option.some.injEq] at hh; subst hh; exact ht
          · simp only [hx, if_false] at hh; exact hinv.own x u hh
      · simp [hfree] at hs
    | rel l =>
      simp only at hs
      by_cases hmine : c.holder l = some t
      · simp only [hmine, if_true, Option.some.injEq] at hs
        subst hs
        constructor
        · intro u hu
          simp only [List.length_set] at hu
          by_cases hut : u = t
          · subst hut
            refine ⟨held.filter (· ≠ l), ?_, ?_⟩
            · intro x
              simp only [List.mem_filter, decide_eq_true_eq]
              by_cases hx : x = l
              · subst hx; simp
              · simp only [hx, if_false, ne_eq, not_false_eq_true, and_true]; exact hheld x
            · simp only [Cfg.prog]
              rw [prog_set_same c u rest ht]
              exact hok.2
          · obtain ⟨hu_held, hu1, hu2⟩ := hinv.ok u hu
            refine ⟨hu_held, ?_, ?_⟩
            · intro x
              by_cases hx : x = l
              · subst hx
                simp only [if_true]
                constructor
                · intro hm
                  have := (hu1 x).mp hm
                  rw [hmine] at this
                  exact absurd (Option.some.inj this).symm hut
                · intro e; cases e
              · simp only [hx, if_false]; exact hu1 x
            · simp only [Cfg.prog]
              rw [prog_set_other c t u rest hut]
              exact hu2
        · intro x u hh
          simp only [List.length_set]
          by_cases hx : x = l
          · simp [hx] at hh
          · simp only [hx, if_false] at hh; exact hinv.own x u hh
      · simp [hmine] at hs

theorem reachable_LInv (rank : Lock → Nat) (progs : List (List Act)) (h : ∀ p ∈ progs, Ok rank [] p) (c : Cfg)
    (hr : Reachable progs c) : LInv rank c := by
  induction hr with
  | init => exact init_LInv rank progs h
  | step c c' t _ hs ih => exact step_LInv rank c c' t ih hs

theorem le_sum_of_mem' (l : List Nat) (x : Nat) (h : x ∈ l) : x ≤ l.sum := by
  induction l with
  | nil => cases h
  | cons y ys ih =>
    cases h with
    | head => simp
    | tail _ h' => have := ih h'; simp; omega

/-- an unfinished, blocked thread is waiting to acquire a lock that somebody holds -/
theorem blocked_waits (rank : Lock → Nat) (c : Cfg) (hinv : LInv rank c) (t : Tid)
    (hu : c.unfinished t) (hb : c.step t = none) :
    ∃ l rest t', c.prog t = Act.acq l :: rest ∧ c.holder l = some t' := by
  obtain ⟨held, hheld, hok⟩ := hinv.ok t hu.1
  unfold Cfg.step at hb
  match hp : c.prog t with
  | [] => exact absurd hp hu.2
  | Act.acq l :: rest =>
    rw [hp] at hb
    simp only at hb
    by_cases hh : c.holder l = none
    · simp [hh] at hb
    · cases hx : c.holder l with
      | none => exact absurd hx hh
      | some t' => exact ⟨l, rest, t', rfl, hx⟩
  | Act.rel l :: rest =>
    rw [hp] at hb hok
    simp only at hb
    have : c.holder l = some t := (hheld l).mp hok.1
    simp [this] at hb

/-- a thread that holds a lock is unfinished (programs release everything) -/
theorem holder_unfinished (rank : Lock → Nat) (c : Cfg) (hinv : LInv rank c) (l : Lock) (t : Tid)
    (h : c.holder l = some t) : c.unfinished t := by
  have hlt := hinv.own l t h
  obtain ⟨held, hheld, hok⟩ := hinv.ok t hlt
  refine ⟨hlt, ?_⟩
  intro he
  rw [he] at hok
  have : l ∈ held := (hheld l).mpr h
  simp only [Ok] at hok
  rw [hok] at this
  cases this

/-- if `t'` holds `l` and waits for `l'` then `rank l < rank l'` -/
theorem wait_rank (rank : Lock → Nat) (c : Cfg) (hinv : LInv rank c) (t' : Tid) (l l' : Lock)
    (rest : List Act) (hh : c.holder l = some t') (hp : c.prog t' = Act.acq l' :: rest) :
    rank l < rank l' := by
  have hlt := hinv.own l t' hh
  obtain ⟨held, hheld, hok⟩ := hinv.ok t' hlt
  rw [hp] at hok
  exact hok.1 l ((hheld l).mpr hh)

/-- the chain of waits has strictly increasing rank, but requested ranks are bounded -/
theorem no_deadlock (rank : Lock → Nat) (c : Cfg) (hinv : LInv rank c) : ¬ Deadlocked c := by
  intro ⟨⟨t0, hu0⟩, hall⟩
  have chain : ∀ k : Nat, ∃ t l rest, c.unfinished t ∧ c.prog t = Act.acq l :: rest ∧ k ≤ rank l := by
    intro k
    induction k with
    | zero =>
      obtain ⟨l, rest, _, hp, _⟩ := blocked_waits rank c hinv t0 hu0 (hall t0 hu0)
      exact ⟨t0, l, rest, hu0, hp, Nat.zero_le _⟩
    | succ k ih =>
      obtain ⟨t, l, rest, hu, hp, hk⟩ := ih
      obtain ⟨l1, rest1, t', hp1, hh⟩ := blocked_waits rank c hinv t hu (hall t hu)
      rw [hp] at hp1
      injection hp1 with h1 h2
      injection h1 with h1
      subst h1
      have hu' := holder_unfinished rank c hinv l t' hh
      obtain ⟨l', rest', _, hp', _⟩ := blocked_waits rank c hinv t' hu' (hall t' hu')
      have := wait_rank rank c hinv t' l l' rest' hh hp'
      exact ⟨t', l', rest', hu', hp', by omega⟩
  let f : List Act → Nat := fun p => match p with | Act.acq l :: _ => rank l | _ => 0
  have bound : ∀ t l rest, c.unfinished t → c.prog t = Act.acq l :: rest → rank l ≤ (c.progs.map f).sum := by
    intro t l rest hu hp
    have hmem : c.prog t ∈ c.progs := by
      unfold Cfg.prog
      have : c.progs.getD t [] = c.progs[t]'hu.1 := by simp [List.getD, hu.1]
      rw [this]; exact List.getElem_mem _
    have : f (c.prog t) ≤ (c.progs.map f).sum := by
      apply le_sum_of_mem'
      exact List.mem_map_of_mem hmem
    rw [hp] at this
    exact this
  obtain ⟨t, l, rest, hu, hp, hk⟩ := chain ((c.progs.map f).sum + 1)
  have := bound t l rest hu hp
  omega

end Sentinel.Conc
