import Sentinel.LeapArray
/-!
Generic ring refinement (DESIGN §5.2): the ring invariant, its preservation by `ringWrite`, and
the partition lemmas used by the read theorems. Payload-generic: `β` with reset value `zero`,
events `ε` applied by `app`.
-/
set_option autoImplicit false
namespace Sentinel

namespace Geo
theorem start_le (g : Geo) (t : Nat) : g.start t ≤ t := Nat.sub_le _ _

theorem start_mod (g : Geo) (t : Nat) : g.start t % g.L = 0 := by
  unfold start
  have h := Nat.mod_add_div t g.L
  have : t - t % g.L = g.L * (t / g.L) := by omega
  rw [this]; exact Nat.mul_mod_right _ _

theorem start_div (g : Geo) (hL : 0 < g.L) (t : Nat) : g.start t / g.L = t / g.L := by
  unfold start
  have h := Nat.mod_add_div t g.L
  have : t - t % g.L = g.L * (t / g.L) := by omega
  rw [this]; exact Nat.mul_div_cancel_left _ hL

theorem idx_start (g : Geo) (hL : 0 < g.L) (t : Nat) : g.idx (g.start t) = g.idx t := by
  unfold idx; rw [start_div g hL]

theorem idx_lt (g : Geo) (hn : 0 < g.n) (t : Nat) : g.idx t < g.n := Nat.mod_lt _ hn

theorem start_mono (g : Geo) {a b : Nat} (h : a ≤ b) : g.start a ≤ g.start b := by
  unfold start
  have ha := Nat.mod_add_div a g.L
  have hb := Nat.mod_add_div b g.L
  have hd : a / g.L ≤ b / g.L := Nat.div_le_div_right h
  have : g.L * (a / g.L) ≤ g.L * (b / g.L) := Nat.mul_le_mul_left _ hd
  omega

theorem lt_start_add (g : Geo) (hL : 0 < g.L) (t : Nat) : t < g.start t + g.L := by
  unfold start
  have := Nat.mod_lt t hL
  have := Nat.mod_le t g.L
  omega

/-- two bucket starts in the same slot, strictly ordered, are a whole interval apart -/
theorem same_slot_gap (g : Geo) {a b : Nat} (ha : a % g.L = 0) (hb : b % g.L = 0)
    (hi : g.idx a = g.idx b) (hlt : a < b) : a + g.interval ≤ b := by
  unfold idx at hi; unfold interval
  have ea := Nat.mod_add_div a g.L
  have eb := Nat.mod_add_div b g.L
  have hq : a / g.L < b / g.L := by
    rcases Nat.lt_or_ge (a / g.L) (b / g.L) with h | h
    · exact h
    · have : g.L * (b / g.L) ≤ g.L * (a / g.L) := Nat.mul_le_mul_left _ h
      omega
  have hm : (b / g.L - a / g.L) % g.n = 0 := Nat.sub_mod_eq_zero_of_mod_eq hi.symm
  have hge : g.n ≤ b / g.L - a / g.L :=
    Nat.le_of_dvd (by omega) (Nat.dvd_of_mod_eq_zero hm)
  have : g.L * (a / g.L + g.n) ≤ g.L * (b / g.L) := Nat.mul_le_mul_left _ (by omega)
  rw [Nat.mul_add] at this
  rw [Nat.mul_comm g.n g.L]
  omega
end Geo

section Generic
variable {β ε : Type}

/-- the value a bucket has according to the history: the events of that bucket applied oldest first
to the reset value (history lists the newest event first) -/
def bucketVal (app : β → ε → β) (zero : β) (g : Geo) (evs : List (Nat × ε)) (b : Nat) : β :=
  (evs.filter (fun e => g.start e.1 = b)).foldr (fun e acc => app acc e.2) zero

theorem bucketVal_cons (app : β → ε → β) (zero : β) (g : Geo) (e : Nat × ε) (evs : List (Nat × ε)) (b : Nat) :
    bucketVal app zero g (e :: evs) b =
      if g.start e.1 = b then app (bucketVal app zero g evs b) e.2 else bucketVal app zero g evs b := by
  unfold bucketVal
  by_cases h : g.start e.1 = b <;> simp [List.filter_cons, h]

theorem bucketVal_no_events (app : β → ε → β) (zero : β) (g : Geo) (evs : List (Nat × ε)) (b : Nat)
    (h : ∀ e ∈ evs, g.start e.1 ≠ b) : bucketVal app zero g evs b = zero := by
  unfold bucketVal
  have : evs.filter (fun e => g.start e.1 = b) = [] := by
    apply List.filter_eq_nil_iff.mpr
    intro e he hc
    exact h e he (by simpa using hc)
  rw [this]; rfl

/-- structural invariant of a ring `r` against the history `evs` (newest first) whose latest event is at `tl` -/
structure RingInv (app : β → ε → β) (zero : β) (g : Geo) (r : List (Slot β)) (evs : List (Nat × ε)) (tl : Nat) : Prop where
  len : r.length = g.n
  slot : ∀ i, i < g.n → (slotAt zero r i).stamp ≠ 0 →
      (slotAt zero r i).stamp % g.L = 0 ∧ g.idx (slotAt zero r i).stamp = i ∧ (slotAt zero r i).stamp ≤ g.start tl
  val : ∀ i, i < g.n → (slotAt zero r i).val =
      if (slotAt zero r i).stamp = 0 then zero else bucketVal app zero g evs (slotAt zero r i).stamp
  newest : ∀ e ∈ evs, 0 < g.start e.1 ∧ g.start e.1 ≤ (slotAt zero r (g.idx e.1)).stamp
  times : ∀ e ∈ evs, e.1 ≤ tl

theorem slotAt_set_eq (zero : β) (r : List (Slot β)) (i : Nat) (v : Slot β) (h : i < r.length) :
    slotAt zero (r.set i v) i = v := by
  unfold slotAt; simp [List.getD, h]

theorem slotAt_set_ne (zero : β) (r : List (Slot β)) (i j : Nat) (v : Slot β) (h : i ≠ j) :
    slotAt zero (r.set i v) j = slotAt zero r j := by
  unfold slotAt; simp [List.getD, List.getElem?_set_ne h]

theorem ring_inv_init (app : β → ε → β) (zero : β) (g : Geo) (t0 : Nat) :
    RingInv app zero g (ringInit zero g) [] t0 := by
  refine ⟨by simp [ringInit], ?_, ?_, ?_, ?_⟩
  · intro i hi h; exfalso; apply h; simp [slotAt, ringInit, List.getD, hi]
  · intro i hi; simp [slotAt, ringInit, List.getD, hi]
  · intro e he; cases he
  · intro e he; cases he

/-- every write at a time not earlier than the last one succeeds and preserves the invariant -/
theorem ring_inv_write (app : β → ε → β) (zero : β) (g : Geo) (hn : 0 < g.n) (hL : 0 < g.L)
    (r : List (Slot β)) (evs : List (Nat × ε)) (tl t : Nat) (x : ε)
    (hinv : RingInv app zero g r evs tl) (ht : tl ≤ t) (hpos : 0 < g.start t) :
    ∃ r', ringWrite zero g r t (fun b => app b x) = some r' ∧ RingInv app zero g r' ((t, x) :: evs) t := by
  have hi : g.idx t < g.n := g.idx_lt hn t
  have hil : g.idx t < r.length := by rw [hinv.len]; exact hi
  have hle : ∀ i, i < g.n → (slotAt zero r i).stamp ≠ 0 → (slotAt zero r i).stamp ≤ g.start t := fun i h1 h2 =>
    Nat.le_trans (hinv.slot i h1 h2).2.2 (g.start_mono ht)
  have key : ∀ v : Slot β, v.stamp = g.start t → v.val = bucketVal app zero g ((t, x) :: evs) (g.start t) →
      RingInv app zero g (r.set (g.idx t) v) ((t, x) :: evs) t := by
    intro v hv1 hv2
    refine ⟨by simp [hinv.len], ?_, ?_, ?_, ?_⟩
    · intro i hi' hne
      by_cases hij : g.idx t = i
      · subst hij; rw [slotAt_set_eq _ _ _ _ hil, hv1]
        exact ⟨g.start_mod t, g.idx_start hL t, Nat.le_refl _⟩
      · rw [slotAt_set_ne _ _ _ _ _ hij] at hne ⊢
        have := hinv.slot i hi' hne
        exact ⟨this.1, this.2.1, hle i hi' hne⟩
    · intro i hi'
      by_cases hij : g.idx t = i
      · subst hij; rw [slotAt_set_eq _ _ _ _ hil, hv1, hv2]
        have : g.start t ≠ 0 := by omega
        simp [this]
      · rw [slotAt_set_ne _ _ _ _ _ hij, hinv.val i hi']
        by_cases hz : (slotAt zero r i).stamp = 0
        · simp [hz]
        · simp only [hz, if_false, bucketVal_cons]
          have hs := hinv.slot i hi' hz
          have : g.start t ≠ (slotAt zero r i).stamp := by
            intro heq; apply hij; rw [← hs.2.1, ← heq, g.idx_start hL]
          simp [this]
    · intro e he
      cases he with
      | head =>
        refine ⟨hpos, ?_⟩
        show g.start t ≤ (slotAt zero (r.set (g.idx t) v) (g.idx t)).stamp
        rw [slotAt_set_eq _ _ _ _ hil, hv1]; exact Nat.le_refl _
      | tail _ he' =>
        have h0 := hinv.newest e he'
        refine ⟨h0.1, ?_⟩
        by_cases hij : g.idx t = g.idx e.1
        · rw [← hij, slotAt_set_eq _ _ _ _ hil, hv1]
          exact g.start_mono (Nat.le_trans (hinv.times e he') ht)
        · rw [slotAt_set_ne _ _ _ _ _ hij]; exact h0.2
    · intro e he
      cases he with
      | head => exact Nat.le_refl _
      | tail _ he' => exact Nat.le_trans (hinv.times e he') ht
  have hval := hinv.val (g.idx t) hi
  -- no old event lives in bucket `start t` unless the slot already carries that stamp
  have hfresh : (slotAt zero r (g.idx t)).stamp ≠ g.start t →
      bucketVal app zero g evs (g.start t) = zero := by
    intro hne
    apply bucketVal_no_events
    intro e he hc
    have hnw := hinv.newest e he
    have hidx : g.idx e.1 = g.idx t := by rw [← g.idx_start hL e.1, hc, g.idx_start hL]
    rw [hidx, hc] at hnw
    by_cases h0 : (slotAt zero r (g.idx t)).stamp = 0
    · omega
    · have := hle _ hi h0; omega
  unfold ringWrite
  simp only []
  by_cases h0 : (slotAt zero r (g.idx t)).stamp = 0
  · refine ⟨r.set (g.idx t) ⟨g.start t, app (slotAt zero r (g.idx t)).val x⟩, by simp [h0], key _ rfl ?_⟩
    show app (slotAt zero r (g.idx t)).val x = _
    simp only [h0, if_true] at hval
    rw [bucketVal_cons, hval, hfresh (by omega)]; simp
  · by_cases h1 : (slotAt zero r (g.idx t)).stamp = g.start t
    · refine ⟨r.set (g.idx t) ⟨g.start t, app (slotAt zero r (g.idx t)).val x⟩, by simp [h0, h1], key _ rfl ?_⟩
      show app (slotAt zero r (g.idx t)).val x = _
      simp only [h0, if_false] at hval
      rw [bucketVal_cons, hval, h1]; simp
    · have hlt : (slotAt zero r (g.idx t)).stamp < g.start t := by
        have := hle _ hi h0; omega
      refine ⟨r.set (g.idx t) ⟨g.start t, app zero x⟩, by simp [h0, h1, hlt], key _ rfl ?_⟩
      show app zero x = _
      rw [bucketVal_cons, hfresh h1]; simp

end Generic

/-! ### sums and minima over a partition of the history by slot index -/

theorem sum_map_add {α : Type} (l : List α) (f h : α → Nat) :
    (l.map (fun x => f x + h x)).sum = (l.map f).sum + (l.map h).sum := by
  induction l with
  | nil => simp
  | cons x xs ih => simp [ih]; omega

theorem sum_zero_of_all_zero (l : List Nat) (h : ∀ x ∈ l, x = 0) : l.sum = 0 := by
  induction l with
  | nil => rfl
  | cons x xs ih =>
    have hx := h x List.mem_cons_self
    have := ih (fun y hy => h y (List.mem_cons_of_mem _ hy))
    simp [hx, this]

theorem sum_range_indicator (n k c : Nat) (hk : k < n) :
    ((List.range n).map (fun i => if k = i then c else 0)).sum = c := by
  induction n with
  | zero => omega
  | succ m ih =>
    rw [List.range_succ, List.map_append, List.sum_append]
    by_cases h : k = m
    · subst h
      have : ((List.range k).map (fun i => if k = i then c else 0)).sum = 0 := by
        apply sum_zero_of_all_zero
        intro x hx
        simp only [List.mem_map, List.mem_range] at hx
        obtain ⟨i, hi, rfl⟩ := hx
        have : k ≠ i := by omega
        simp [this]
      simp [this]
    · have hk' : k < m := by omega
      simp [ih hk', h]

theorem sum_partition {α : Type} (n : Nat) (l : List α) (key : α → Nat) (f : α → Nat)
    (hkey : ∀ x ∈ l, key x < n) :
    (l.map f).sum = ((List.range n).map (fun i => ((l.filter (fun x => key x = i)).map f).sum)).sum := by
  induction l with
  | nil =>
    simp only [List.map_nil, List.sum_nil, List.filter_nil]
    exact (sum_zero_of_all_zero _ (by intro x hx; simp only [List.mem_map] at hx; obtain ⟨_, _, rfl⟩ := hx; rfl)).symm
  | cons x xs ih =>
    have hx : key x < n := hkey x (List.mem_cons_self)
    have hxs : ∀ y ∈ xs, key y < n := fun y hy => hkey y (List.mem_cons_of_mem _ hy)
    have e1 : (fun i => (((x :: xs).filter (fun y => key y = i)).map f).sum)
        = (fun i => (if key x = i then f x else 0) + ((xs.filter (fun y => key y = i)).map f).sum) := by
      funext i
      by_cases h : key x = i <;> simp [List.filter_cons, h]
    rw [e1, sum_map_add, sum_range_indicator n (key x) (f x) hx, ← ih hxs]
    simp

theorem sum_map_congr {α : Type} (l : List α) (f h : α → Nat) (hfh : ∀ x ∈ l, f x = h x) :
    (l.map f).sum = (l.map h).sum := by
  rw [List.map_congr_left hfh]

/-- the accumulating loop over slot indices is the sum of the selected values -/
theorem foldl_cond_add (l : List Nat) (c : Nat → Bool) (x : Nat → Nat) (init : Nat) :
    l.foldl (fun acc i => if c i then acc + x i else acc) init
      = init + (l.map (fun i => if c i then x i else 0)).sum := by
  induction l generalizing init with
  | nil => simp
  | cons a l ih =>
    simp only [List.foldl_cons, List.map_cons, List.sum_cons]
    rw [ih]
    by_cases h : c a <;> simp [h] <;> omega

/-! minima with the default 60000 -/

def minOver (l : List Nat) : Nat := l.foldr min 60000

theorem minOver_le (l : List Nat) : minOver l ≤ 60000 := by
  induction l with
  | nil => exact Nat.le_refl _
  | cons x xs ih => unfold minOver at *; simp only [List.foldr_cons]; omega

theorem minOver_cons (x : Nat) (l : List Nat) : minOver (x :: l) = min x (minOver l) := rfl

theorem minOver_append (a b : List Nat) : minOver (a ++ b) = min (minOver a) (minOver b) := by
  induction a with
  | nil => have := minOver_le b; simp [minOver] at *; omega
  | cons x xs ih => simp only [List.cons_append, minOver_cons, ih]; omega

theorem foldl_cond_min (l : List Nat) (c : Nat → Bool) (x : Nat → Nat) (init : Nat) (hinit : init ≤ 60000) :
    l.foldl (fun acc i => if c i then min acc (x i) else acc) init
      = min init (minOver (l.map (fun i => if c i then x i else 60000))) := by
  induction l generalizing init with
  | nil => simp [minOver]; omega
  | cons a l ih =>
    simp only [List.foldl_cons, List.map_cons, minOver_cons]
    by_cases h : c a
    · simp only [h, if_true]
      rw [ih _ (by omega)]; omega
    · simp only [h, Bool.false_eq_true, if_false]
      rw [ih _ hinit]
      have := minOver_le (l.map (fun i => if c i then x i else 60000))
      omega

theorem minOver_all_default (l : List Nat) (h : ∀ x ∈ l, 60000 ≤ x) : minOver l = 60000 := by
  induction l with
  | nil => rfl
  | cons x xs ih =>
    have hx := h x List.mem_cons_self
    have := ih (fun y hy => h y (List.mem_cons_of_mem _ hy))
    rw [minOver_cons, this]; omega

theorem minOver_map_min {α : Type} (l : List α) (f h : α → Nat) :
    minOver (l.map (fun x => min (f x) (h x))) = min (minOver (l.map f)) (minOver (l.map h)) := by
  induction l with
  | nil => simp [minOver]
  | cons x xs ih => simp only [List.map_cons, minOver_cons, ih]; omega

theorem min_range_indicator (n k c : Nat) (hk : k < n) :
    minOver ((List.range n).map (fun i => if k = i then c else 60000)) = min c 60000 := by
  induction n with
  | zero => omega
  | succ m ih =>
    rw [List.range_succ, List.map_append, minOver_append]
    by_cases h : k = m
    · subst h
      have : minOver ((List.range k).map (fun i => if k = i then c else 60000)) = 60000 := by
        apply minOver_all_default
        intro x hx
        simp only [List.mem_map, List.mem_range] at hx
        obtain ⟨i, hi, rfl⟩ := hx
        have : k ≠ i := by omega
        simp [this]
      rw [this]
      simp only [List.map_cons, List.map_nil, if_true, minOver_cons]
      simp only [minOver, List.foldr_nil]; omega
    · have hk' : k < m := by omega
      rw [ih hk']
      simp only [List.map_cons, List.map_nil, h, if_false, minOver_cons]
      simp only [minOver, List.foldr_nil]; omega

theorem min_partition {α : Type} (n : Nat) (l : List α) (key : α → Nat) (f : α → Nat)
    (hkey : ∀ x ∈ l, key x < n) :
    minOver (l.map f) = minOver ((List.range n).map (fun i => minOver ((l.filter (fun x => key x = i)).map f))) := by
  induction l with
  | nil =>
    simp only [List.map_nil, List.filter_nil]
    symm
    apply minOver_all_default
    intro x hx
    simp only [List.mem_map] at hx
    obtain ⟨_, _, rfl⟩ := hx
    exact Nat.le_refl _
  | cons x xs ih =>
    have hx : key x < n := hkey x (List.mem_cons_self)
    have hxs : ∀ y ∈ xs, key y < n := fun y hy => hkey y (List.mem_cons_of_mem _ hy)
    have e1 : (fun i => minOver (((x :: xs).filter (fun y => key y = i)).map f))
        = (fun i => min (if key x = i then f x else 60000) (minOver ((xs.filter (fun y => key y = i)).map f))) := by
      funext i
      have := minOver_le ((xs.filter (fun y => key y = i)).map f)
      by_cases h : key x = i
      · simp [List.filter_cons, h, minOver_cons]
      · simp [List.filter_cons, h]; omega
    rw [e1, minOver_map_min, min_range_indicator n (key x) (f x) hx, ← ih hxs]
    simp only [List.map_cons, minOver_cons]
    have := minOver_le (xs.map f)
    omega


/-! ### a payload-generic read theorem for additive measures -/

theorem inWin_iff' (g : Geo) (W now s : Nat) : inWin g W now s = true ↔
    (¬ (now > s ∧ now - s > g.interval)) ∧ g.start now - W + g.L ≤ s ∧ s ≤ g.start now := by
  simp [inWin, deprecated]
  omega

section GenericRead
variable {β ε : Type}

theorem measure_bucketVal (app : β → ε → β) (zero : β) (g : Geo) (m : β → Nat) (w : ε → Nat)
    (hm0 : m zero = 0) (hmapp : ∀ b e, m (app b e) = m b + w e) (evs : List (Nat × ε)) (b : Nat) :
    m (bucketVal app zero g evs b) = ((evs.filter (fun e => g.start e.1 = b)).map (fun e => w e.2)).sum := by
  unfold bucketVal
  induction evs.filter (fun e => g.start e.1 = b) with
  | nil => simp [hm0]
  | cons e l ih => simp only [List.foldr_cons, List.map_cons, List.sum_cons, hmapp, ih]; omega

/-- for a ring in the invariant, the loop "sum `m` over the slots whose stamp lies in the window of width `W` ending now"
returns the sum of the weights `w` of exactly the events whose bucket lies in that window (window still resident) -/
theorem ring_window_sum (app : β → ε → β) (zero : β) (g : Geo) (hn : 0 < g.n) (hL : 0 < g.L)
    (r : List (Slot β)) (evs : List (Nat × ε)) (tl : Nat) (m : β → Nat) (w : ε → Nat)
    (hm0 : m zero = 0) (hmapp : ∀ b e, m (app b e) = m b + w e)
    (hinv : RingInv app zero g r evs tl) (W now : Nat)
    (hWn : W ≤ g.interval) (hguard : W ≤ g.start now)
    (hres : g.start tl < (g.start now - W + g.L) + g.interval) :
    (List.range g.n).foldl (fun acc i => if inWin g W now (slotAt zero r i).stamp then acc + m (slotAt zero r i).val else acc) 0
      = ((evs.filter (fun e => g.start now - W + g.L ≤ g.start e.1 && g.start e.1 ≤ g.start now)).map (fun e => w e.2)).sum := by
  have hfold := foldl_cond_add (List.range g.n)
    (fun i => inWin g W now (slotAt zero r i).stamp) (fun i => m (slotAt zero r i).val) 0
  try simp only [] at hfold ⊢
  rw [hfold, Nat.zero_add]
  have hnowL := g.lt_start_add hL now
  have hnowhi := g.start_le now
  rw [sum_partition g.n _ (fun e : Nat × ε => g.idx e.1) (fun e : Nat × ε => w e.2) (by intro x _; exact g.idx_lt hn _)]
  apply sum_map_congr
  intro i hi'
  have hi'' : i < g.n := List.mem_range.mp hi'
  rw [List.filter_filter]
  by_cases hw : inWin g W now (slotAt zero r i).stamp = true
  · simp only [hw, if_true]
    have hw' := (inWin_iff' g W now _).mp hw
    have hne : (slotAt zero r i).stamp ≠ 0 := by omega
    rw [hinv.val i hi'']; simp only [hne, if_false]
    rw [measure_bucketVal app zero g m w hm0 hmapp]
    have hs := hinv.slot i hi'' hne
    congr 2
    apply List.filter_congr
    intro e he
    have hnw := hinv.newest e he
    by_cases hidx : g.idx e.1 = i
    · subst hidx
      simp only [decide_true, Bool.true_and]
      by_cases heq : g.start e.1 = (slotAt zero r (g.idx e.1)).stamp
      · have h1 := hw'.2.1; have h2 := hw'.2.2
        rw [← heq] at h1 h2
        simp [heq]
        rw [← heq]; exact ⟨h1, h2⟩
      · have hlt : g.start e.1 < (slotAt zero r (g.idx e.1)).stamp := by omega
        have hgap := g.same_slot_gap (g.start_mod e.1) hs.1 (by rw [g.idx_start hL, hs.2.1]) hlt
        simp only [heq, decide_false]
        simp
        intro h1
        have := hw'.2.2
        omega
    · have : g.start e.1 ≠ (slotAt zero r i).stamp := by
        intro heq; apply hidx; rw [← g.idx_start hL, heq, hs.2.1]
      simp [hidx, this]
  · rw [if_neg hw]
    symm
    apply sum_zero_of_all_zero
    intro x hx
    simp only [List.mem_map, List.mem_filter, Bool.and_eq_true, decide_eq_true_eq] at hx
    obtain ⟨e, ⟨he, hidx, h1, h2⟩, rfl⟩ := hx
    exfalso
    have hnw := hinv.newest e he
    rw [hidx] at hnw
    have hne : (slotAt zero r i).stamp ≠ 0 := by omega
    have hs := hinv.slot i hi'' hne
    by_cases heq : g.start e.1 = (slotAt zero r i).stamp
    · apply hw
      rw [inWin_iff']
      refine ⟨?_, by omega, by omega⟩
      intro ⟨_, hd⟩
      omega
    · have hlt : g.start e.1 < (slotAt zero r i).stamp := by omega
      have hgap := g.same_slot_gap (g.start_mod e.1) hs.1 (by rw [g.idx_start hL, hidx, hs.2.1]) hlt
      have := hs.2.2
      omega

/-- right after a write at `now`, "valid" (`!is_deprecated`) slots are exactly those whose stamp lies in the last `n` buckets -/
theorem validAt_iff_inWin_after_write (app : β → ε → β) (zero : β) (g : Geo) (hn : 0 < g.n) (hL : 0 < g.L)
    (r : List (Slot β)) (evs : List (Nat × ε)) (now : Nat) (x : ε)
    (hinv : RingInv app zero g r ((now, x) :: evs) now) (hguard : g.interval < g.start now) (i : Nat) (hi : i < g.n) :
    validAt g now (slotAt zero r i).stamp = inWin g g.interval now (slotAt zero r i).stamp := by
  have hnowL := g.lt_start_add hL now
  have hnowhi := g.start_le now
  have hnew0 := hinv.newest (now, x) List.mem_cons_self
  have hnew : g.start now ≤ (slotAt zero r (g.idx now)).stamp := hnew0.2
  have hpos : 0 < g.start now := hnew0.1
  by_cases h0 : (slotAt zero r i).stamp = 0
  · rw [h0]
    have : validAt g now 0 = false := by simp [validAt, deprecated]; omega
    have h2 : inWin g g.interval now 0 = false := by
      cases hh : inWin g g.interval now 0 with
      | false => rfl
      | true => have := (inWin_iff' g g.interval now 0).mp hh; omega
    rw [this, h2]
  · have hs := hinv.slot i hi h0
    have hsle : (slotAt zero r i).stamp ≤ g.start now := hs.2.2
    cases hv : validAt g now (slotAt zero r i).stamp with
    | false =>
      symm
      cases hh : inWin g g.interval now (slotAt zero r i).stamp with
      | false => rfl
      | true =>
        have := (inWin_iff' g g.interval now _).mp hh
        simp [validAt, deprecated] at hv
        omega
    | true =>
      symm
      apply (inWin_iff' g g.interval now _).mpr
      have hv' : ¬ (now > (slotAt zero r i).stamp ∧ now - (slotAt zero r i).stamp > g.interval) := by
        intro ⟨h1, h2⟩
        simp [validAt, deprecated] at hv
        omega
      refine ⟨hv', ?_, hsle⟩
      -- the stamp is a multiple of L, at least now - interval; the only candidate below the window is start now - interval,
      -- which would share the slot of `now` — but that slot carries stamp `start now`
      by_cases hlow : g.start now - g.interval + g.L ≤ (slotAt zero r i).stamp
      · exact hlow
      · exfalso
        have hIL : g.L ≤ g.interval := by unfold Geo.interval; exact Nat.le_mul_of_pos_left _ hn
        have hlt : (slotAt zero r i).stamp < g.start now := by omega
        have hidx_now : g.idx (g.start now) = g.idx now := g.idx_start hL now
        -- the slot of `now`
        have hslot_now_ne : (slotAt zero r (g.idx now)).stamp ≠ 0 := by omega
        have hsn := hinv.slot (g.idx now) (g.idx_lt hn now) hslot_now_ne
        have hstamp_now : (slotAt zero r (g.idx now)).stamp = g.start now := by omega
        by_cases hsame : i = g.idx now
        · subst hsame; omega
        · -- a different slot: its stamp s satisfies idx s = i ≠ idx now, s multiple of L, s ≥ now - interval, s < start now - interval + L
          -- so s ≤ start now - interval; with s ≥ now - interval ≥ start now - interval: s = start now - interval, idx s = idx (start now): contradiction
          have hge : g.start now - g.interval ≤ (slotAt zero r i).stamp := by omega
          have hmodS := hs.1
          have hmodN := g.start_mod now
          have hdivI : g.interval % g.L = 0 := by unfold Geo.interval; exact Nat.mul_mod_left _ _
          have heq : (slotAt zero r i).stamp = g.start now - g.interval := by
            have h1 : ((slotAt zero r i).stamp - (g.start now - g.interval)) % g.L = 0 := by
              have : (g.start now - g.interval) % g.L = 0 := by
                have e1 : g.start now = g.L * (g.start now / g.L) := by have := Nat.mod_add_div (g.start now) g.L; omega
                have e2 : g.interval = g.L * g.n := by unfold Geo.interval; exact Nat.mul_comm _ _
                rw [e1, e2, ← Nat.mul_sub]; exact Nat.mul_mod_right _ _
              exact Nat.sub_mod_eq_zero_of_mod_eq (by rw [hmodS, this])
            have h2 : (slotAt zero r i).stamp - (g.start now - g.interval) < g.L := by omega
            have := Nat.eq_zero_of_dvd_of_lt (Nat.dvd_of_mod_eq_zero h1) h2
            omega
          apply hsame
          rw [← hs.2.1, heq]
          unfold Geo.idx Geo.interval
          have e1 : g.start now = g.L * (g.start now / g.L) := by have := Nat.mod_add_div (g.start now) g.L; omega
          have hq : g.n ≤ g.start now / g.L := by
            have : g.n * g.L < g.L * (g.start now / g.L) := by rw [← e1]; exact hguard
            have : g.L * g.n < g.L * (g.start now / g.L) := by rw [Nat.mul_comm g.L g.n]; exact this
            exact Nat.le_of_lt (Nat.lt_of_mul_lt_mul_left this)
          have e3 : g.start now - g.n * g.L = g.L * (g.start now / g.L - g.n) := by
            rw [Nat.mul_sub, ← e1, Nat.mul_comm g.L g.n]
          rw [e3, Nat.mul_div_cancel_left _ hL]
          have : (g.start now / g.L - g.n) % g.n = (g.start now / g.L) % g.n := by
            conv => rhs; rw [show g.start now / g.L = (g.start now / g.L - g.n) + g.n by omega]
            rw [Nat.add_mod_right]
          rw [this, g.start_div hL]

end GenericRead

end Sentinel
