import Sentinel.Hotspot
/-!
LRU layer of the hotspot model: while a key has room (it is present, or the cache is not full), `Lru` behaves like a
finite map — `peek` of other keys never changes and nothing is evicted.
-/
set_option autoImplicit false
namespace Sentinel
namespace Lru

/-- an `add_if_absent` of `k` will not evict anything -/
def Room (l : Lru) (k : String) : Prop := l.cap ≠ 0 ∧ (l.contains k = true ∨ l.items.length < l.cap)

theorem find_filter_ne' (items : List (String × Nat)) (k k' : String) (hne : k ≠ k') :
    (items.filter (fun p => p.1 != k)).find? (fun p => p.1 == k') = items.find? (fun p => p.1 == k') := by
  induction items with
  | nil => rfl
  | cons a l ih =>
    by_cases hak : a.1 = k
    · have h1 : (a.1 != k) = false := by simp [hak]
      have h2 : (a.1 == k') = false := by simp [hak, hne]
      rw [List.filter_cons, List.find?_cons]
      simp only [h1, h2]
      exact ih
    · have h1 : (a.1 != k) = true := by simp [hak]
      rw [List.filter_cons]
      simp only [h1, if_true, List.find?_cons]
      split
      · rfl
      · exact ih

theorem contains_iff_peek (l : Lru) (k : String) : l.contains k = (l.peek k).isSome := by
  unfold contains peek
  induction l.items with
  | nil => rfl
  | cons a t ih =>
    simp only [List.any_cons, List.find?_cons]
    by_cases h : (a.1 == k) = true
    · simp [h]
    · have h' : (a.1 == k) = false := by simpa using h
      simp only [h', Bool.false_or]
      exact ih

/-- `get` returns the stored value … -/
theorem get_snd (l : Lru) (k : String) : (l.get k).2 = l.peek k := by
  unfold get peek
  cases h : l.items.find? (fun p => p.1 == k) with
  | none => rfl
  | some p => rfl

/-- … and only changes recency: every key still maps to the same value -/
theorem peek_get (l : Lru) (k k' : String) : (l.get k).1.peek k' = l.peek k' := by
  unfold get peek
  cases h : l.items.find? (fun p => p.1 == k) with
  | none => rfl
  | some p =>
    simp only []
    have hp : (p.1 == k) = true := List.find?_some (p := fun q : String × Nat => q.1 == k) h
    have hpk : p.1 = k := by simpa using hp
    by_cases hk : k = k'
    · subst hk
      simp only [List.find?_cons, hp, h]
    · have hne : (p.1 == k') = false := by simp [hpk, hk]
      simp only [List.find?_cons, hne]
      rw [find_filter_ne' l.items k k' hk]

theorem get_cap (l : Lru) (k : String) : (l.get k).1.cap = l.cap := by
  unfold get; split <;> rfl

/-- a fresh key put into a cache with room maps to its value; other keys are untouched -/
theorem peek_putNew (l : Lru) (k k' : String) (v : Nat) (hcap : l.cap ≠ 0) (hroom : l.items.length < l.cap) :
    (l.putNew k v).peek k' = if k' = k then some v else l.peek k' := by
  unfold putNew peek
  have h2 : ¬ l.items.length ≥ l.cap := by omega
  simp only [hcap, if_false, h2]
  by_cases hk : k' = k
  · subst hk; simp
  · have : (k == k') = false := by simp [Ne.symm hk]
    simp [List.find?_cons, this, hk]

/-- storing into a key's cell changes that key only -/
theorem peek_store (l : Lru) (k k' : String) (v : Nat) :
    (l.store k v).peek k' = if k' = k then (l.peek k).map (fun _ => v) else l.peek k' := by
  unfold store peek
  induction l.items with
  | nil => simp
  | cons a t ih =>
    simp only [List.map_cons, List.find?_cons]
    by_cases hak : (a.1 == k) = true
    · have hak' : a.1 = k := by simpa using hak
      simp only [hak, if_true]
      by_cases hk : k' = k
      · subst hk; simp [hak']
      · have h1 : (k == k') = false := by simp [Ne.symm hk]
        have h2 : (a.1 == k') = false := by simp [hak', Ne.symm hk]
        simp only [h1, h2, hk, if_false]
        simpa [hk] using ih
    · have hak' : (a.1 == k) = false := by simpa using hak
      simp only [hak', Bool.false_eq_true, if_false]
      by_cases hk : k' = k
      · subst hk
        simp only [hak', if_true]
        simpa using ih
      · by_cases ha : (a.1 == k') = true
        · simp [ha, hk]
        · have ha' : (a.1 == k') = false := by simpa using ha
          simp only [ha', hk, if_false]
          simpa [hk] using ih

/-- **`add_if_absent` on a key with room is a map update-if-absent**: it returns the old value (if any), afterwards the key
maps to the old value or the given one, and every other key is untouched -/
theorem peek_addIfAbsent (l : Lru) (k k' : String) (v : Nat) (h : l.Room k) :
    (l.addIfAbsent k v).2 = l.peek k ∧
    (l.addIfAbsent k v).1.peek k' = if k' = k then some ((l.peek k).getD v) else l.peek k' := by
  unfold addIfAbsent
  by_cases hc : l.contains k = true
  · simp only [hc, if_true]
    refine ⟨get_snd l k, ?_⟩
    rw [peek_get]
    by_cases hk : k' = k
    · subst hk
      have : (l.peek k').isSome = true := by rw [← contains_iff_peek]; exact hc
      cases hp : l.peek k' with
      | none => rw [hp] at this; cases this
      | some x => simp
    · simp [hk]
  · have hc' : l.contains k = false := by simpa using hc
    simp only [hc', Bool.false_eq_true, if_false]
    have hroom : l.items.length < l.cap := by
      rcases h.2 with h' | h'
      · rw [hc'] at h'; cases h'
      · exact h'
    have hnone : l.peek k = none := by
      have := contains_iff_peek l k
      rw [hc'] at this
      cases hp : l.peek k with
      | none => rfl
      | some x => rw [hp] at this; cases this
    refine ⟨hnone.symm, ?_⟩
    rw [peek_putNew l k k' v h.1 hroom, hnone]
    rfl

/-! ### the keys held, and why nothing is evicted while the distinct values fit -/

/-- the keys in recency order -/
def keys (l : Lru) : List String := l.items.map (·.1)

theorem contains_iff_mem_keys (l : Lru) (k : String) : l.contains k = true ↔ k ∈ l.keys := by
  unfold contains keys
  rw [List.any_eq_true, List.mem_map]
  constructor
  · rintro ⟨p, hp, he⟩; exact ⟨p, hp, by simpa using he⟩
  · rintro ⟨p, hp, he⟩; exact ⟨p, hp, by simpa using he⟩

theorem keys_store (l : Lru) (k : String) (v : Nat) : (l.store k v).keys = l.keys := by
  unfold store keys
  rw [List.map_map]
  apply List.map_congr_left
  intro p _
  by_cases h : (p.1 == k) = true
  · have : p.1 = k := by simpa using h
    simp [this]
  · have h' : ¬ p.1 = k := by simpa using h
    simp [h']

theorem store_cap (l : Lru) (k : String) (v : Nat) : (l.store k v).cap = l.cap := rfl

theorem mem_keys_filter_ne (items : List (String × Nat)) (k x : String) :
    x ∈ (items.filter (fun q => q.1 != k)).map (·.1) ↔ x ∈ items.map (·.1) ∧ x ≠ k := by
  simp only [List.mem_map, List.mem_filter]
  constructor
  · rintro ⟨p, ⟨hp, hne⟩, rfl⟩; exact ⟨⟨p, hp, rfl⟩, by simpa using hne⟩
  · rintro ⟨⟨p, hp, rfl⟩, hne⟩; exact ⟨p, ⟨hp, by simpa using hne⟩, rfl⟩

theorem nodup_keys_filter (items : List (String × Nat)) (k : String) (h : (items.map (·.1)).Nodup) :
    ((items.filter (fun q => q.1 != k)).map (·.1)).Nodup :=
  List.Nodup.sublist (List.Sublist.map _ List.filter_sublist) h

/-- `get` only moves the key to the front -/
theorem keys_get (l : Lru) (k : String) :
    (∀ x, x ∈ (l.get k).1.keys ↔ x ∈ l.keys) ∧ (l.keys.Nodup → (l.get k).1.keys.Nodup) := by
  unfold get keys
  cases h : l.items.find? (fun p => p.1 == k) with
  | none => exact ⟨fun _ => Iff.rfl, id⟩
  | some p =>
    have hp1 : p.1 = k := by simpa using List.find?_some (p := fun q : String × Nat => q.1 == k) h
    have hpm : p ∈ l.items := List.mem_of_find?_eq_some h
    simp only [List.map_cons]
    constructor
    · intro x
      rw [List.mem_cons, mem_keys_filter_ne]
      constructor
      · rintro (rfl | ⟨hx, _⟩)
        · exact List.mem_map.mpr ⟨p, hpm, rfl⟩
        · exact hx
      · intro hx
        by_cases e : x = k
        · left; rw [e, hp1]
        · right; exact ⟨hx, e⟩
    · intro hnd
      rw [List.nodup_cons]
      refine ⟨?_, nodup_keys_filter _ _ hnd⟩
      rw [mem_keys_filter_ne]
      rintro ⟨_, hne⟩
      exact hne hp1

/-- an `add_if_absent` with room adds at most the key itself and evicts nothing -/
theorem keys_addIfAbsent (l : Lru) (k : String) (v : Nat) (h : l.Room k) :
    (∀ x, x ∈ (l.addIfAbsent k v).1.keys ↔ x = k ∨ x ∈ l.keys) ∧ (l.keys.Nodup → (l.addIfAbsent k v).1.keys.Nodup) := by
  unfold addIfAbsent
  by_cases hc : l.contains k = true
  · simp only [hc, if_true]
    have hk : k ∈ l.keys := (contains_iff_mem_keys l k).mp hc
    obtain ⟨g1, g2⟩ := keys_get l k
    refine ⟨fun x => ?_, g2⟩
    rw [g1 x]
    constructor
    · intro hx; exact Or.inr hx
    · rintro (rfl | hx)
      · exact hk
      · exact hx
  · have hc' : l.contains k = false := by simpa using hc
    simp only [hc', Bool.false_eq_true, if_false]
    have hroom : l.items.length < l.cap := by
      rcases h.2 with h' | h'
      · rw [hc'] at h'; cases h'
      · exact h'
    have h2 : ¬ l.items.length ≥ l.cap := by omega
    unfold putNew keys
    simp only [h.1, if_false, h2, List.map_cons]
    refine ⟨fun x => List.mem_cons, fun hnd => ?_⟩
    rw [List.nodup_cons]
    refine ⟨?_, hnd⟩
    intro hm
    have := (contains_iff_mem_keys l k).mpr hm
    rw [hc'] at this; cases this

theorem addIfAbsent_cap (l : Lru) (k : String) (v : Nat) : (l.addIfAbsent k v).1.cap = l.cap := by
  unfold addIfAbsent
  by_cases hc : l.contains k = true
  · simp only [hc, if_true]; exact get_cap l k
  · have hc' : l.contains k = false := by simpa using hc
    simp only [hc', Bool.false_eq_true, if_false]
    unfold putNew
    split
    · rfl
    · split <;> rfl

/-- a duplicate-free list inside another is no longer than it -/
theorem nodup_subset_length_le (L U : List String) (hnd : L.Nodup) (hsub : ∀ x ∈ L, x ∈ U) : L.length ≤ U.length := by
  induction L generalizing U with
  | nil => simp
  | cons a L ih =>
    have ha : a ∈ U := hsub a (by simp)
    have hnd' := List.nodup_cons.mp hnd
    have hsub' : ∀ x ∈ L, x ∈ U.erase a := by
      intro x hx
      have hxa : x ≠ a := fun e => hnd'.1 (e ▸ hx)
      exact (List.mem_erase_of_ne hxa).mpr (hsub x (by simp [hx]))
    have := ih (U.erase a) hnd'.2 hsub'
    rw [List.length_erase_of_mem ha] at this
    have hpos : 0 < U.length := List.length_pos_of_mem ha
    simp only [List.length_cons]
    omega

/-- **why nothing is evicted**: if the keys held are distinct values of a universe `U` that fits the capacity, every value
of `U` has room -/
theorem room_of_universe (l : Lru) (U : List String) (k : String) (hcap : l.cap ≠ 0) (hU : U.length ≤ l.cap)
    (hnd : l.keys.Nodup) (hsub : ∀ x ∈ l.keys, x ∈ U) (hk : k ∈ U) : l.Room k := by
  refine ⟨hcap, ?_⟩
  by_cases hc : l.contains k = true
  · exact Or.inl hc
  · right
    have hnk : k ∉ l.keys := fun hm => hc ((contains_iff_mem_keys l k).mpr hm)
    have h1 : (k :: l.keys).Nodup := List.nodup_cons.mpr ⟨hnk, hnd⟩
    have h2 : ∀ x ∈ k :: l.keys, x ∈ U := by
      intro x hx
      rcases List.mem_cons.mp hx with rfl | hx
      · exact hk
      · exact hsub x hx
    have := nodup_subset_length_le _ U h1 h2
    simp only [List.length_cons, keys, List.length_map] at this
    omega

end Lru

/-- how one counter may change during a check for `arg`: no key but `arg` appears, distinctness and capacity are kept -/
def LruStep (l l' : Lru) (arg : String) : Prop :=
  (∀ x ∈ l'.keys, x = arg ∨ x ∈ l.keys) ∧ (l.keys.Nodup → l'.keys.Nodup) ∧ l'.cap = l.cap

theorem LruStep.same (l : Lru) (arg : String) : LruStep l l arg := ⟨fun _ hx => Or.inr hx, id, rfl⟩

theorem LruStep.store {l l' : Lru} {arg : String} (h : LruStep l l' arg) (k : String) (v : Nat) : LruStep l (l'.store k v) arg := by
  refine ⟨?_, ?_, ?_⟩
  · rw [Lru.keys_store]; exact h.1
  · rw [Lru.keys_store]; exact h.2.1
  · rw [Lru.store_cap]; exact h.2.2

theorem LruStep.add (l : Lru) (arg : String) (v : Nat) (h : l.Room arg) : LruStep l (l.addIfAbsent arg v).1 arg :=
  ⟨fun x hx => ((Lru.keys_addIfAbsent l arg v h).1 x).mp hx, (Lru.keys_addIfAbsent l arg v h).2, Lru.addIfAbsent_cap l arg v⟩

theorem LruStep.get (l : Lru) (arg : String) : LruStep l (l.get arg).1 arg :=
  ⟨fun x hx => Or.inr (((Lru.keys_get l arg).1 x).mp hx), (Lru.keys_get l arg).2, Lru.get_cap l arg⟩

end Sentinel
