import Sentinel.Hotspot
/-!
LRU layer of the hotspot model: while a key has room (it is present, or the cache is not full), `Lru` behaves like a
finite map — `peek` of other keys never changes and nothing is evicted.
-/
set_option autoImplicit false
namespace Sentinel
namespace Lru

/-- an `add_if_absent` of `k` will not evict anything -/
def Room (l : Lru) (k : String) : Prop := l.cap ≠ 0 ∧ (l.contains k = true ∨ l.items.length < l.cap)

theorem find_filter_ne' (items : List (String × Nat)) (k k' : String) (hne : k ≠ k') :
    (items.filter (fun p => p.1 != k)).find? (fun p => p.1 == k') = items.find? (fun p => p.1 == k') := by
  induction items with
  | nil => rfl
  | cons a l ih =>
    by_cases hak : a.1 = k
    · have h1 : (a.1 != k) = false := by simp [hak]
      have h2 : (a.1 == k') = false := by simp [hak, hne]
      rw [List.filter_cons, List.find?_cons]
      simp only [h1, h2]
      exact ih
    · have h1 : (a.1 != k) = true := by simp [hak]
      rw [List.filter_cons]
      simp only [h1, if_true, List.find?_cons]
      split
      · rfl
      · exact ih

theorem contains_iff_peek (l : Lru) (k : String) : l.contains k = (l.peek k).isSome := by
  unfold contains peek
  induction l.items with
  | nil => rfl
  | cons a t ih =>
    simp only [List.any_cons, List.find?_cons]
    by_cases h : (a.1 == k) = true
    · simp [h]
    · have h' : (a.1 == k) = false := by simpa using h
      simp only [h', Bool.false_or]
      exact ih

/-- `get` returns the stored value … -/
theorem get_snd (l : Lru) (k : String) : (l.get k).2 = l.peek k := by
  unfold get peek
  cases h : l.items.find? (fun p => p.1 == k) with
  | none => rfl
  | some p => rfl

/-- … and only changes recency: every key still maps to the same value -/
theorem peek_get (l : Lru) (k k' : String) : (l.get k).1.peek k' = l.peek k' := by
  unfold get peek
  cases h : l.items.find? (fun p => p.1 == k) with
  | none => rfl
  | some p =>
    simp only []
    have hp : (p.1 == k) = true := List.find?_some (p := fun q : String × Nat => q.1 == k) h
    have hpk : p.1 = k := by simpa using hp
    by_cases hk : k = k'
    · subst hk
      simp only [List.find?_cons, hp, h]
    · have hne : (p.1 == k') = false := by simp [hpk, hk]
      simp only [List.find?_cons, hne]
      rw [find_filter_ne' l.items k k' hk]

theorem get_cap (l : Lru) (k : String) : (l.get k).1.cap = l.cap := by
  unfold get; split <;> rfl

/-- a fresh key put into a cache with room maps to its value; other keys are untouched -/
theorem peek_putNew (l : Lru) (k k' : String) (v : Nat) (hcap : l.cap ≠ 0) (hroom : l.items.length < l.cap) :
    (l.putNew k v).peek k' = if k' = k then some v else l.peek k' := by
  unfold putNew peek
  have h2 : ¬ l.items.length ≥ l.cap := by omega
  simp only [hcap, if_false, h2]
  by_cases hk : k' = k
  · subst hk; simp
  · have : (k == k') = false := by simp [Ne.symm hk]
    simp [List.find?_cons, this, hk]

/-- storing into a key's cell changes that key only -/
theorem peek_store (l : Lru) (k k' : String) (v : Nat) :
    (l.store k v).peek k' = if k' = k then (l.peek k).map (fun _ => v) else l.peek k' := by
  unfold store peek
  induction l.items with
  | nil => simp
  | cons a t ih =>
    simp only [List.map_cons, List.find?_cons]
    by_cases hak : (a.1 == k) = true
    · have hak' : a.1 = k := by simpa using hak
      simp only [hak, if_true]
      by_cases hk : k' = k
      · subst hk; simp [hak']
      · have h1 : (k == k') = false := by simp [Ne.symm hk]
        have h2 : (a.1 == k') = false := by simp [hak', Ne.symm hk]
        simp only [h1, h2, hk, if_false]
        simpa [hk] using ih
    · have hak' : (a.1 == k) = false := by simpa using hak
      simp only [hak', Bool.false_eq_true, if_false]
      by_cases hk : k' = k
      · subst hk
        simp only [hak', if_true]
        simpa using ih
      · by_cases ha : (a.1 == k') = true
        · simp [ha, hk]
        · have ha' : (a.1 == k') = false := by simpa using ha
          simp only [ha', hk, if_false]
          simpa [hk] using ih

/-- **`add_if_absent` on a key with room is a map update-if-absent**: it returns the old value (if any), afterwards the key
maps to the old value or the given one, and every other key is untouched -/
theorem peek_addIfAbsent (l : Lru) (k k' : String) (v : Nat) (h : l.Room k) :
    (l.addIfAbsent k v).2 = l.peek k ∧
    (l.addIfAbsent k v).1.peek k' = if k' = k then some ((l.peek k).getD v) else l.peek k' := by
  unfold addIfAbsent
  by_cases hc : l.contains k = true
  · simp only [hc, if_true]
    refine ⟨get_snd l k, ?_⟩
    rw [peek_get]
    by_cases hk : k' = k
    · subst hk
      have : (l.peek k').isSome = true := by rw [← contains_iff_peek]; exact hc
      cases hp : l.peek k' with
      | none => rw [hp] at this; cases this
      | some x => simp
    · simp [hk]
  · have hc' : l.contains k = false := by simpa using hc
    simp only [hc', Bool.false_eq_true, if_false]
    have hroom : l.items.length < l.cap := by
      rcases h.2 with h' | h'
      · rw [hc'] at h'; cases h'
      · exact h'
    have hnone : l.peek k = none := by
      have := contains_iff_peek l k
      rw [hc'] at this
      cases hp : l.peek k with
      | none => rfl
      | some x => rw [hp] at this; cases this
    refine ⟨hnone.symm, ?_⟩
    rw [peek_putNew l k k' v h.1 hroom, hnone]
    rfl

end Lru
end Sentinel
